"""VX unit for C15: root selection in `Writer::open` (crates/aranya-runtime/src/storage/linear/libc/imp.rs).

Rewrites:
  S1 `let file = File { fd: Arc::new(fd) };`              -> `let file = mk_file(fd);`                 (external constructor)
  S2 `file.load(ROOT_A).and_then(Root::validate)`         -> `load_valid_root(&file, ROOT_A)`          (external: load + validate of one slot; same for ROOT_B)
`other_root` is extracted verbatim as well. `Root`, `Writer`, `File` keep the fields `open` touches.
"""
from lib.vx import FnSpec, build_unit

FILE = 'crates/aranya-runtime/src/storage/linear/libc/imp.rs'

PRELUDE = r'''
use vstd::prelude::*;
use core::cmp::Ordering;
verus! {
pub enum StorageError { IoError }
pub struct OwnedFd { pub _p: () }
pub struct File { pub _p: () }
pub struct Root { pub generation: u64, pub heads: Option<u64>, pub fact_cache: Option<u64>, pub free_offset: i64, pub checksum: u64 }
pub struct Writer { pub file: File, pub root: Root, pub alloc_end: i64, pub next_root: i64, pub data_dirty: bool }
pub const PAGE: i64 = 4096;
pub const ROOT_A: i64 = PAGE;
pub const ROOT_B: i64 = PAGE * 2;

/// what each root slot holds on disk: `Some(root)` iff the slot loads and its checksum validates
pub uninterp spec fn slot(f: &File, at: i64) -> Option<Root>;
pub uninterp spec fn file_of(fd: OwnedFd) -> File;
#[verifier::external_body] fn mk_file(fd: OwnedFd) -> (r: File) ensures r == file_of(fd) { unimplemented!() }
#[verifier::external_body] fn load_valid_root(f: &File, at: i64) -> (r: Result<Root, StorageError>)
    ensures r is Ok == (slot(f, at) is Some), r is Ok ==> r->Ok_0 == slot(f, at)->Some_0
{ unimplemented!() }

// vstd has no spec for u64::cmp returning Ordering in this build: thin verified wrapper with the std meaning
fn cmp_u64(a: u64, b: u64) -> (r: Ordering)
    ensures (r is Less) == (a < b), (r is Equal) == (a == b), (r is Greater) == (a > b)
{ if a < b { Ordering::Less } else if a == b { Ordering::Equal } else { Ordering::Greater } }
'''

OTHER = FnSpec(FILE, 'other_root', contract='''
    ensures r == (if slot == ROOT_A { ROOT_B } else { ROOT_A }),
''')

OPEN = FnSpec(FILE, 'open', r'impl Writer',
    rewrites=[('let file = File { fd: Arc::new(fd) };', 'let file = mk_file(fd);', 1, 'S1'),
              ('file.load(ROOT_A).and_then(Root::validate)', 'load_valid_root(&file, ROOT_A)', 1, 'S2'),
              ('file.load(ROOT_B).and_then(Root::validate)', 'load_valid_root(&file, ROOT_B)', 1, 'S2'),
              ('root_a.generation.cmp(&root_b.generation)', 'cmp_u64(root_a.generation, root_b.generation)', 1, 'u64::cmp -> verified wrapper')],
    contract='''
        ensures
            // recovery fails only when neither slot holds a valid root
            r is Err <==> (slot(&file_of(fd), ROOT_A) is None && slot(&file_of(fd), ROOT_B) is None),
            r is Ok ==> ({
                let w = r->Ok_0;
                &&& w.file == file_of(fd)
                &&& ({
                let a = slot(&w.file, ROOT_A);
                let b = slot(&w.file, ROOT_B);
                // the newest valid generation wins (A on ties); a single valid slot is taken as is
                let chosen = if a is Some && b is Some { if a->Some_0.generation < b->Some_0.generation { ROOT_B } else { ROOT_A } }
                             else if a is Some { ROOT_A } else { ROOT_B };
                &&& w.root == (if chosen == ROOT_A { a->Some_0 } else { b->Some_0 })
                // the next commit writes the OTHER slot, so the recovered root survives until the new one is durable
                &&& w.next_root == (if chosen == ROOT_A { ROOT_B } else { ROOT_A })
                // nothing past the recovered write frontier is considered allocated or visible
                &&& w.alloc_end == w.root.free_offset
                &&& !w.data_dirty
                })
            }),
''')


def build():
    return build_unit(PRELUDE, [(None, [OTHER]), ('impl Writer', [OPEN])])
