"""VX unit for C11: the default `Storage::is_ancestor` search (crates/aranya-runtime/src/storage/mod.rs),
extracted verbatim and verified against an abstract well-formed graph.

What is proved (for every graph satisfying the storage axioms below, any size): the search terminates and
returns `true` exactly when `search_location` is a proper ancestor of `start_location`; skip-list jumps never
change the answer. The callee contracts are:
  * TraversalQueue::{push, pop}, TraversalBuffer::get — the contracts proved in unit `c21_traversal_queue`
    (merge-by-segment keeping the highest max cut; pop returns the maximum under (max_cut, segment)),
    restated over the "one entry per segment" view Map<segment, max_cut>;
  * Storage::get_segment / Segment::{get_command, skip_list, prior} — an abstract graph (`anc`, segments,
    priors, skip entries) with the well-formedness axioms A1–A6 (max cut strictly grows along ancestry;
    in-segment order; a command outside a segment reaches it only through the segment's priors; every skip
    entry K of a segment is an ancestor of the segment's first command through which every ancestor with
    max cut ≤ K's passes — the "spine" property argued in DESIGN §4 C11).
Rewrites:
  R2' `segment.skip_list().iter().find(|skip| skip.max_cut >= search_location.max_cut)` -> `find_skip(segment.skip_list(), search_location.max_cut)` (verified helper: first match)
  R5  `debug_assert!(cond, msg)` -> `assert(cond)` (re-asserted: it is proved)
  R14 `for prior in segment.prior() {` -> index loop over `prior_locs(segment.prior())` (verified helper listing a Prior's locations in order)
"""
from lib.vx import FnSpec, build_unit

FILE = 'crates/aranya-runtime/src/storage/mod.rs'

PRELUDE = r'''
use vstd::prelude::*;
verus! {
pub type MaxCut = u64;
pub type SegmentIndex = u64;
#[derive(Copy, Clone, Structural, PartialEq, Eq)]
pub struct Location { pub max_cut: MaxCut, pub segment: SegmentIndex }
pub enum StorageError { Bug, Other }
pub enum Prior<T> { None, Single(T), Merge(T, T) }

// ------------------------------------------------------------------ abstract graph
pub uninterp spec fn valid(l: Location) -> bool;
/// a is a PROPER ancestor of b
pub uninterp spec fn anc(a: Location, b: Location) -> bool;
pub open spec fn anc_eq(a: Location, b: Location) -> bool { a == b || anc(a, b) }
pub uninterp spec fn seg_first(s: SegmentIndex) -> MaxCut;
pub uninterp spec fn seg_last(s: SegmentIndex) -> MaxCut;
pub uninterp spec fn seg_priors(s: SegmentIndex) -> Seq<Location>;
pub uninterp spec fn seg_skips(s: SegmentIndex) -> Seq<Location>;
pub open spec fn first_loc(s: SegmentIndex) -> Location { Location { max_cut: seg_first(s), segment: s } }

/// Well-formedness of the stored graph (assumed contract of `Storage` / `Segment`):
pub broadcast proof fn ax_valid_range(l: Location)
    ensures #[trigger] valid(l) ==> seg_first(l.segment) <= l.max_cut <= seg_last(l.segment) && valid(first_loc(l.segment))
{ admit(); }
pub proof fn ax_valid_in_range(s: SegmentIndex, m: MaxCut)
    requires valid(first_loc(s)), seg_first(s) <= m <= seg_last(s) ensures valid(Location { max_cut: m, segment: s })
{ admit(); }
/// A1 max cut strictly grows along ancestry; A5 transitivity; ancestors of valid commands are valid
pub proof fn ax_anc(a: Location, b: Location)
    requires anc(a, b) ensures a.max_cut < b.max_cut, valid(b) ==> valid(a)
{ admit(); }
pub proof fn ax_trans(a: Location, b: Location, c: Location)
    requires anc(a, b), anc(b, c) ensures anc(a, c)
{ admit(); }
/// A2 inside a segment ancestry is the max-cut order
pub proof fn ax_in_segment(a: Location, b: Location)
    requires valid(a), valid(b), a.segment == b.segment ensures anc(a, b) <==> a.max_cut < b.max_cut
{ admit(); }
/// A3 a command outside a segment is an ancestor of a command of that segment iff it is
/// (an ancestor of or equal to) one of the segment's priors
pub proof fn ax_cross_segment(a: Location, b: Location)
    requires valid(a), valid(b), a.segment != b.segment
    ensures anc(a, b) <==> exists|i: int| 0 <= i < seg_priors(b.segment).len() && anc_eq(a, #[trigger] seg_priors(b.segment)[i])
{ admit(); }
pub proof fn ax_priors(s: SegmentIndex, i: int)
    requires valid(first_loc(s)), 0 <= i < seg_priors(s).len()
    ensures valid(seg_priors(s)[i]), anc(seg_priors(s)[i], first_loc(s)), seg_priors(s)[i].segment != s, seg_priors(s).len() <= 2
{ admit(); }
/// A4 skip entries are "spine nodes": ancestors of the segment's first command through which every
/// ancestor with a max cut not above theirs passes (DESIGN §4 C11)
pub proof fn ax_skip(s: SegmentIndex, i: int, a: Location)
    requires valid(first_loc(s)), 0 <= i < seg_skips(s).len()
    ensures valid(seg_skips(s)[i]), anc(seg_skips(s)[i], first_loc(s)), seg_skips(s)[i].segment != s,
        anc(a, first_loc(s)) && a.max_cut <= seg_skips(s)[i].max_cut ==> anc_eq(a, seg_skips(s)[i])
{ admit(); }

// ------------------------------------------------------------------ callee contracts
/// the id of the command stored at a location
pub uninterp spec fn id_at(l: Location) -> u64;
pub struct Command { pub cid: Ghost<u64> }
impl Command {
    #[verifier::external_body] pub fn id(&self) -> (r: u64) ensures r == self.cid@ { unimplemented!() }
}
pub struct Segment { pub idx: SegmentIndex, pub priors: Prior<Location>, pub skips: Vec<Location> }
impl Segment {
    pub open spec fn wf(&self) -> bool {
        &&& valid(first_loc(self.idx))
        &&& self.skips@ == seg_skips(self.idx)
        &&& prior_seq(self.priors) == seg_priors(self.idx)
    }
    #[verifier::external_body]
    pub fn get_command(&self, l: Location) -> (r: Option<Command>)
        ensures r is Some <==> (l.segment == self.idx && seg_first(self.idx) <= l.max_cut <= seg_last(self.idx)),
            r is Some ==> r->Some_0.cid@ == id_at(l),
    { unimplemented!() }
    pub fn index(&self) -> (r: SegmentIndex) ensures r == self.idx { self.idx }
    pub fn skip_list(&self) -> (r: &Vec<Location>) ensures r@ == self.skips@ { &self.skips }
    pub fn prior(&self) -> (r: Prior<Location>) ensures r == self.priors { match &self.priors { Prior::None => Prior::None, Prior::Single(a) => Prior::Single(*a), Prior::Merge(a, b) => Prior::Merge(*a, *b) } }
}
pub open spec fn prior_seq(p: Prior<Location>) -> Seq<Location> {
    match p { Prior::None => seq![], Prior::Single(a) => seq![a], Prior::Merge(a, b) => seq![a, b] }
}
/// R14 helper: the locations a Prior iterates over, in order
fn prior_locs(p: Prior<Location>) -> (r: Vec<Location>) ensures r@ == prior_seq(p) {
    let mut v = Vec::new();
    match p {
        Prior::None => {}
        Prior::Single(a) => { v.push(a); }
        Prior::Merge(a, b) => { v.push(a); v.push(b); }
    }
    v
}
/// R2' helper: `iter().find(|skip| skip.max_cut >= m)` = first such entry
fn find_skip(v: &Vec<Location>, m: MaxCut) -> (r: Option<Location>)
    ensures
        r is Some ==> exists|i: int| 0 <= i < v@.len() && v@[i] == r->Some_0 && v@[i].max_cut >= m,
        r is None ==> forall|i: int| 0 <= i < v@.len() ==> (#[trigger] v@[i]).max_cut < m,
{
    let mut i: usize = 0;
    while i < v.len()
        invariant i <= v@.len(), forall|k: int| 0 <= k < i ==> (#[trigger] v@[k]).max_cut < m,
        decreases v@.len() - i,
    {
        if v[i].max_cut >= m { return Some(v[i]); }
        i += 1;
    }
    None
}

pub struct Storage { pub _p: () }
impl Storage {
    #[verifier::external_body]
    pub fn get_segment(&self, l: Location) -> (r: Result<Segment, StorageError>)
        ensures valid(l) ==> r is Ok && r->Ok_0.idx == l.segment && r->Ok_0.wf()
    { unimplemented!() }
}

/// TraversalQueue under its "one entry per segment" invariant: segment -> highest max cut queued.
#[verifier::external_body]
pub struct TraversalQueue { _p: () }
pub struct TraversalBuffer { pub queue: TraversalQueue }
pub open spec fn loc_lt(a: Location, b: Location) -> bool {
    a.max_cut < b.max_cut || (a.max_cut == b.max_cut && a.segment < b.segment)
}
impl TraversalQueue {
    pub uninterp spec fn view(&self) -> Map<SegmentIndex, MaxCut>;
    pub open spec fn has(&self, l: Location) -> bool { self@.contains_key(l.segment) && self@[l.segment] == l.max_cut }
    /// contract proved in unit c21_traversal_queue (push = push_covered(loc, false), uniq preserved)
    #[verifier::external_body]
    pub fn push(&mut self, loc: Location) -> (r: Result<(), StorageError>)
        ensures r is Ok,
            final(self)@ == old(self)@.insert(loc.segment,
                if old(self)@.contains_key(loc.segment) && old(self)@[loc.segment] > loc.max_cut { old(self)@[loc.segment] } else { loc.max_cut }),
    { unimplemented!() }
    /// contract proved in unit c21_traversal_queue (pop returns a maximum under (max_cut, segment) and removes exactly it)
    #[verifier::external_body]
    pub fn pop(&mut self) -> (r: Result<Option<Location>, StorageError>)
        ensures r is Ok,
            r->Ok_0 is None <==> old(self)@.dom() =~= Set::<SegmentIndex>::empty(),
            r->Ok_0 is None ==> final(self)@ == old(self)@,
            r->Ok_0 is Some ==> ({
                let x = r->Ok_0->Some_0;
                &&& old(self).has(x)
                &&& final(self)@ == old(self)@.remove(x.segment)
                &&& forall|s: SegmentIndex| #[trigger] old(self)@.contains_key(s) && s != x.segment
                        ==> loc_lt(Location { max_cut: old(self)@[s], segment: s }, x)
            }),
    { unimplemented!() }
}
impl TraversalBuffer {
    #[verifier::external_body]
    pub fn get(&mut self) -> (r: &mut TraversalQueue)
        ensures r@ =~= Map::<SegmentIndex, MaxCut>::empty()
    { unimplemented!() }
}

// ------------------------------------------------------------------ loop invariant pieces
/// every queued location is a valid ancestor-or-self of `start` with max cut >= the target's
pub open spec fn q_sound(q: Map<SegmentIndex, MaxCut>, search: Location, start: Location) -> bool {
    forall|s: SegmentIndex| #[trigger] q.contains_key(s) ==> {
        let l = Location { max_cut: q[s], segment: s };
        valid(l) && anc_eq(l, start) && l.max_cut >= search.max_cut
    }
}
/// some queued location has `search` as ancestor-or-self
pub open spec fn q_witness(q: Map<SegmentIndex, MaxCut>, search: Location) -> bool {
    exists|s: SegmentIndex| #[trigger] q.contains_key(s) && anc_eq(search, Location { max_cut: q[s], segment: s })
}
/// all queued locations are strictly below `bound` in the (max_cut, segment) order
pub open spec fn q_below(q: Map<SegmentIndex, MaxCut>, bound: Location) -> bool {
    forall|s: SegmentIndex| #[trigger] q.contains_key(s) ==> loc_lt(Location { max_cut: q[s], segment: s }, bound)
}
/// the queue after `push(x)` (merge by segment, keep the highest max cut)
pub open spec fn pushed(q: Map<SegmentIndex, MaxCut>, x: Location) -> Map<SegmentIndex, MaxCut> {
    q.insert(x.segment, if q.contains_key(x.segment) && q[x.segment] > x.max_cut { q[x.segment] } else { x.max_cut })
}

proof fn lemma_anc_eq_trans(a: Location, b: Location, c: Location)
    requires anc_eq(a, b), anc_eq(b, c) ensures anc_eq(a, c)
{ if a != b && b != c { ax_trans(a, b, c); } }

proof fn lemma_first_anc_eq(l: Location)
    requires valid(l) ensures valid(first_loc(l.segment)), anc_eq(first_loc(l.segment), l)
{
    ax_valid_range(l);
    let f = first_loc(l.segment);
    if f != l { ax_in_segment(f, l); }
}

proof fn lemma_push(q0: Map<SegmentIndex, MaxCut>, x: Location, search: Location, start: Location, bound: Location)
    requires q_sound(q0, search, start), valid(x), anc_eq(x, start), x.max_cut >= search.max_cut,
    ensures
        q_sound(pushed(q0, x), search, start),
        (q_witness(q0, search) || anc_eq(search, x)) ==> q_witness(pushed(q0, x), search),
        q_below(q0, bound) && loc_lt(x, bound) ==> q_below(pushed(q0, x), bound),
{
    let q1 = pushed(q0, x);
    let e = Location { max_cut: q1[x.segment], segment: x.segment };
    assert(q1.contains_key(x.segment));
    // the entry now held for x's segment is x or an older, higher entry of the same segment
    if q0.contains_key(x.segment) && q0[x.segment] > x.max_cut {
        let o = Location { max_cut: q0[x.segment], segment: x.segment };
        assert(e == o);
        ax_in_segment(x, o);
    } else {
        assert(e == x);
    }
    assert(anc_eq(x, e));
    assert forall|s: SegmentIndex| #[trigger] q1.contains_key(s) implies ({
        let l = Location { max_cut: q1[s], segment: s };
        valid(l) && anc_eq(l, start) && l.max_cut >= search.max_cut
    }) by {
        if s != x.segment { assert(q0.contains_key(s)); }
        else if q0.contains_key(x.segment) && q0[x.segment] > x.max_cut { assert(q0.contains_key(s)); }
    }
    if q_witness(q0, search) || anc_eq(search, x) {
        if anc_eq(search, x) {
            lemma_anc_eq_trans(search, x, e);
        } else {
            let s0 = choose|s: SegmentIndex| #[trigger] q0.contains_key(s) && anc_eq(search, Location { max_cut: q0[s], segment: s });
            let w = Location { max_cut: q0[s0], segment: s0 };
            if s0 != x.segment {
                assert(q1.contains_key(s0) && q1[s0] == q0[s0]);
            } else {
                // same segment: the witness is kept, or replaced by a descendant in the same segment
                assert(q0.contains_key(x.segment));
                if q0[x.segment] > x.max_cut { assert(e == w); }
                else {
                    if w != x { ax_in_segment(w, x); }
                    lemma_anc_eq_trans(search, w, x);
                }
                assert(anc_eq(search, e));
            }
        }
    }
    if q_below(q0, bound) && loc_lt(x, bound) {
        assert forall|s: SegmentIndex| #[trigger] q1.contains_key(s) implies loc_lt(Location { max_cut: q1[s], segment: s }, bound) by {
            if s != x.segment { assert(q0.contains_key(s)); }
            else if q0.contains_key(x.segment) && q0[x.segment] > x.max_cut { assert(q0.contains_key(s)); }
        }
    }
}

/// a skip entry / prior of loc's segment is a proper ancestor of `loc`, strictly below it
proof fn lemma_below_loc(k: Location, loc: Location)
    requires valid(loc), valid(k), anc(k, first_loc(loc.segment)),
    ensures anc(k, loc), loc_lt(k, loc),
{
    lemma_first_anc_eq(loc);
    let f = first_loc(loc.segment);
    if f != loc { ax_trans(k, f, loc); }
    ax_anc(k, loc);
}

// ------------------------------------------------------------------ lookup by address (search_queued)
#[derive(Copy, Clone)]
pub struct Address { pub id: u64, pub max_cut: MaxCut }
/// the location of the command with this address, if the storage holds it
pub uninterp spec fn target(a: Address) -> Option<Location>;
/// A7 an address (id, max cut) names at most one stored command: target(a) is the valid location at that max cut
/// holding that id, if there is one (command ids are unique)
pub proof fn ax_target_def(a: Address, l: Location)
    ensures target(a) == Some(l) <==> (valid(l) && l.max_cut == a.max_cut && id_at(l) == a.id)
{ admit(); }
pub proof fn ax_target(a: Address)
    ensures target(a) is Some ==> valid(target(a)->Some_0) && target(a)->Some_0.max_cut == a.max_cut
{ if target(a) is Some { ax_target_def(a, target(a)->Some_0); } }
impl Location {
    pub fn new(segment: SegmentIndex, max_cut: MaxCut) -> (r: Self) ensures r == (Location { max_cut, segment }) { Location { max_cut, segment } }
}
/// l is an ancestor-or-self of one of the seeds
pub open spec fn from_seeds(l: Location, seeds: Map<SegmentIndex, MaxCut>) -> bool {
    exists|s: SegmentIndex| #[trigger] seeds.contains_key(s) && anc_eq(l, Location { max_cut: seeds[s], segment: s })
}
pub open spec fn qs_sound(q: Map<SegmentIndex, MaxCut>, mc: MaxCut, seeds: Map<SegmentIndex, MaxCut>) -> bool {
    forall|s: SegmentIndex| #[trigger] q.contains_key(s) ==> {
        let l = Location { max_cut: q[s], segment: s };
        valid(l) && from_seeds(l, seeds) && l.max_cut >= mc
    }
}
proof fn lemma_from_seeds_down(k: Location, l: Location, seeds: Map<SegmentIndex, MaxCut>)
    requires anc_eq(k, l), from_seeds(l, seeds) ensures from_seeds(k, seeds)
{
    let s = choose|s: SegmentIndex| #[trigger] seeds.contains_key(s) && anc_eq(l, Location { max_cut: seeds[s], segment: s });
    lemma_anc_eq_trans(k, l, Location { max_cut: seeds[s], segment: s });
}
proof fn lemma_push_s(q0: Map<SegmentIndex, MaxCut>, x: Location, t: Location, mc: MaxCut, seeds: Map<SegmentIndex, MaxCut>, bound: Location)
    requires qs_sound(q0, mc, seeds), valid(x), from_seeds(x, seeds), x.max_cut >= mc,
    ensures
        qs_sound(pushed(q0, x), mc, seeds),
        (q_witness(q0, t) || anc_eq(t, x)) ==> q_witness(pushed(q0, x), t),
        q_below(q0, bound) && loc_lt(x, bound) ==> q_below(pushed(q0, x), bound),
{
    let q1 = pushed(q0, x);
    let e = Location { max_cut: q1[x.segment], segment: x.segment };
    assert(q1.contains_key(x.segment));
    if q0.contains_key(x.segment) && q0[x.segment] > x.max_cut {
        let o = Location { max_cut: q0[x.segment], segment: x.segment };
        assert(e == o);
        ax_in_segment(x, o);
    } else {
        assert(e == x);
    }
    assert(anc_eq(x, e));
    assert forall|s: SegmentIndex| #[trigger] q1.contains_key(s) implies ({
        let l = Location { max_cut: q1[s], segment: s };
        valid(l) && from_seeds(l, seeds) && l.max_cut >= mc
    }) by {
        if s != x.segment { assert(q0.contains_key(s)); }
        else if q0.contains_key(x.segment) && q0[x.segment] > x.max_cut { assert(q0.contains_key(s)); }
    }
    if q_witness(q0, t) || anc_eq(t, x) {
        if anc_eq(t, x) {
            lemma_anc_eq_trans(t, x, e);
        } else {
            let s0 = choose|s: SegmentIndex| #[trigger] q0.contains_key(s) && anc_eq(t, Location { max_cut: q0[s], segment: s });
            let w = Location { max_cut: q0[s0], segment: s0 };
            if s0 != x.segment {
                assert(q1.contains_key(s0) && q1[s0] == q0[s0]);
            } else {
                assert(q0.contains_key(x.segment));
                if q0[x.segment] > x.max_cut { assert(e == w); }
                else {
                    if w != x { ax_in_segment(w, x); }
                    lemma_anc_eq_trans(t, w, x);
                }
                assert(anc_eq(t, e));
            }
        }
    }
    if q_below(q0, bound) && loc_lt(x, bound) {
        assert forall|s: SegmentIndex| #[trigger] q1.contains_key(s) implies loc_lt(Location { max_cut: q1[s], segment: s }, bound) by {
            if s != x.segment { assert(q0.contains_key(s)); }
            else if q0.contains_key(x.segment) && q0[x.segment] > x.max_cut { assert(q0.contains_key(s)); }
        }
    }
}

// ------------------------------------------------------------------ lookup from the committed heads (get_location / get_location_from)
#[derive(Copy, Clone)]
pub struct LocatedAddress { pub id: u64, pub segment: SegmentIndex, pub max_cut: MaxCut }
pub struct HeadSet { pub heads: Vec<LocatedAddress> }
/// the committed head set of the storage (the graph is everything reachable from it)
pub uninterp spec fn storage_heads() -> Seq<Location>;
pub proof fn ax_heads(i: int) requires 0 <= i < storage_heads().len() ensures valid(storage_heads()[i]) { admit(); }
pub open spec fn head_loc(h: LocatedAddress) -> Location { Location { segment: h.segment, max_cut: h.max_cut } }
/// l is in the committed graph: an ancestor-or-self of a committed head
pub open spec fn in_graph(l: Location) -> bool {
    exists|i: int| 0 <= i < storage_heads().len() && anc_eq(l, #[trigger] storage_heads()[i])
}
impl Storage {
    #[verifier::external_body]
    pub fn get_heads(&self) -> (r: Result<&HeadSet, StorageError>)
        ensures r is Ok, r->Ok_0.heads@.len() == storage_heads().len(),
            forall|i: int| 0 <= i < storage_heads().len() ==> head_loc(#[trigger] r->Ok_0.heads@[i]) == storage_heads()[i],
    { unimplemented!() }
}
/// R14 helper: the heads a HeadSet iterates over, in order
fn head_vec(h: &HeadSet) -> (r: &Vec<LocatedAddress>) ensures r@ == h.heads@ { &h.heads }
/// queue entries all come from the graph, at or above the target's max cut
pub open spec fn qg_sound(q: Map<SegmentIndex, MaxCut>, mc: MaxCut) -> bool {
    forall|s: SegmentIndex| #[trigger] q.contains_key(s) ==> {
        let l = Location { max_cut: q[s], segment: s };
        valid(l) && in_graph(l) && l.max_cut >= mc
    }
}
proof fn lemma_push_g(q0: Map<SegmentIndex, MaxCut>, x: Location, mc: MaxCut)
    requires qg_sound(q0, mc), valid(x), in_graph(x), x.max_cut >= mc,
    ensures
        qg_sound(pushed(q0, x), mc),
        forall|t: Location| (q_witness(q0, t) || anc_eq(t, x)) ==> #[trigger] q_witness(pushed(q0, x), t),
{
    let q1 = pushed(q0, x);
    let e = Location { max_cut: q1[x.segment], segment: x.segment };
    assert(q1.contains_key(x.segment));
    if q0.contains_key(x.segment) && q0[x.segment] > x.max_cut {
        let o = Location { max_cut: q0[x.segment], segment: x.segment };
        assert(e == o);
        ax_in_segment(x, o);
    } else {
        assert(e == x);
    }
    assert(anc_eq(x, e));
    assert forall|s: SegmentIndex| #[trigger] q1.contains_key(s) implies ({
        let l = Location { max_cut: q1[s], segment: s };
        valid(l) && in_graph(l) && l.max_cut >= mc
    }) by {
        if s != x.segment { assert(q0.contains_key(s)); }
        else if q0.contains_key(x.segment) && q0[x.segment] > x.max_cut { assert(q0.contains_key(s)); }
    }
    assert forall|t: Location| (q_witness(q0, t) || anc_eq(t, x)) implies #[trigger] q_witness(q1, t) by {
        if anc_eq(t, x) {
            lemma_anc_eq_trans(t, x, e);
        } else {
            let s0 = choose|s: SegmentIndex| #[trigger] q0.contains_key(s) && anc_eq(t, Location { max_cut: q0[s], segment: s });
            let w = Location { max_cut: q0[s0], segment: s0 };
            if s0 != x.segment {
                assert(q1.contains_key(s0) && q1[s0] == q0[s0]);
            } else {
                assert(q0.contains_key(x.segment));
                if q0[x.segment] > x.max_cut { assert(e == w); }
                else {
                    if w != x { ax_in_segment(w, x); }
                    lemma_anc_eq_trans(t, w, x);
                }
                assert(anc_eq(t, e));
            }
        }
    }
}
/// with a sound queue holding a witness for every reachable target, "from the seeds" is "in the graph"
proof fn lemma_seeds_graph(q: Map<SegmentIndex, MaxCut>, mc: MaxCut, t: Location)
    requires qg_sound(q, mc), in_graph(t) ==> q_witness(q, t),
    ensures from_seeds(t, q) <==> in_graph(t),
{
    if from_seeds(t, q) {
        let s = choose|s: SegmentIndex| #[trigger] q.contains_key(s) && anc_eq(t, Location { max_cut: q[s], segment: s });
        let e = Location { max_cut: q[s], segment: s };
        let i = choose|i: int| 0 <= i < storage_heads().len() && anc_eq(e, #[trigger] storage_heads()[i]);
        lemma_anc_eq_trans(t, e, storage_heads()[i]);
    }
    if in_graph(t) {
        let s = choose|s: SegmentIndex| #[trigger] q.contains_key(s) && anc_eq(t, Location { max_cut: q[s], segment: s });
        assert(q.contains_key(s) && anc_eq(t, Location { max_cut: q[s], segment: s }));
    }
}
'''

IS_ANC = FnSpec(
    FILE, 'is_ancestor', r'pub trait Storage\b', attrs='#[verifier::spinoff_prover]',
    contract="""
        requires valid(search_location), valid(start_location),
        ensures r is Ok, r->Ok_0 == anc(search_location, start_location),
""",
    rewrites=[
        ("""debug_assert!(
                loc.max_cut >= search_location.max_cut,
                "Invariant: we only enqueue locations with at least the target max cut"
            );""", 'assert(loc.max_cut >= search_location.max_cut);', 1, 'R5'),
        ("""Some(&skip) = segment
                .skip_list()
                .iter()
                .find(|skip| skip.max_cut >= search_location.max_cut)""", 'Some(skip) = find_skip(segment.skip_list(), search_location.max_cut)', 1, "R2'"),
        ('for prior in segment.prior() {', """let ps = prior_locs(segment.prior());
                for pi in 0..ps.len()
                    invariant
                        ps@ == seg_priors(loc.segment), segment.idx == loc.segment, segment.wf(), valid(loc),
                        valid(search_location), valid(start_location), anc_eq(loc, start_location),
                        search_location.segment != loc.segment,
                        search_location != start_location, search_location.max_cut <= start_location.max_cut,
                        !first_round, bound == loc, qv == queue@,
                        q_sound(queue@, search_location, start_location),
                        q_below(queue@, loc),
                        // completeness: a witness is queued, or it is one of the priors still to come
                        anc(search_location, start_location) ==> (q_witness(queue@, search_location)
                            || (exists|j: int| pi <= j < ps@.len() && anc_eq(search_location, #[trigger] ps@[j]))),
                {
                    let prior = ps[pi];
                    let ghost q0 = queue@;
                    proof {
                        ax_priors(loc.segment, pi as int);
                        lemma_below_loc(prior, loc);
                        lemma_anc_eq_trans(prior, loc, start_location);
                        if anc_eq(search_location, prior) && search_location != prior { ax_anc(search_location, prior); }
                        if prior.max_cut >= search_location.max_cut {
                            lemma_push(q0, prior, search_location, start_location, loc);
                        }
                    }""", 1, 'R14'),
    ],
    inserts=[
        ('before', 'return Ok(false);', """proof { if anc(search_location, start_location) { ax_anc(search_location, start_location); } }"""),
        ('after', 'queue.push(start_location)?;', """
        let ghost mut bound = Location { max_cut: u64::MAX, segment: u64::MAX };
        let ghost mut first_round = true;
        let ghost mut qv = queue@;
        proof {
            let q = queue@;
            assert(q.contains_key(start_location.segment) && q[start_location.segment] == start_location.max_cut);
            assert(anc_eq(start_location, Location { max_cut: q[start_location.segment], segment: start_location.segment }));
            assert(q =~= Map::<SegmentIndex, MaxCut>::empty().insert(start_location.segment, start_location.max_cut));
        }"""),
        ('after', 'while let Some(loc) = queue.pop()?', """
            invariant
                qv == queue@,
                valid(search_location), valid(start_location), search_location != start_location,
                search_location.max_cut <= start_location.max_cut,
                q_sound(queue@, search_location, start_location),
                anc(search_location, start_location) ==> q_witness(queue@, search_location),
                first_round ==> queue@ =~= Map::<SegmentIndex, MaxCut>::empty().insert(start_location.segment, start_location.max_cut),
                !first_round ==> q_below(queue@, bound),
            ensures
                !anc(search_location, start_location),
            decreases (if first_round { 1int } else { 0int }), bound.max_cut, bound.segment,"""),
        ('before', 'let segment = self.get_segment(loc)?;', """let ghost wit_is_loc = anc(search_location, start_location) && !q_witness(queue@, search_location);
            proof {
                // `loc` was queued (sound); everything still queued is strictly below it
                assert(qv.contains_key(loc.segment) && qv[loc.segment] == loc.max_cut && queue@ == qv.remove(loc.segment));
                assert(valid(loc) && anc_eq(loc, start_location) && loc.max_cut >= search_location.max_cut);
                assert(q_below(queue@, loc));
                if !first_round { assert(loc_lt(loc, bound)); }
                if wit_is_loc {
                    let s0 = choose|s: SegmentIndex| #[trigger] qv.contains_key(s) && anc_eq(search_location, Location { max_cut: qv[s], segment: s });
                    if s0 != loc.segment { assert(queue@.contains_key(s0) && queue@[s0] == qv[s0]); }
                    assert(anc_eq(search_location, loc));
                }
                first_round = false;
                bound = loc;
                qv = queue@;
            }"""),
        ('before', 'return Ok(true);', """proof {
                    // found inside loc's segment, at or below loc: an ancestor-or-self of loc, hence of start
                    ax_in_segment(search_location, loc);
                    lemma_anc_eq_trans(search_location, loc, start_location);
                }"""),
        ('before', 'if let Some(skip) = find_skip(segment.skip_list(), search_location.max_cut)', """proof {
                ax_valid_range(search_location);
                assert(search_location.segment != loc.segment);
                lemma_first_anc_eq(loc);
                if wit_is_loc {
                    // search is a proper ancestor of loc from another segment: it passes through a prior,
                    // and it is an ancestor of the segment's first command
                    ax_cross_segment(search_location, loc);
                    ax_cross_segment(search_location, first_loc(loc.segment));
                }
            }"""),
        ('before', 'queue.push(skip)?;', """let ghost q0 = queue@;
                proof {
                    let i = choose|i: int| 0 <= i < segment.skips@.len() && segment.skips@[i] == skip && segment.skips@[i].max_cut >= search_location.max_cut;
                    ax_skip(loc.segment, i, search_location);
                    lemma_below_loc(skip, loc);
                    lemma_anc_eq_trans(skip, loc, start_location);
                    lemma_push(q0, skip, search_location, start_location, loc);
                }"""),
        ('after', 'queue.push(skip)?;', """proof {
                    qv = queue@;
                    assert(queue@ == pushed(q0, skip));
                    if wit_is_loc { assert(anc(search_location, first_loc(loc.segment))); assert(anc_eq(search_location, skip)); assert(q_witness(queue@, search_location)); }
                    if anc(search_location, start_location) && !wit_is_loc { assert(q_witness(q0, search_location)); assert(q_witness(queue@, search_location)); }
                }"""),
        ('after', 'queue.push(prior)?;', """proof { qv = queue@; }"""),
    ])

SEARCH = FnSpec(
    FILE, 'search_queued', attrs='#[verifier::spinoff_prover]',
    sig_rewrites=[('fn search_queued<S: Storage + ?Sized>(\n    storage: &S,', 'fn search_queued(\n    storage: &Storage,', 1, 'R6 (generic Storage -> the abstract Storage)')],
    contract="""
    requires
        // every seed is a command of the graph at or above the target max cut
        forall|s: SegmentIndex| #[trigger] old(queue)@.contains_key(s) ==> valid(Location { max_cut: old(queue)@[s], segment: s }) && old(queue)@[s] >= address.max_cut,
    ensures
        r is Ok,
        // found  <=>  the storage holds the command and it is an ancestor-or-self of a seed; the result is its location
        r->Ok_0 is Some <==> (target(address) is Some && from_seeds(target(address)->Some_0, old(queue)@)),
        r->Ok_0 is Some ==> r->Ok_0 == target(address),
""",
    rewrites=[
        ("""debug_assert!(
            loc.max_cut >= address.max_cut,
            "Invariant: we only enqueue locations with at least the target max cut"
        );""", 'assert(loc.max_cut >= address.max_cut);', 1, 'R5'),
        ("""Some(&skip) = segment
            .skip_list()
            .iter()
            .find(|skip| skip.max_cut >= address.max_cut)""", 'Some(skip) = find_skip(segment.skip_list(), address.max_cut)', 1, "R2'"),
        ('for prior in segment.prior() {', """let ps = prior_locs(segment.prior());
            for pi in 0..ps.len()
                invariant
                    ps@ == seg_priors(loc.segment), segment.idx == loc.segment, segment.wf(), valid(loc),
                    from_seeds(loc, seeds), !first_round, bound == loc, qv == queue@,
                    have ==> valid(t) && t.max_cut == address.max_cut && t.segment != loc.segment && target(address) == Some(t),
                    !have ==> target(address) is None,
                    qs_sound(queue@, address.max_cut, seeds),
                    q_below(queue@, loc),
                    (have && from_seeds(t, seeds)) ==> (q_witness(queue@, t)
                        || (exists|j: int| pi <= j < ps@.len() && anc_eq(t, #[trigger] ps@[j]))),
            {
                let prior = ps[pi];
                let ghost q0 = queue@;
                proof {
                    ax_priors(loc.segment, pi as int);
                    lemma_below_loc(prior, loc);
                    lemma_from_seeds_down(prior, loc, seeds);
                    if have && anc_eq(t, prior) && t != prior { ax_anc(t, prior); }
                    if prior.max_cut >= address.max_cut {
                        lemma_push_s(q0, prior, t, address.max_cut, seeds, loc);
                    }
                }""", 1, 'R14'),
    ],
    inserts=[
        ('before', 'while let Some(loc) = queue.pop()?', """let ghost seeds = queue@;
    let ghost have = target(address) is Some;
    let ghost t = if have { target(address)->Some_0 } else { Location { max_cut: 0, segment: 0 } };
    let ghost mut bound = Location { max_cut: u64::MAX, segment: u64::MAX };
    let ghost mut first_round = true;
    let ghost mut qv = queue@;
    proof {
        ax_target(address);
        assert forall|s: SegmentIndex| #[trigger] seeds.contains_key(s) implies from_seeds(Location { max_cut: seeds[s], segment: s }, seeds) by {
            assert(anc_eq(Location { max_cut: seeds[s], segment: s }, Location { max_cut: seeds[s], segment: s }));
        }
    }"""),
        ('after', 'while let Some(loc) = queue.pop()?', """
        invariant
            qv == queue@,
            have ==> valid(t) && t.max_cut == address.max_cut && target(address) == Some(t),
            !have ==> target(address) is None,
            qs_sound(queue@, address.max_cut, seeds),
            (have && from_seeds(t, seeds)) ==> q_witness(queue@, t),
            first_round ==> queue@ == seeds,
            seeds == old(queue)@,
            !first_round ==> q_below(queue@, bound),
        ensures
            !(have && from_seeds(t, seeds)),
        decreases (if first_round { 1int } else { 0int }), bound.max_cut, bound.segment,"""),
        ('before', 'let segment = storage.get_segment(loc)?;', """let ghost wit_is_loc = have && from_seeds(t, seeds) && !q_witness(queue@, t);
        proof {
            assert(qv.contains_key(loc.segment) && qv[loc.segment] == loc.max_cut && queue@ == qv.remove(loc.segment));
            assert(valid(loc) && from_seeds(loc, seeds) && loc.max_cut >= address.max_cut);
            assert(q_below(queue@, loc));
            if !first_round { assert(loc_lt(loc, bound)); }
            if wit_is_loc {
                let s0 = choose|s: SegmentIndex| #[trigger] qv.contains_key(s) && anc_eq(t, Location { max_cut: qv[s], segment: s });
                if s0 != loc.segment { assert(queue@.contains_key(s0) && queue@[s0] == qv[s0]); }
                assert(anc_eq(t, loc));
            }
            first_round = false;
            bound = loc;
            qv = queue@;
        }"""),
        ('before', 'return Ok(Some(found));', """proof {
                // found in loc's segment at the address' max cut (<= loc's): an ancestor-or-self of loc, hence of a seed
                assert(found == t);
                ax_in_segment(t, loc);
                lemma_from_seeds_down(t, loc, seeds);
            }"""),
        ('before', 'if let Some(skip) = find_skip(segment.skip_list(), address.max_cut)', """proof {
            if have { assert(t.segment != loc.segment); }
            lemma_first_anc_eq(loc);
            if wit_is_loc {
                ax_cross_segment(t, loc);
                ax_cross_segment(t, first_loc(loc.segment));
            }
        }"""),
        ('before', 'queue.push(skip)?;', """let ghost q0 = queue@;
            proof {
                let i = choose|i: int| 0 <= i < segment.skips@.len() && segment.skips@[i] == skip && segment.skips@[i].max_cut >= address.max_cut;
                ax_skip(loc.segment, i, t);
                lemma_below_loc(skip, loc);
                lemma_from_seeds_down(skip, loc, seeds);
                lemma_push_s(q0, skip, t, address.max_cut, seeds, loc);
            }"""),
        ('after', 'queue.push(skip)?;', """proof {
                qv = queue@;
                assert(queue@ == pushed(q0, skip));
                if wit_is_loc { assert(anc(t, first_loc(loc.segment))); assert(anc_eq(t, skip)); assert(q_witness(queue@, t)); }
                if have && from_seeds(t, seeds) && !wit_is_loc { assert(q_witness(q0, t)); assert(q_witness(queue@, t)); }
            }"""),
        ('after', 'queue.push(prior)?;', """proof { qv = queue@; }"""),
    ])

LOCATION = FnSpec(FILE, 'location', r'impl LocatedAddress\b', contract="""
        ensures r == head_loc(self),
""")

GET_LOC_FROM = FnSpec(
    FILE, 'get_location_from', r'pub trait Storage\b',
    contract="""
        requires valid(start),
        ensures
            r is Ok,
            // found <=> the storage holds the command and it is `start` or one of its ancestors
            r->Ok_0 is Some <==> (target(address) is Some && anc_eq(target(address)->Some_0, start)),
            r->Ok_0 is Some ==> r->Ok_0 == target(address),
""",
    inserts=[
        ('before', 'return Ok(None);', """proof {
                ax_target(address);
                if target(address) is Some && anc_eq(target(address)->Some_0, start) && target(address)->Some_0 != start {
                    ax_anc(target(address)->Some_0, start);
                }
            }"""),
        ('after', 'queue.push(start)?;', """proof {
            let q = queue@;
            assert(q.contains_key(start.segment) && q[start.segment] == start.max_cut);
            assert forall|s: SegmentIndex| #[trigger] q.contains_key(s) implies s == start.segment by {}
            if target(address) is Some {
                let t = target(address)->Some_0;
                if anc_eq(t, start) { assert(anc_eq(t, Location { max_cut: q[start.segment], segment: start.segment })); }
                if from_seeds(t, q) {
                    let s = choose|s: SegmentIndex| #[trigger] q.contains_key(s) && anc_eq(t, Location { max_cut: q[s], segment: s });
                    assert(s == start.segment);
                }
            }
        }"""),
    ])

GET_LOC = FnSpec(
    FILE, 'get_location', r'pub trait Storage\b', attrs='#[verifier::spinoff_prover]',
    contract="""
        ensures
            r is Ok,
            // C11: found exactly when the command is in the committed graph; the result is its location
            r->Ok_0 is Some <==> (target(address) is Some && in_graph(target(address)->Some_0)),
            r->Ok_0 is Some ==> r->Ok_0 == target(address),
""",
    rewrites=[
        ('for head in self.get_heads()?.iter() {', """let hs = head_vec(self.get_heads()?);
        for hi in 0..hs.len()
            invariant
                hs@.len() == storage_heads().len(),
                forall|i: int| 0 <= i < storage_heads().len() ==> head_loc(#[trigger] hs@[i]) == storage_heads()[i],
                qg_sound(queue@, address.max_cut),
                // every head scanned so far that can reach a location at the target's max cut has a witness queued
                forall|t: Location, j: int| 0 <= j < hi && t.max_cut == address.max_cut && anc_eq(t, #[trigger] storage_heads()[j])
                    ==> #[trigger] q_witness(queue@, t),
        {
            let head = hs[hi];
            let ghost q0 = queue@;
            proof {
                ax_heads(hi as int);
                assert(head_loc(head) == storage_heads()[hi as int]);
                assert(anc_eq(head_loc(head), storage_heads()[hi as int]));
                if head.max_cut >= address.max_cut { lemma_push_g(q0, head_loc(head), address.max_cut); }
                else {
                    assert forall|t: Location| t.max_cut == address.max_cut implies !anc_eq(t, storage_heads()[hi as int]) by {
                        if anc_eq(t, storage_heads()[hi as int]) && t != storage_heads()[hi as int] { ax_anc(t, storage_heads()[hi as int]); }
                    }
                }
            }""", 1, 'R14'),
    ],
    inserts=[
        ('before', 'search_queued(self, address, queue)', """proof {
            ax_target(address);
            if target(address) is Some {
                let t = target(address)->Some_0;
                if in_graph(t) {
                    let i = choose|i: int| 0 <= i < storage_heads().len() && anc_eq(t, #[trigger] storage_heads()[i]);
                    assert(q_witness(queue@, t));
                }
                lemma_seeds_graph(queue@, address.max_cut, t);
            }
        }"""),
    ])

GET_BY_ADDR = FnSpec(
    FILE, 'get_by_address', r'pub trait Segment\b',
    contract="""
        requires self.wf(),
        ensures
            // finds the command iff this segment holds it, and returns the location that holds it
            r is Some <==> (target(address) is Some && target(address)->Some_0.segment == self.idx),
            r is Some ==> r == target(address),
""",
    inserts=[
        ('before', 'let cmd = self.get_command(loc)?;', """proof {
            ax_target_def(address, loc);
            if target(address) is Some {
                let t = target(address)->Some_0;
                ax_target_def(address, t);
                ax_valid_range(t);
            }
            if seg_first(self.idx) <= loc.max_cut <= seg_last(self.idx) { ax_valid_in_range(self.idx, loc.max_cut); }
            ax_valid_range(loc);
        }"""),
    ])


def build():
    return build_unit(PRELUDE, [('impl LocatedAddress', [LOCATION]), ('impl Segment', [GET_BY_ADDR]), (None, [SEARCH]), ('impl Storage', [IS_ANC, GET_LOC, GET_LOC_FROM])])
