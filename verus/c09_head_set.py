"""VX unit for C09/C01.1: HeadSet (crates/aranya-runtime/src/storage/head_set.rs).

Rewrites: R7 `self.heads.binary_search(&head)` -> `binary_search(&self.heads, &head)` (std-documented
semantics on a sorted slice, trusted); `alloc::vec![head]` -> `vec![head]`.
The derived Ord of LocatedAddress is an uninterpreted strict total order (three axioms, trusted;
its concrete definition — lexicographic (id, segment, max_cut) — is checked on the real type by KI).
"""
from lib.vx import FnSpec, build_unit

FILE = 'crates/aranya-runtime/src/storage/head_set.rs'
IMPL = r'impl HeadSet'

PRELUDE = r'''
use vstd::prelude::*;
verus! {
#[derive(Copy, Clone, PartialEq, Eq)]
pub struct LocatedAddress { pub id: [u8; 32], pub segment: u64, pub max_cut: u64 }

/// derive(Ord) on LocatedAddress, abstractly: a strict total order
pub uninterp spec fn la_lt(a: LocatedAddress, b: LocatedAddress) -> bool;
pub broadcast proof fn la_lt_total(a: LocatedAddress, b: LocatedAddress)
    ensures #[trigger] la_lt(a, b) || a == b || la_lt(b, a), !(la_lt(a, b) && la_lt(b, a)), !la_lt(a, a)
{ admit(); }
pub broadcast proof fn la_lt_trans(a: LocatedAddress, b: LocatedAddress, c: LocatedAddress)
    requires #[trigger] la_lt(a, b), #[trigger] la_lt(b, c) ensures la_lt(a, c)
{ admit(); }

/// sorted and duplicate-free
pub open spec fn sorted(s: Seq<LocatedAddress>) -> bool {
    forall|i: int, j: int| 0 <= i < j < s.len() ==> la_lt(s[i], s[j])
}

// R7: std documented semantics of binary_search on a sorted slice.
#[verifier::external_body]
fn binary_search(v: &Vec<LocatedAddress>, x: &LocatedAddress) -> (r: Result<usize, usize>)
    requires sorted(v@),
    ensures
        r is Ok ==> r->Ok_0 < v@.len() && v@[r->Ok_0 as int] == *x && v@.contains(*x),
        r is Err ==> r->Err_0 <= v@.len()
            && (forall|k: int| 0 <= k < r->Err_0 ==> la_lt(v@[k], *x))
            && (forall|k: int| r->Err_0 <= k < v@.len() ==> la_lt(*x, v@[k])),
{ v.binary_search_by(|_p| core::cmp::Ordering::Equal) }

pub struct HeadSet { pub heads: Vec<LocatedAddress> }

impl HeadSet {
    /// representation invariant of the committed head set
    pub open spec fn inv(&self) -> bool { sorted(self.heads@) }
    pub open spec fn has(&self, y: LocatedAddress) -> bool { self.heads@.contains(y) }
}
'''

POSTLUDE = r'''
/// Two sorted duplicate-free sequences with the same elements are the same sequence:
/// the HeadSet value is a function of the SET of heads pushed, not of the push order.
pub proof fn lemma_sorted_same_set_equal(a: Seq<LocatedAddress>, b: Seq<LocatedAddress>)
    requires sorted(a), sorted(b), forall|y: LocatedAddress| a.contains(y) == b.contains(y),
    ensures a == b,
    decreases a.len(),
{
    broadcast use la_lt_total, la_lt_trans;
    if a.len() == 0 {
        if b.len() > 0 { assert(b.contains(b[0])); assert(a.contains(b[0])); }
        assert(a =~= b);
    } else {
        let x = a.last();
        assert(a.contains(x));
        assert(b.contains(x));
        assert(b.len() > 0);
        let y = b.last();
        assert(b.contains(y));
        assert(a.contains(y));
        // x is the maximum of a, y the maximum of b, same sets => x == y
        let kx = choose|k: int| 0 <= k < b.len() && b[k] == x;
        let ky = choose|k: int| 0 <= k < a.len() && a[k] == y;
        if kx < b.len() - 1 { assert(la_lt(b[kx], b[b.len() - 1])); }
        if ky < a.len() - 1 { assert(la_lt(a[ky], a[a.len() - 1])); }
        assert(x == y);
        let a2 = a.drop_last();
        let b2 = b.drop_last();
        assert(sorted(a2));
        assert(sorted(b2));
        assert forall|z: LocatedAddress| a2.contains(z) == b2.contains(z) by {
            if a2.contains(z) {
                let k = choose|k: int| 0 <= k < a2.len() && a2[k] == z;
                assert(a[k] == z); assert(la_lt(a[k], a[a.len() - 1]));
                assert(a.contains(z)); assert(b.contains(z));
                let m = choose|m: int| 0 <= m < b.len() && b[m] == z;
                assert(m != b.len() - 1);
                assert(b2[m] == z);
            }
            if b2.contains(z) {
                let k = choose|k: int| 0 <= k < b2.len() && b2[k] == z;
                assert(b[k] == z); assert(la_lt(b[k], b[b.len() - 1]));
                assert(b.contains(z)); assert(a.contains(z));
                let m = choose|m: int| 0 <= m < a.len() && a[m] == z;
                assert(m != a.len() - 1);
                assert(a2[m] == z);
            }
        }
        lemma_sorted_same_set_equal(a2, b2);
        assert(a =~= a2.push(x));
        assert(b =~= b2.push(y));
    }
}
'''

PUSH = FnSpec(FILE, 'push', IMPL, ret=None, contract='''
        requires old(self).inv(),
        ensures final(self).inv(),
            final(self).has(head),
            forall|y: LocatedAddress| y != head ==> final(self).has(y) == old(self).has(y),
            final(self).heads@.len() == old(self).heads@.len() + if old(self).has(head) { 0int } else { 1int },
''', rewrites=[('self.heads.binary_search(&head)', 'binary_search(&self.heads, &head)', 1, 'R7')],
    inserts=[
        ('before', 'if let Err(idx)', 'proof { broadcast use la_lt_total, la_lt_trans; }'),
        ('after', 'self.heads.insert(idx, head);', '''proof {
                broadcast use la_lt_total, la_lt_trans;
                let o = old(self).heads@;
                let f = final(self).heads@;
                assert(f == o.insert(idx as int, head));
                assert(f[idx as int] == head);
                assert(!o.contains(head)) by {
                    if o.contains(head) {
                        let k = choose|k: int| 0 <= k < o.len() && o[k] == head;
                        if k < idx { assert(la_lt(o[k], head)); } else { assert(la_lt(head, o[k])); }
                    }
                }
                assert forall|y: LocatedAddress| y != head implies f.contains(y) == o.contains(y) by {
                    if o.contains(y) {
                        let k = choose|k: int| 0 <= k < o.len() && o[k] == y;
                        if k < idx { assert(f[k] == y); } else { assert(f[k + 1] == y); }
                    }
                    if f.contains(y) {
                        let k = choose|k: int| 0 <= k < f.len() && f[k] == y;
                        if k < idx { assert(o[k] == y); } else { assert(k != idx as int); assert(o[k - 1] == y); }
                    }
                }
                assert forall|i: int, j: int| 0 <= i < j < f.len() implies la_lt(f[i], f[j]) by {
                    if j < idx { } else if i > idx { assert(la_lt(o[i-1], o[j-1])); }
                    else if i == idx { assert(la_lt(head, o[j-1])); }
                    else if j == idx { assert(la_lt(o[i], head)); }
                    else { assert(la_lt(o[i], o[j-1])); }
                }
            }'''),
    ])

SINGLE = FnSpec(FILE, 'single', IMPL, contract='''
        ensures r.inv(), r.heads@.len() == 1, r.has(head), forall|y: LocatedAddress| r.has(y) ==> y == head,
''', rewrites=[('alloc::vec![head]', 'vec![head]', 1, 'path of the vec! macro')],
    inserts=[])

LEN = FnSpec(FILE, 'len', IMPL, contract='\n        ensures r == self.heads@.len(),\n')

IS_EMPTY = FnSpec(FILE, 'is_empty', IMPL, contract='\n        ensures r == (self.heads@.len() == 0),\n',
                  rewrites=[('self.heads.is_empty()', 'self.heads.len() == 0', 1, 'Vec::is_empty -> len()==0 (no vstd spec)')])
# the slice storage writes out as the committed heads: exactly the sorted sequence, nothing dropped or reordered
AS_SLICE = FnSpec(FILE, 'as_slice', IMPL, contract='\n        ensures r@ == self.heads@,\n')


def build():
    return build_unit(PRELUDE, [(IMPL, [SINGLE, LEN, IS_EMPTY, AS_SLICE, PUSH])], POSTLUDE)
