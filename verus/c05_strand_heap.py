"""VX unit for C05: strand_heap::StrandHeap (crates/aranya-runtime/src/client/braiding.rs).

`alloc::collections::BinaryHeap` is an external type with an uninterpreted multiset view and trusted
specs for new/push/pop/len/clear (R7). Rewrites: `alloc::collections::BinaryHeap::new()` -> `BinaryHeap::new()`;
R5: `debug_assert!(..)` statements deleted (NOT re-asserted: "a popped Finalize leaves the heap empty" is a
graph-level fact about braid, not a heap invariant). CmdId/Location are u64 shims (R6)."""
from lib.vx import FnSpec, build_unit

FILE = 'crates/aranya-runtime/src/client/braiding.rs'
MOD = r'pub\(crate\) mod strand_heap'
IMPL = r'impl<S> StrandHeap<S>'

PRELUDE = r'''
#![feature(allocator_api)]
use vstd::prelude::*;
use vstd::multiset::Multiset;
use std::collections::BinaryHeap;

verus! {
pub type CmdId = u64;
pub type Location = u64;
#[derive(Clone, Copy, PartialEq, Eq)]
pub enum Priority { Merge, Basic(u32), Finalize, Init }
pub enum ClientError { ParallelFinalize }

pub struct Strand<S> { pub key: (Priority, CmdId), pub next: Location, pub segment: S }

// Ord of Strand: reversed (priority, id) — executable definition is the repository's; abstract here.
#[verifier::external]
impl<S> PartialEq for Strand<S> { fn eq(&self, o: &Self) -> bool { self.key.1 == o.key.1 } }
#[verifier::external]
impl<S> Eq for Strand<S> {}
#[verifier::external]
impl<S> PartialOrd for Strand<S> { fn partial_cmp(&self, o: &Self) -> Option<core::cmp::Ordering> { Some(self.cmp(o)) } }
#[verifier::external]
impl<S> Ord for Strand<S> { fn cmp(&self, o: &Self) -> core::cmp::Ordering { o.key.1.cmp(&self.key.1) } }

#[verifier::external_type_specification]
#[verifier::external_body]
#[verifier::reject_recursive_types(T)]
#[verifier::reject_recursive_types(A)]
pub struct ExBinaryHeap<T, A: core::alloc::Allocator>(BinaryHeap<T, A>);

/// abstract view of a BinaryHeap: the multiset of its elements
pub uninterp spec fn hvg<T, A: core::alloc::Allocator>(h: &BinaryHeap<T, A>) -> Multiset<T>;

pub assume_specification<T> [BinaryHeap::<T>::new] () -> (h: BinaryHeap<T>)
    ensures hvg(&h) == Multiset::<T>::empty();
pub assume_specification<T: Ord, A: core::alloc::Allocator> [BinaryHeap::<T, A>::push] (h: &mut BinaryHeap<T, A>, x: T)
    ensures hvg(final(h)) == hvg(old(h)).insert(x);
pub assume_specification<T: Ord, A: core::alloc::Allocator> [BinaryHeap::<T, A>::pop] (h: &mut BinaryHeap<T, A>) -> (r: Option<T>)
    ensures
        r is None ==> hvg(old(h)).len() == 0 && hvg(final(h)) == hvg(old(h)),
        r is Some ==> hvg(old(h)).count(r->Some_0) > 0 && hvg(final(h)) == hvg(old(h)).remove(r->Some_0);
pub assume_specification<T, A: core::alloc::Allocator> [BinaryHeap::<T, A>::len] (h: &BinaryHeap<T, A>) -> (n: usize)
    ensures n == hvg(h).len();
pub assume_specification<T, A: core::alloc::Allocator> [BinaryHeap::<T, A>::clear] (h: &mut BinaryHeap<T, A>)
    ensures hvg(final(h)) == Multiset::<T>::empty();

pub open spec fn is_fin<S>(s: Strand<S>) -> bool { s.key.0 == Priority::Finalize }
pub open spec fn has_fin<S>(m: Multiset<Strand<S>>) -> bool { exists|s: Strand<S>| m.count(s) > 0 && is_fin(s) }

#[verifier::reject_recursive_types(S)]
pub struct StrandHeap<S> { pub heap: BinaryHeap<Strand<S>>, pub has_finalize: bool }

impl<S> StrandHeap<S> {
    pub open spec fn view(&self) -> Multiset<Strand<S>> { hvg(&self.heap) }
    /// the flag tracks presence of a finalize strand, and there is at most one
    pub open spec fn inv(&self) -> bool {
        &&& self.has_finalize == has_fin(self@)
        &&& forall|a: Strand<S>, b: Strand<S>| self@.count(a) > 0 && self@.count(b) > 0 && is_fin(a) && is_fin(b) ==> a == b && self@.count(a) == 1
    }
}

proof fn lemma_len1<T>(m: Multiset<T>, x: T)
    requires m.len() == 1, m.count(x) > 0,
    ensures m.remove(x) =~= Multiset::<T>::empty(),
{
    let r = m.remove(x);
    assert(r.len() == 0);
    broadcast use vstd::multiset::group_multiset_properties;
    vstd::multiset::lemma_multiset_empty_len(r);
}
'''

NEW = FnSpec(FILE, 'new', IMPL, mod=MOD,
             sig_rewrites=[('pub const fn new()', 'pub fn new()', 1, 'const dropped')],
             rewrites=[('alloc::collections::BinaryHeap::new()', 'BinaryHeap::new()', 1, 'path')],
             contract='\n            ensures r.inv(), r@ == Multiset::<Strand<S>>::empty(), !r.has_finalize,\n',
             inserts=[])

CLEAR = FnSpec(FILE, 'clear', IMPL, mod=MOD, ret=None, contract='''
            ensures final(self).inv(), final(self)@ == Multiset::<Strand<S>>::empty(), !final(self).has_finalize,
''')

# the reuse entry braid() calls on its BraidBuffer: whatever an earlier (possibly aborted) braid left behind,
# the heap handed out is empty and its finalize flag is down (so a stale flag cannot refuse a lone finalize,
# and a stale strand cannot enter the new braid). No precondition: must hold even from a state without inv().
GET = FnSpec(FILE, 'get', IMPL, mod=MOD, contract='''
            ensures r.inv(), r@ == Multiset::<Strand<S>>::empty(), !r.has_finalize,
                *final(r) == *final(self),
''')

PUSH = FnSpec(FILE, 'push', IMPL, mod=MOD, contract='''
            requires old(self).inv(),
            ensures final(self).inv(),
                // a second finalize is refused and the heap is left as it was
                r is Err <==> is_fin(strand) && old(self).has_finalize,
                r is Err ==> final(self)@ == old(self)@ && final(self).has_finalize == old(self).has_finalize,
                r is Ok ==> final(self)@ == old(self)@.insert(strand),
''', inserts=[('after', 'self.heap.push(strand);', '''proof {
                let m0 = old(self)@;
                let m1 = final(self)@;
                assert(m1 == m0.insert(strand));
                if is_fin(strand) {
                    assert(m1.count(strand) > 0);
                    assert(!has_fin(m0));
                    assert forall|a: Strand<S>, b: Strand<S>| m1.count(a) > 0 && m1.count(b) > 0 && is_fin(a) && is_fin(b) implies a == b && m1.count(a) == 1 by {
                        if a != strand { assert(m0.count(a) > 0); }
                        if b != strand { assert(m0.count(b) > 0); }
                        assert(m0.count(strand) == 0) by { if m0.count(strand) > 0 { assert(has_fin(m0)); } }
                    }
                } else {
                    if has_fin(m0) { let w = choose|s: Strand<S>| m0.count(s) > 0 && is_fin(s); assert(m1.count(w) > 0); }
                    if has_fin(m1) { let w = choose|s: Strand<S>| m1.count(s) > 0 && is_fin(s); assert(w != strand); assert(m0.count(w) > 0); }
                    assert forall|a: Strand<S>, b: Strand<S>| m1.count(a) > 0 && m1.count(b) > 0 && is_fin(a) && is_fin(b) implies a == b && m1.count(a) == 1 by {
                        assert(a != strand && b != strand);
                        assert(m0.count(a) > 0 && m0.count(b) > 0);
                    }
                }
            }''')])

POP = FnSpec(FILE, 'pop', IMPL, mod=MOD, contract='''
            requires old(self).inv(),
            ensures final(self).inv(),
                r is None <==> old(self)@.len() == 0,
                r is None ==> final(self)@ == old(self)@,
                r is Some ==> final(self)@ == old(self)@.remove(r->Some_0) && old(self)@.count(r->Some_0) > 0,
''', rewrites=[('debug_assert!(self.heap.is_empty());', '', 1, 'R5'), ('debug_assert!(self.has_finalize);', '', 1, 'R5')],
    inserts=[('before', 'Some(strand)\n        }', '''proof {
                let m0 = old(self)@;
                let m1 = final(self)@;
                assert(m1 == m0.remove(strand));
                if is_fin(strand) {
                    assert(!has_fin(m1)) by {
                        if has_fin(m1) { let w = choose|s: Strand<S>| m1.count(s) > 0 && is_fin(s); assert(m0.count(w) > 0); assert(w == strand); assert(m0.count(strand) == 1); }
                    }
                } else {
                    if has_fin(m0) { let w = choose|s: Strand<S>| m0.count(s) > 0 && is_fin(s); assert(w != strand); assert(m1.count(w) > 0); }
                    if has_fin(m1) { let w = choose|s: Strand<S>| m1.count(s) > 0 && is_fin(s); assert(m0.count(w) > 0); }
                }
                assert forall|a: Strand<S>, b: Strand<S>| m1.count(a) > 0 && m1.count(b) > 0 && is_fin(a) && is_fin(b) implies a == b && m1.count(a) == 1 by {
                    assert(m0.count(a) > 0 && m0.count(b) > 0);
                }
            }''')])

LONE = FnSpec(FILE, 'lone', IMPL, mod=MOD, contract='''
            requires old(self).inv(),
            ensures final(self).inv(),
                // Some exactly when one strand remains; then the heap is left empty
                r is Some <==> old(self)@.len() == 1,
                r is Some ==> old(self)@.count(r->Some_0) > 0 && final(self)@ == Multiset::<Strand<S>>::empty() && !final(self).has_finalize,
                r is None ==> final(self)@ == old(self)@ && final(self).has_finalize == old(self).has_finalize,
''', rewrites=[('debug_assert!(item.is_some());', '''proof {
                let m0 = old(self)@;
                assert(item is Some);
                lemma_len1(m0, item->Some_0);
                assert(!has_fin(final(self)@)) by {
                    if has_fin(final(self)@) { let w = choose|s: Strand<S>| final(self)@.count(s) > 0 && is_fin(s); }
                }
            }''', 1, 'R5 (debug_assert!(item.is_some()) is re-asserted in the proof block)')])


def build():
    return build_unit(PRELUDE, [(IMPL, [NEW, CLEAR, GET, PUSH, POP, LONE])])
