"""VX unit for C31: `main` of the policy-compiler CLI, extracted verbatim.

Call-site rewrites (each must match exactly once / the stated count):
  S1 `Args::parse()`                                   -> `args_parse()`
  S2 `args.out.unwrap_or_else(|| ...with_extension)`   -> `out_path_of(&args)`
  S3 `println!(..)` statements                          -> deleted (stdout only)
  S4 `std::fs::read_to_string(..).expect(..)`           -> `read_input(&args)`
  S5 `Compiler::new(&ast).stub_ffi(args.stub_ffi)`      -> `compiler_new(&ast, args.stub_ffi)`
  S6 `compiler.compile()`                               -> `compile(compiler)`
  S7 `File::create(..).expect(..); ciborium::into_writer(..).expect(..);` -> `write_module(out_path, &module, Ghost(args.no_validate));`
Every `match`, `if`, `!`, `&&`, `return` and the order of the steps is the repository's text.
External functions are `external_body` with uninterpreted results; `validate` returns
`validation_failed(m)` (true = a trace failed: the library's own documented meaning, see
crates/aranya-policy-compiler/src/validate.rs and its tests); `write_module` carries the
ghost precondition that IS the property.
"""
from lib.vx import FnSpec, build_unit

FILE = 'crates/aranya-policy-compiler/src/bin/policy-compiler/main.rs'

PRELUDE = r'''
use vstd::prelude::*;
verus! {
pub struct Args { pub verbose: bool, pub no_validate: bool, pub stub_ffi: bool }
#[verifier::external_body] pub struct OutPath { _p: () }
#[verifier::external_body] pub struct PolicyStr { _p: () }
#[verifier::external_body] pub struct Policy { _p: () }
#[verifier::external_body] pub struct ParseError { _p: () }
#[verifier::external_body] pub struct CompileError { _p: () }
#[verifier::external_body] pub struct Module { _p: () }
#[verifier::external_body] pub struct Compiler { _p: () }
#[allow(non_camel_case_types)]
#[derive(PartialEq, Eq)] pub enum ExitCode { SUCCESS, FAILURE }

// uninterpreted outcomes of the external steps
pub uninterp spec fn the_args() -> Args;
pub uninterp spec fn input_of(a: &Args) -> PolicyStr;
pub uninterp spec fn parse_ok(s: &PolicyStr) -> bool;
pub uninterp spec fn parsed(s: &PolicyStr) -> Policy;
pub uninterp spec fn mk_compiler(p: &Policy, stub_ffi: bool) -> Compiler;
pub uninterp spec fn compile_ok(c: Compiler) -> bool;
pub uninterp spec fn compiled(c: Compiler) -> Module;
/// true = some validation trace failed (library meaning of `validate`'s result)
pub uninterp spec fn validation_failed(m: &Module) -> bool;

#[verifier::external_body] fn args_parse() -> (r: Args) ensures r == the_args() { unimplemented!() }
#[verifier::external_body] fn out_path_of(a: &Args) -> OutPath { unimplemented!() }
#[verifier::external_body] fn read_input(a: &Args) -> (r: PolicyStr) ensures r == input_of(a) { unimplemented!() }
#[verifier::external_body] fn parse_policy_document(s: &PolicyStr) -> (r: Result<Policy, ParseError>)
    ensures r is Ok == parse_ok(s), r is Ok ==> r->Ok_0 == parsed(s) { unimplemented!() }
#[verifier::external_body] fn compiler_new(ast: &Policy, stub_ffi: bool) -> (r: Compiler) ensures r == mk_compiler(ast, stub_ffi) { unimplemented!() }
#[verifier::external_body] fn compile(c: Compiler) -> (r: Result<Module, CompileError>)
    ensures r is Ok == compile_ok(c), r is Ok ==> r->Ok_0 == compiled(c) { unimplemented!() }
#[verifier::external_body] fn validate(m: &Module) -> (r: bool) ensures r == validation_failed(m) { unimplemented!() }
/// Writing the module is allowed only for a module that passed validation (or with validation disabled).
#[verifier::external_body] fn write_module(p: OutPath, m: &Module, Ghost(no_validate): Ghost<bool>)
    requires no_validate || !validation_failed(m)
{ unimplemented!() }
'''

MAIN = FnSpec(
    FILE, 'main',
    sig_rewrites=[('pub fn main()', 'pub fn cli_main()', 1, 'renamed (the Verus file has its own empty main)')],
    contract='''
    ensures ({
        let a = the_args();
        let s = input_of(&a);
        let c = mk_compiler(&parsed(&s), a.stub_ffi);
        let m = compiled(c);
        // exits successfully only if the policy parses, compiles and (unless disabled) passes validation
        &&& (r == ExitCode::SUCCESS ==> parse_ok(&s) && compile_ok(c) && (a.no_validate || !validation_failed(&m)))
        // a policy that fails validation makes it exit with failure
        &&& (parse_ok(&s) && compile_ok(c) && !a.no_validate && validation_failed(&m) ==> r == ExitCode::FAILURE)
    }),
''',
    rewrites=[
        ('Args::parse()', 'args_parse()', 1, 'S1'),
        ('args.out.unwrap_or_else(|| args.file.with_extension("pmod"))', 'out_path_of(&args)', 1, 'S2'),
        ('''println!(
            "Compiling {} to {}",
            args.file.display(),
            out_path.display()
        );''', '', 1, 'S3'),
        ('println!("{e}");', '', 2, 'S3'),
        ('println!("Not creating output file with --stub-ffi");', '', 1, 'S3'),
        ('std::fs::read_to_string(&args.file).expect("could not read input file")', 'read_input(&args)', 1, 'S4'),
        ('Compiler::new(&ast).stub_ffi(args.stub_ffi)', 'compiler_new(&ast, args.stub_ffi)', 1, 'S5'),
        ('compiler.compile()', 'compile(compiler)', 1, 'S6'),
        ('''let mut out_f = File::create(out_path).expect("could not open output file");

    ciborium::into_writer(&module, &mut out_f).expect("could not write output file");''',
         'write_module(out_path, &module, Ghost(args.no_validate));', 1, 'S7'),
    ])


def build():
    return build_unit(PRELUDE, [(None, [MAIN])])
