"""C14 — prefix queries of an ephemeral session: the merge iterator `QueryIterator::next`
(crates/aranya-runtime/src/client/session.rs), extracted.

The iterator merges the committed facts under the prefix (`prior`, ascending by key) with the session's
own writes under the prefix (`current`, ascending by key, tombstones included).  Reference:
merged(p, c) = the ascending merge in which an entry of `current` replaces the entry of `prior` with
the same key and a tombstone produces nothing.  Proved for sequences of any length: each call returns
the first fact of merged(rest of prior, rest of current) and leaves iterators whose merge is the rest —
so the whole iteration yields exactly the facts of "committed facts followed by the session's inserts
and deletes", in key order, deleted facts never included; `next` terminates; the Bug exit is unreachable.
(When the committed side yields an I/O error the error is returned; nothing else is claimed then.)

Shims (R6): Peekable<I1> / Peekable<I2> are abstract peekable streams over ghost sequences; Keys / Bytes
are opaque ordered values.  Rewrites:
  R15 `bug!(..)` -> `return Some(Err(StorageError::Bug))`
  R16 `key: k.iter().cloned().collect()` -> `key: k` (Keys -> Box<[Box<[u8]>]> conversion)
"""
from lib.vx import FnSpec, build_unit

FILE = 'crates/aranya-runtime/src/client/session.rs'

PRELUDE = r'''
use vstd::prelude::*;
use core::cmp::Ordering;
verus! {
pub type Keys = u64;
pub type Bytes = u64;
pub enum StorageError { Bug, Other }
#[derive(Copy, Clone)]
pub struct Fact { pub key: Keys, pub value: Bytes }
pub type PItem = Result<Fact, StorageError>;
pub type CItem = (Keys, Option<Bytes>);

/// Peekable over the committed facts under the prefix
pub struct PeekP { pub rest: Ghost<Seq<PItem>> }
impl PeekP {
    #[verifier::external_body]
    pub fn peek(&mut self) -> (r: Option<&PItem>)
        ensures final(self).rest@ == old(self).rest@,
            old(self).rest@.len() == 0 ==> r is None,
            old(self).rest@.len() > 0 ==> r is Some && *r->Some_0 == old(self).rest@[0],
    { unimplemented!() }
    #[verifier::external_body]
    pub fn next(&mut self) -> (r: Option<PItem>)
        ensures
            old(self).rest@.len() == 0 ==> r is None && final(self).rest@ == old(self).rest@,
            old(self).rest@.len() > 0 ==> r == Some(old(self).rest@[0]) && final(self).rest@ == old(self).rest@.skip(1),
    { unimplemented!() }
}
/// Peekable over the session's writes under the prefix
pub struct PeekC { pub rest: Ghost<Seq<CItem>> }
impl PeekC {
    #[verifier::external_body]
    pub fn peek(&mut self) -> (r: Option<&CItem>)
        ensures final(self).rest@ == old(self).rest@,
            old(self).rest@.len() == 0 ==> r is None,
            old(self).rest@.len() > 0 ==> r is Some && *r->Some_0 == old(self).rest@[0],
    { unimplemented!() }
    #[verifier::external_body]
    pub fn next(&mut self) -> (r: Option<CItem>)
        ensures
            old(self).rest@.len() == 0 ==> r is None && final(self).rest@ == old(self).rest@,
            old(self).rest@.len() > 0 ==> r == Some(old(self).rest@[0]) && final(self).rest@ == old(self).rest@.skip(1),
    { unimplemented!() }
}
pub struct QueryIterator { pub prior: PeekP, pub current: PeekC }

pub open spec fn all_ok(p: Seq<PItem>) -> bool { forall|i: int| 0 <= i < p.len() ==> (#[trigger] p[i]) is Ok }
pub open spec fn sorted_p(p: Seq<PItem>) -> bool { forall|i: int, j: int| 0 <= i < j < p.len() ==> (#[trigger] p[i])->Ok_0.key < (#[trigger] p[j])->Ok_0.key }
pub open spec fn sorted_c(c: Seq<CItem>) -> bool { forall|i: int, j: int| 0 <= i < j < c.len() ==> (#[trigger] c[i]).0 < (#[trigger] c[j]).0 }
/// the reference: ascending merge, session entries replace committed ones, tombstones vanish
pub open spec fn merged(p: Seq<PItem>, c: Seq<CItem>) -> Seq<Fact> decreases p.len() + c.len() {
    if c.len() == 0 { p.map_values(|x: PItem| x->Ok_0) }
    else if p.len() > 0 && p[0]->Ok_0.key < c[0].0 { seq![p[0]->Ok_0] + merged(p.skip(1), c) }
    else if p.len() > 0 && p[0]->Ok_0.key == c[0].0 { merged(p.skip(1), c) }
    else if c[0].1 is Some { seq![Fact { key: c[0].0, value: c[0].1->Some_0 }] + merged(p, c.skip(1)) }
    else { merged(p, c.skip(1)) }
}
proof fn lemma_skip_props(p: Seq<PItem>, c: Seq<CItem>)
    requires all_ok(p), sorted_p(p), sorted_c(c)
    ensures p.len() > 0 ==> all_ok(p.skip(1)) && sorted_p(p.skip(1)), c.len() > 0 ==> sorted_c(c.skip(1)),
{
    if p.len() > 0 {
        assert forall|i: int| 0 <= i < p.skip(1).len() implies (#[trigger] p.skip(1)[i]) is Ok by { assert(p.skip(1)[i] == p[i + 1]); }
        assert forall|i: int, j: int| 0 <= i < j < p.skip(1).len() implies (#[trigger] p.skip(1)[i])->Ok_0.key < (#[trigger] p.skip(1)[j])->Ok_0.key by {
            assert(p.skip(1)[i] == p[i + 1] && p.skip(1)[j] == p[j + 1]);
        }
    }
    if c.len() > 0 {
        assert forall|i: int, j: int| 0 <= i < j < c.skip(1).len() implies (#[trigger] c.skip(1)[i]).0 < (#[trigger] c.skip(1)[j]).0 by {
            assert(c.skip(1)[i] == c[i + 1] && c.skip(1)[j] == c[j + 1]);
        }
    }
}

/// one unfolding of `merged`, in the shapes the iterator needs
proof fn lemma_merged_cases(p: Seq<PItem>, c: Seq<CItem>)
    requires all_ok(p), sorted_p(p), sorted_c(c)
    ensures
        c.len() == 0 && p.len() == 0 ==> merged(p, c).len() == 0,
        c.len() == 0 && p.len() > 0 ==> merged(p, c).len() > 0 && merged(p, c)[0] == p[0]->Ok_0 && merged(p.skip(1), c) == merged(p, c).skip(1),
        c.len() > 0 && p.len() > 0 && p[0]->Ok_0.key < c[0].0 ==> merged(p, c).len() > 0 && merged(p, c)[0] == p[0]->Ok_0 && merged(p.skip(1), c) == merged(p, c).skip(1),
        c.len() > 0 && p.len() > 0 && p[0]->Ok_0.key == c[0].0 ==> merged(p, c) == merged(p.skip(1), c)
            && (p.skip(1).len() == 0 || p.skip(1)[0]->Ok_0.key > c[0].0),
        c.len() > 0 && (p.len() == 0 || p[0]->Ok_0.key > c[0].0) && c[0].1 is None ==> merged(p, c) == merged(p, c.skip(1)),
        c.len() > 0 && (p.len() == 0 || p[0]->Ok_0.key > c[0].0) && c[0].1 is Some ==> merged(p, c).len() > 0
            && merged(p, c)[0] == (Fact { key: c[0].0, value: c[0].1->Some_0 }) && merged(p, c.skip(1)) == merged(p, c).skip(1),
{
    if c.len() == 0 {
        let m = p.map_values(|x: PItem| x->Ok_0);
        if p.len() > 0 {
            assert(merged(p.skip(1), c) =~= m.skip(1));
        }
    } else if p.len() > 0 && p[0]->Ok_0.key < c[0].0 {
        assert((seq![p[0]->Ok_0] + merged(p.skip(1), c)).skip(1) =~= merged(p.skip(1), c));
    } else if p.len() > 0 && p[0]->Ok_0.key == c[0].0 {
        if p.skip(1).len() > 0 { assert(p.skip(1)[0] == p[1]); }
    } else if c[0].1 is Some {
        assert((seq![Fact { key: c[0].0, value: c[0].1->Some_0 }] + merged(p, c.skip(1))).skip(1) =~= merged(p, c.skip(1)));
    }
}
'''

NEXT = FnSpec(
    FILE, 'next', r'impl<I1, I2> Iterator for QueryIterator<I1, I2>', attrs='#[verifier::spinoff_prover]',
    sig_rewrites=[('Option<Self::Item>', 'Option<Result<Fact, StorageError>>', 1, 'R6 (associated type of the Iterator impl)')],
    contract="""
        requires all_ok(old(self).prior.rest@), sorted_p(old(self).prior.rest@), sorted_c(old(self).current.rest@),
        ensures
            all_ok(final(self).prior.rest@), sorted_p(final(self).prior.rest@), sorted_c(final(self).current.rest@),
            ({
                let m0 = merged(old(self).prior.rest@, old(self).current.rest@);
                let m1 = merged(final(self).prior.rest@, final(self).current.rest@);
                match r {
                    None => m0.len() == 0,
                    Some(Ok(f)) => m0.len() > 0 && f == m0[0] && m1 == m0.skip(1),
                    Some(Err(_)) => false,
                }
            }),
""",
    rewrites=[
        ('bug!("expected Some after peek")', 'return Some(Err(StorageError::Bug))', 1, 'R15'),
        ('key: k.iter().cloned().collect(),', 'key: k,', 1, 'R16'),
        ('loop {', """loop
            invariant
                all_ok(self.prior.rest@), sorted_p(self.prior.rest@), sorted_c(self.current.rest@),
                merged(self.prior.rest@, self.current.rest@) == merged(old(self).prior.rest@, old(self).current.rest@),
            decreases self.prior.rest@.len() + self.current.rest@.len(),
        {""", 1, 'loop invariant (ghost) placed on the loop header'),
    ],
    inserts=[
        ('before', 'let Some(new) = self.current.peek() else {', """let ghost p0 = self.prior.rest@;
            let ghost c0 = self.current.rest@;
            proof {
                lemma_skip_props(p0, c0);
                lemma_merged_cases(p0, c0);
                if p0.len() > 0 { lemma_skip_props(p0.skip(1), c0); lemma_merged_cases(p0.skip(1), c0); }
            }"""),
    ])


def build():
    return build_unit(PRELUDE, [('impl QueryIterator', [NEXT])])
