"""C46 — the text path of ids: `Id::decode` and `FromStr::from_str` (crates/aranya-id/src/id.rs), extracted.

The base58 codec itself lives in the external crate spideroak-base58 (String32::decode / to_base58); its
inverse law is an assumed dependency contract.  What is proved here is that the id layer adds nothing
to it: `Id::decode(s)` succeeds exactly when String32::decode accepts the WHOLE input `s`, and then
holds exactly the 32 bytes it returned; `from_str` is `decode`.  (So "parsing other text either fails
cleanly or yields the id it encodes" reduces to the codec's own contract.)

Rewrites: R31 `.map_err(ParseIdError)` -> `.map_parse_err()` (verified helper; a constructor used as a function value is outside the subset).
"""
from lib.vx import FnSpec, build_unit

FILE = 'crates/aranya-id/src/id.rs'

PRELUDE = r'''
use vstd::prelude::*;
verus! {
pub enum DecodeError { BadInput, Bug }
pub struct ParseIdError(pub DecodeError);
/// the text handed to the codec
pub uninterp spec fn text_of<T>(s: T) -> Seq<u8>;
/// spideroak_base58::String32::decode on a whole text (assumed dependency contract)
pub uninterp spec fn b58_dec(t: Seq<u8>) -> Option<[u8; 32]>;
pub mod spideroak_base58 {
    use super::*;
    pub struct String32 { pub _p: () }
    impl String32 {
        pub const B58_SIZE: usize = 44;
        #[verifier::external_body]
        pub fn decode<T: AsRef<[u8]>>(s: T) -> (r: Result<[u8; 32], DecodeError>)
            ensures r is Ok <==> b58_dec(text_of(s)) is Some, r is Ok ==> r->Ok_0 == b58_dec(text_of(s))->Some_0
        { unimplemented!() }
    }
}
pub trait MapParseErr<T>: Sized { fn map_parse_err(self) -> Result<T, ParseIdError>; }
impl<T> MapParseErr<T> for Result<T, DecodeError> {
    fn map_parse_err(self) -> (r: Result<T, ParseIdError>)
        ensures self is Ok ==> r is Ok && r->Ok_0 == self->Ok_0, self is Err ==> r is Err && r->Err_0.0 == self->Err_0,
    { match self { Ok(v) => Ok(v), Err(e) => Err(ParseIdError(e)) } }
}
pub struct Id { pub bytes: [u8; 32] }
impl Id {
    pub const fn from_bytes(bytes: [u8; 32]) -> (r: Self) ensures r.bytes == bytes { Id { bytes } }
}
'''

DECODE = FnSpec(FILE, 'decode', r'impl<Tag: IdTag> Id<Tag>', contract="""
        ensures r is Ok <==> b58_dec(text_of(s)) is Some, r is Ok ==> r->Ok_0.bytes == b58_dec(text_of(s))->Some_0,
""", rewrites=[
    ('.map_err(ParseIdError)', '.map_parse_err()', 1, 'R31'),
])

FROM_STR = FnSpec(FILE, 'from_str', r'impl<Tag: IdTag> FromStr for Id<Tag>',
    sig_rewrites=[('Result<Self, Self::Err>', 'Result<Self, ParseIdError>', 1, 'R6 (associated type)')],
    contract="""
        ensures r is Ok <==> b58_dec(text_of(s)) is Some, r is Ok ==> r->Ok_0.bytes == b58_dec(text_of(s))->Some_0,
""")


def build():
    return build_unit(PRELUDE, [('impl Id', [DECODE, FROM_STR])])
