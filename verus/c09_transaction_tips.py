"""C09 / C06 / C08 — the tip bookkeeping of a Transaction (crates/aranya-runtime/src/client/transaction.rs):
`flush`, `get_perspective`, `add_single`, extracted, over vstd's BTreeMap model.

tips(trx) = keys(trx.heads) + the in-flight tip `phead`.  Proved for transactions of any size:
  * flush writes the in-flight perspective and keeps the tip set; afterwards nothing is in flight;
  * get_perspective(parent) leaves `parent` as the in-flight tip: tips' = tips + {parent}
    (re-using the current perspective when parent is its head, else writing it out first);
  * add_single(command, parent): accepted => tips' = (tips - {parent}) + {command} — the frontier
    step; rejected by the policy => tips' = tips and the transaction stays committable: it never
    keeps an EMPTY perspective (which storage.write refuses) — C06 "commands accepted earlier in the
    same transaction still commit";
  * the invariant `wf`: a perspective is in flight iff phead is set, and then it is non-empty with
    phead = its last command.

Shims (R6): SP::Storage / Perspective / Segment / Policy / Sink / Command are abstract with the contracts
in the prelude (storage.write refuses an empty perspective and returns a segment headed by the
perspective's last command; call_rule does not add commands; locate = C11 unit).  `impl Sink<..>` /
`impl Command` parameters become concrete shim types.  No rewrites of the bodies.
"""
from lib.vx import FnSpec, build_unit

FILE = 'crates/aranya-runtime/src/client/transaction.rs'

PRELUDE = r'''
use vstd::prelude::*;
use std::collections::BTreeMap;
verus! {
pub type CmdId = u64;
#[derive(Copy, Clone)]
pub struct Address { pub id: CmdId, pub max_cut: u64 }
#[derive(Copy, Clone)]
pub struct Location { pub max_cut: u64, pub segment: u64 }
#[derive(Copy, Clone)]
pub struct PolicyId { pub id: u64 }
pub enum StorageError { EmptyPerspective, Bug, Other }
pub enum PolicyError { Rejected, Other }
pub enum ClientError { NoSuchParent(CmdId), Storage, Policy, PolicyStore, Bug, ConcurrentTransaction }
pub trait BugExt<T>: Sized {
    spec fn as_opt(&self) -> Option<T>;
    fn assume(self, msg: &'static str) -> (r: Result<T, ClientError>)
        ensures (r is Ok) == (self.as_opt() is Some), r is Ok ==> r->Ok_0 == self.as_opt()->Some_0;
}
impl<T> BugExt<T> for Option<T> {
    open spec fn as_opt(&self) -> Option<T> { *self }
    fn assume(self, msg: &'static str) -> (r: Result<T, ClientError>)
    { match self { Some(v) => Ok(v), None => Err(ClientError::Bug) } }
}
pub struct Checkpoint { pub index: usize }
pub enum CommandPlacement { OnGraphAtOrigin, Other }
pub struct Command { pub cid: CmdId }
impl Command { pub fn id(&self) -> (r: CmdId) ensures r == self.cid { self.cid } }
pub struct Sink { pub _p: () }
impl Sink {
    #[verifier::external_body] pub fn begin(&mut self) { unimplemented!() }
    #[verifier::external_body] pub fn rollback(&mut self) { unimplemented!() }
    #[verifier::external_body] pub fn commit(&mut self) { unimplemented!() }
}
/// an in-memory perspective: the ids of the commands added to it so far
pub struct Perspective { pub cmds: Ghost<Seq<CmdId>> }
impl Perspective {
    #[verifier::external_body] pub fn policy(&self) -> PolicyId { unimplemented!() }
    #[verifier::external_body] pub fn checkpoint(&self) -> Checkpoint { unimplemented!() }
    /// Revertable::revert (C13): back to the checkpoint; add_single takes the checkpoint after the last added command
    #[verifier::external_body]
    pub fn revert(&mut self, c: Checkpoint) -> (r: Result<(), ClientError>) ensures final(self).cmds@ == old(self).cmds@, r is Err ==> r->Err_0 is Storage { unimplemented!() }
    #[verifier::external_body]
    pub fn add_command(&mut self, command: &Command) -> (r: Result<usize, ClientError>)
        ensures r is Ok ==> final(self).cmds@ == old(self).cmds@.push(command.cid), r is Err ==> final(self).cmds@ == old(self).cmds@ && r->Err_0 is Storage,
    { unimplemented!() }
}
#[derive(Copy, Clone, PartialEq, Eq, Structural)]
pub struct HeadSetOffset { pub v: u64 }
#[derive(Copy, Clone)]
pub struct LocatedAddress { pub id: CmdId, pub segment: u64, pub max_cut: u64 }
impl LocatedAddress { pub fn location(self) -> Location { Location { max_cut: self.max_cut, segment: self.segment } } }
/// HeadSet (sorted, duplicate-free: unit c09_head_set); here only which ids it holds
pub struct HeadSet { pub v: Vec<LocatedAddress> }
impl HeadSet {
    pub uninterp spec fn ids(&self) -> Set<CmdId>;
    #[verifier::external_body]
    pub fn default() -> (r: Self) ensures r.ids() =~= Set::<CmdId>::empty() { unimplemented!() }
    /// HeadSet::push contract proved in unit c09_head_set (membership grows by exactly the pushed head)
    #[verifier::external_body]
    pub fn push(&mut self, head: LocatedAddress) ensures final(self).ids() =~= old(self).ids().insert(head.id) { unimplemented!() }
}
/// R14 helper: `head_set.iter().map(LocatedAddress::location).collect()`
#[verifier::external_body]
fn head_locations(hs: &HeadSet) -> (r: Vec<Location>) ensures (exists|c: CmdId| hs.ids().contains(c)) ==> r@.len() > 0 { unimplemented!() }
/// R14 helper: the entries of the tips map, as `for (id, loc) in &self.heads` visits them
#[verifier::external_body]
fn tip_entries(m: &BTreeMap<CmdId, Location>) -> (r: Vec<(CmdId, Location)>)
    ensures forall|i: int| 0 <= i < r@.len() ==> m@.contains_key((#[trigger] r@[i]).0),
        forall|k: CmdId| #[trigger] m@.contains_key(k) ==> exists|i: int| 0 <= i < r@.len() && (#[trigger] r@[i]).0 == k,
{ unimplemented!() }
pub struct Segment { pub head: Ghost<CmdId> }
impl Segment {
    #[verifier::external_body] pub fn facts(&self) -> (r: Result<FactIndex, ClientError>) ensures r is Err ==> r->Err_0 is Storage { unimplemented!() }
    #[verifier::external_body] pub fn policy(&self) -> PolicyId { unimplemented!() }
    #[verifier::external_body] pub fn head_id(&self) -> (r: CmdId) ensures r == self.head@ { unimplemented!() }
    #[verifier::external_body] pub fn head_location(&self) -> (r: Result<Location, ClientError>) ensures r is Err ==> r->Err_0 is Storage { unimplemented!() }
}
/// the storage: only what `commit` is specified against — the committed head ids and the head-set stamp
pub struct Storage { pub heads: Ghost<Set<CmdId>>, pub stamp: Ghost<u64> }
impl Storage {
    #[verifier::external_body]
    pub fn heads_offset(&self) -> (r: Result<HeadSetOffset, ClientError>) ensures r is Ok ==> r->Ok_0.v == self.stamp@, r is Err ==> r->Err_0 is Storage { unimplemented!() }
    /// Storage::commit_heads: replaces the committed head set and moves the stamp (C19 unit for LinearStorage); all or nothing
    #[verifier::external_body]
    pub fn commit_heads(&mut self, hs: HeadSet, fc: FactIndex) -> (r: Result<(), ClientError>)
        ensures r is Ok ==> final(self).heads@ == hs.ids() && final(self).stamp@ != old(self).stamp@,
            r is Err ==> final(self).heads@ == old(self).heads@ && final(self).stamp@ == old(self).stamp@ && r->Err_0 is Storage,
    { unimplemented!() }
    #[verifier::external_body]
    pub fn get_segment(&self, l: Location) -> (r: Result<Segment, ClientError>) ensures r is Err ==> r->Err_0 is Storage { unimplemented!() }
    /// Storage::write: refuses an empty perspective (LinearStorage: StorageError::EmptyPerspective); the segment's head is the last command
    #[verifier::external_body]
    pub fn write(&mut self, p: Perspective) -> (r: Result<Segment, ClientError>)
        ensures p.cmds@.len() == 0 ==> r is Err, r is Ok ==> r->Ok_0.head@ == p.cmds@.last(), r is Err ==> r->Err_0 is Storage,
            // writing a segment does not commit anything
            final(self).heads@ == old(self).heads@, final(self).stamp@ == old(self).stamp@,
    { unimplemented!() }
    #[verifier::external_body]
    pub fn get_linear_perspective(&mut self, loc: Location) -> (r: Result<Perspective, ClientError>) ensures r is Ok ==> r->Ok_0.cmds@.len() == 0, r is Err ==> r->Err_0 is Storage, final(self).heads@ == old(self).heads@, final(self).stamp@ == old(self).stamp@ { unimplemented!() }
}
pub struct Policy { pub _p: () }
impl Policy {
    /// Policy::call_rule may write facts and emit effects, never adds commands
    #[verifier::external_body]
    pub fn call_rule(&self, command: &Command, facts: &mut Perspective, sink: &mut Sink, placement: CommandPlacement) -> (r: Result<(), PolicyError>)
        ensures final(facts).cmds@ == old(facts).cmds@
    { unimplemented!() }
}
pub struct PolicyStore { pub _p: () }
impl PolicyStore {
    /// a failing lookup is an internal inconsistency (the policy of a stored segment is unknown); kept apart from a rule rejection
    #[verifier::external_body] pub fn get_policy(&self, id: PolicyId) -> (r: Result<&Policy, ClientError>) ensures r is Err ==> r->Err_0 == ClientError::PolicyStore { unimplemented!() }
}
pub struct TraversalBuffer { pub _p: () }
#[derive(Copy, Clone)]
pub struct GraphId { pub id: u64 }
pub struct Provider { pub storage: Storage }
impl Provider {
    #[verifier::external_body]
    pub fn get_storage(&mut self, g: GraphId) -> (r: Result<&mut Storage, ClientError>)
        ensures r is Ok ==> *r->Ok_0 == old(self).storage && final(self).storage == *final(r->Ok_0),
            r is Err ==> final(self).storage == old(self).storage && r->Err_0 is Storage,
    { unimplemented!() }
}
pub struct Transaction {
    pub graph_id: GraphId,
    pub original_heads_offset: Option<HeadSetOffset>,
    pub perspective: Option<Perspective>,
    pub phead: Option<CmdId>,
    pub heads: BTreeMap<CmdId, Location>,
}
impl Transaction {
    pub open spec fn tips(&self) -> Set<CmdId> {
        if self.phead is Some { self.heads@.dom().insert(self.phead->Some_0) } else { self.heads@.dom() }
    }
    pub open spec fn wf(&self) -> bool {
        &&& (self.perspective is Some <==> self.phead is Some)
        &&& (self.perspective is Some ==> self.perspective->Some_0.cmds@.len() > 0 && self.phead == Some(self.perspective->Some_0.cmds@.last()))
        // the in-flight tip is not (yet) among the written tips
        &&& (self.phead is Some ==> !self.heads@.contains_key(self.phead->Some_0))
    }
    /// Transaction::locate (lookup by address from the committed heads and the tips: C11 unit); read-only
    #[verifier::external_body]
    pub fn locate(&self, storage: &mut Storage, address: Address, buffer: &mut TraversalBuffer) -> (r: Result<Option<Location>, ClientError>) ensures r is Err ==> r->Err_0 is Storage { unimplemented!() }
}
pub struct FactIndex { pub _p: () }
pub struct RuntimeBuffers { pub traversal: TraversalBuffers, pub braid: BraidBuffer }
pub struct TraversalBuffers { pub primary: TraversalBuffer }
pub struct BraidBuffer { pub _p: () }
pub struct MakeSpill { pub _p: () }
/// choose_policy / evaluate_braid (braid of the two parents: C01–C03 units) do not touch the transaction
#[verifier::external_body]
fn choose_policy<'a>(storage: &Storage, policy_store: &'a PolicyStore, left: Location, right: Location) -> (r: Result<(&'a Policy, PolicyId), ClientError>)
    ensures r is Err ==> r->Err_0 is Storage
{ unimplemented!() }
#[verifier::external_body]
fn evaluate_braid(storage: &mut Storage, heads: &[Location], sink: &mut Sink, policy: &Policy, traversal: &mut TraversalBuffer, braid_buf: &mut BraidBuffer, make_spill: &MakeSpill)
    -> (r: Result<(FactIndex, Location), ClientError>)
    ensures r is Err ==> r->Err_0 is Storage, final(storage).heads@ == old(storage).heads@, final(storage).stamp@ == old(storage).stamp@,
{ unimplemented!() }
impl Storage {
    #[verifier::external_body]
    pub fn new_merge_perspective(&mut self, left: Location, right: Location, lca: Location, policy_id: PolicyId, braid: FactIndex) -> (r: Result<Perspective, ClientError>)
        ensures r is Ok ==> r->Ok_0.cmds@.len() == 0, r is Err ==> r->Err_0 is Storage
    { unimplemented!() }
}
pub assume_specification<'a, T: Copy>[ Option::<&'a T>::copied ](o: Option<&'a T>) -> (r: Option<T>)
    ensures o is Some ==> r == Some(*o->Some_0), o is None ==> r is None;

// ------------------------------------------------------------------ lemma over the contracts: tips = frontier
/// an abstract command graph: the commands held (committed or accepted in the transaction) and their parents
pub struct G { pub cmds: Set<CmdId>, pub parents: Map<CmdId, Set<CmdId>> }
/// c has a child among the held commands
pub open spec fn has_child(g: G, c: CmdId) -> bool { exists|d: CmdId| g.cmds.contains(d) && #[trigger] g.parents[d].contains(c) }
/// the frontier: held commands without a held descendant (= without a held child)
pub open spec fn frontier(g: G) -> Set<CmdId> { g.cmds.filter(|c: CmdId| !has_child(g, c)) }
/// adding a new command whose parents are held
pub open spec fn add(g: G, c: CmdId, ps: Set<CmdId>) -> G { G { cmds: g.cmds.insert(c), parents: g.parents.insert(c, ps) } }
/// The frontier step that add_single (one parent) and add_merge (two parents) are proved to perform on the tips:
/// frontier(g + c) = (frontier(g) - parents(c)) + {c}.  By induction over the accepted commands, starting from
/// tips = committed head set = frontier(committed graph) (C09 for the previous commit), the tips the
/// transaction commits are exactly the frontier of the new committed graph.
pub proof fn lemma_frontier_step(g: G, c: CmdId, ps: Set<CmdId>)
    requires
        !g.cmds.contains(c),                                   // a new command (add_commands skips known ones)
        ps.subset_of(g.cmds),                                  // its parents are held (else NoSuchParent)
        forall|d: CmdId| g.cmds.contains(d) ==> !(#[trigger] g.parents[d]).contains(c),   // nobody held names the new command as parent
    ensures
        frontier(add(g, c, ps)) =~= frontier(g).difference(ps).insert(c),
{
    let g2 = add(g, c, ps);
    assert forall|x: CmdId| frontier(g2).contains(x) <==> frontier(g).difference(ps).insert(c).contains(x) by {
        if x == c {
            // c is held and has no held child
            if has_child(g2, c) {
                let d = choose|d: CmdId| g2.cmds.contains(d) && #[trigger] g2.parents[d].contains(c);
                if d == c { assert(ps.contains(c)); assert(g.cmds.contains(c)); } else { assert(g.parents[d].contains(c)); }
            }
        } else {
            if g.cmds.contains(x) {
                // x's children in g2 are its children in g, plus c if x is a parent of c
                if has_child(g, x) {
                    let d = choose|d: CmdId| g.cmds.contains(d) && #[trigger] g.parents[d].contains(x);
                    assert(g2.cmds.contains(d) && g2.parents[d].contains(x));
                }
                if ps.contains(x) { assert(g2.cmds.contains(c) && g2.parents[c].contains(x)); }
                if has_child(g2, x) {
                    let d = choose|d: CmdId| g2.cmds.contains(d) && #[trigger] g2.parents[d].contains(x);
                    if d != c { assert(g.cmds.contains(d) && g.parents[d].contains(x)); }
                }
            }
        }
    }
}
impl From<PolicyError> for ClientError { #[verifier::external_body] fn from(e: PolicyError) -> (r: Self) ensures r == ClientError::Policy { ClientError::Policy } }
'''

IMPL = r'impl<SP: StorageProvider, PS: PolicyStore> Transaction<SP, PS>'

FLUSH = FnSpec(FILE, 'flush', IMPL,
    sig_rewrites=[('storage: &mut SP::Storage', 'storage: &mut Storage', 1, 'R6')],
    contract="""
        requires old(self).wf(),
        ensures
            r is Ok ==> final(self).perspective is None && final(self).phead is None && final(self).tips() =~= old(self).tips(),
            final(self).wf(),
            final(storage).heads@ == old(storage).heads@, final(storage).stamp@ == old(storage).stamp@, r is Err ==> r->Err_0 is Storage,
            final(self).original_heads_offset == old(self).original_heads_offset,
""")

GET_P = FnSpec(FILE, 'get_perspective', IMPL, attrs='#[verifier::spinoff_prover]',
    sig_rewrites=[('storage: &mut <SP as StorageProvider>::Storage', 'storage: &mut Storage', 1, 'R6'),
                  ('Result<&mut <SP as StorageProvider>::Perspective, ClientError>', 'Result<&mut Perspective, ClientError>', 1, 'R6')],
    contract="""
        requires old(self).wf(),
        ensures
            r is Ok ==> final(self).phead == Some(parent.id),
            r is Ok ==> final(self).perspective is Some,
            r is Ok ==> final(self).tips() =~= old(self).tips().insert(parent.id),
            r is Ok ==> final(self).heads@.dom() =~= (if old(self).phead == Some(parent.id) { old(self).heads@.dom() } else { old(self).tips().remove(parent.id) }),
            // the perspective handed out IS the one in flight
            r is Ok ==> final(self).perspective == Some(*final(r->Ok_0)),
            // re-used as it was, or fresh and empty
            r is Ok && old(self).phead == Some(parent.id) ==> *r->Ok_0 == old(self).perspective->Some_0 && final(self).heads@ == old(self).heads@,
            r is Ok && old(self).phead != Some(parent.id) ==> r->Ok_0.cmds@.len() == 0,
            // a storage failure may lose what was in flight (the perspective is moved into storage.write), never the invariant
            r is Err ==> final(self).wf() && !(r->Err_0 is Policy),
""")

ADD_SINGLE = FnSpec(FILE, 'add_single', IMPL, attrs='#[verifier::spinoff_prover]',
    sig_rewrites=[('storage: &mut <SP as StorageProvider>::Storage', 'storage: &mut Storage', 1, 'R6'),
                  ('policy_store: &mut PS', 'policy_store: &mut PolicyStore', 1, 'R6'),
                  ('sink: &mut impl Sink<PS::Effect>', 'sink: &mut Sink', 1, 'R6'),
                  ('command: &impl Command', 'command: &Command', 1, 'R6')],
    contract="""
        requires old(self).wf(),
            // add_commands only gets here for a command that `locate` did not find: it is not a tip
            !old(self).heads@.contains_key(command.cid) && old(self).phead != Some(command.cid),
        ensures
            // (other errors — storage failures, an unknown policy id — may leave the transaction unusable)
            (r is Ok || r matches Err(ClientError::Policy)) ==> final(self).wf(),
            // accepted: the frontier step
            r is Ok ==> final(self).tips() =~= old(self).tips().remove(parent.id).insert(command.cid),
            // rejected by the policy: the tips are what they were, and (wf) the transaction is still committable
            r matches Err(ClientError::Policy) ==> final(self).tips() =~= old(self).tips(),
""")

ADD_MERGE = FnSpec(FILE, 'add_merge', IMPL, attrs='#[verifier::spinoff_prover]',
    sig_rewrites=[('fn add_merge<F, MS>(', 'fn add_merge(', 1, 'R6'),
                  ('storage: &mut <SP as StorageProvider>::Storage', 'storage: &mut Storage', 1, 'R6'),
                  ('policy_store: &mut PS', 'policy_store: &mut PolicyStore', 1, 'R6'),
                  ('sink: &mut impl Sink<PS::Effect>', 'sink: &mut Sink', 1, 'R6'),
                  ('command: &impl Command', 'command: &Command', 1, 'R6'),
                  ('buffers: &mut RuntimeBuffers<SP::Segment>', 'buffers: &mut RuntimeBuffers', 1, 'R6'),
                  ('make_spill: &MS', 'make_spill: &MakeSpill', 1, 'R6'),
                  ('(left, right): (Address, Address)', 'lr: (Address, Address)', 1, 'R24 (tuple-pattern parameter; bound by a let at entry)'),
                  ("""where
        F: Spill,
        MS: Fn() -> Result<F, StorageError>,""", '', 1, 'R6')],
    rewrites=[('evaluate_braid::<_, PS, F, MS>(', 'evaluate_braid(', 1, 'R6 (turbofish on the abstract braid)'),
              ('if let Some(p) = Option::take(&mut self.perspective) {', 'let (left, right) = lr; if let Some(p) = Option::take(&mut self.perspective) {', 1, 'R24')],
    contract="""
        requires old(self).wf(),
            !old(self).heads@.contains_key(command.cid) && old(self).phead != Some(command.cid),
        ensures
            // the merge command replaces both of its parents in the tip set
            r is Ok ==> final(self).wf() && final(self).tips() =~= old(self).tips().remove(lr.0.id).remove(lr.1.id).insert(command.cid),
""")

COMMIT = FnSpec(FILE, 'commit', IMPL, attrs='#[verifier::spinoff_prover]',
    sig_rewrites=[('fn commit<F, MS>(', 'fn commit(', 1, 'R6'),
                  ('mut self,', '&mut self,', 1, 'R27 (`mut self` by value -> `&mut self`: the real function consumes the transaction, so no caller observes the difference)'),
                  ('provider: &mut SP', 'provider: &mut Provider', 1, 'R6'),
                  ('policy_store: &mut PS', 'policy_store: &mut PolicyStore', 1, 'R6'),
                  ('sink: &mut impl Sink<PS::Effect>', 'sink: &mut Sink', 1, 'R6'),
                  ('buffers: &mut RuntimeBuffers<SP::Segment>', 'buffers: &mut RuntimeBuffers', 1, 'R6'),
                  ('make_spill: &MS', 'make_spill: &MakeSpill', 1, 'R6'),
                  ("""where
        F: Spill,
        MS: Fn() -> Result<F, StorageError>,""", '', 1, 'R6')],
    rewrites=[
        ('evaluate_braid::<_, PS, F, MS>(', 'evaluate_braid(', 1, 'R6 (turbofish on the abstract braid)'),
        ('for (id, loc) in &self.heads {', """let entries = tip_entries(&self.heads);
        for i in 0..entries.len()
            invariant
                forall|j: int| 0 <= j < entries@.len() ==> self.heads@.contains_key((#[trigger] entries@[j]).0),
                forall|c: CmdId| #![trigger head_set.ids().contains(c)] head_set.ids().contains(c) <==> exists|j: int| 0 <= j < i && (#[trigger] entries@[j]).0 == c,
        {
            let (id, loc) = (&entries[i].0, &entries[i].1);""", 1, 'R14'),
        ('let head_locs: Vec<Location> = head_set.iter().map(LocatedAddress::location).collect();', 'let head_locs: Vec<Location> = head_locations(&head_set);', 1, 'R14'),
    ],
    inserts=[
        ('before', 'let head_locs: Vec<Location> = head_locations(&head_set);', """proof {
            // the tips map is not empty, so the head set holds at least one id
            assert(self.heads@.len() != 0);
            assert(exists|k: CmdId| self.heads@.contains_key(k)) by {
                if forall|k: CmdId| !self.heads@.contains_key(k) { assert(self.heads@.dom() =~= Set::<CmdId>::empty()); }
            }
            let k0 = choose|k: CmdId| self.heads@.contains_key(k);
            assert(head_set.ids().contains(k0));
        }"""),
    ],
    contract="""
        requires old(self).wf(),
        ensures
            // never captured the heads: nothing to commit, nothing touched
            old(self).original_heads_offset is None ==> (r is Ok ==> r == Ok::<bool, ClientError>(false)) && final(provider).storage.heads@ == old(provider).storage.heads@,
            // someone else committed since the heads were read: refused before anything is written
            old(self).original_heads_offset is Some && old(self).original_heads_offset->Some_0.v != old(provider).storage.stamp@
                ==> r is Err && final(provider).storage.heads@ == old(provider).storage.heads@ && final(provider).storage.stamp@ == old(provider).storage.stamp@,
            r matches Err(ClientError::ConcurrentTransaction) ==> old(self).original_heads_offset is Some && old(self).original_heads_offset->Some_0.v != old(provider).storage.stamp@,
            // success: the committed head set is exactly the transaction's tips, and the stamp moved
            r == Ok::<bool, ClientError>(true) ==> final(provider).storage.heads@ =~= old(self).tips() && final(provider).storage.stamp@ != old(provider).storage.stamp@
                && old(self).original_heads_offset == Some(HeadSetOffset { v: old(provider).storage.stamp@ }),
            // otherwise the committed head set is what it was
            r != Ok::<bool, ClientError>(true) ==> final(provider).storage.heads@ == old(provider).storage.heads@ && final(provider).storage.stamp@ == old(provider).storage.stamp@,
""")


def build():
    return build_unit(PRELUDE, [('impl Transaction', [FLUSH, GET_P, ADD_SINGLE, ADD_MERGE, COMMIT])])
