"""C29 — the VM's counting queries (`count_up_to`, `at_least`, `at_most`, `exactly` all compile to
Instruction::FactCount): the `Instruction::FactCount(limit) => { .. }` arm of RunState::step
(crates/aranya-policy-vm/src/machine.rs), extracted as a block and wrapped as a function.

Proved, for any stored facts (any number) and any limit: the arm pushes Int(c) where c is the number
of facts, among the results of the storage query for the literal's name and leading keys visited in
order, that pass the value filter (fact_match) — counting stops exactly when c reaches the limit or
the results are exhausted; a storage error surfaces as an error; a limit <= 0 gives 0.  I.e.
c = min(limit, number of matching facts): facts that fail the filter never use up the limit.

Block extraction: only the arm's block is verified text; it is wrapped as
`fn fact_count_arm(&mut self, limit: i64) -> Result<(), MachineError>` with result `Ok(())`.
Shims (R6): RunState keeps the value stack (ghost view), the IO handle and `err`; Fact / FactKeyList /
FactValueList / Identifier are opaque; `ipop::<Fact>`, `validate_fact_literal`, `io.fact_query`, the
query iterator's `next`, `fact_match` and `ipush` are external with the contracts stated in the prelude.
No rewrites of the arm's text.
"""
from lib.vx import FnSpec, build_unit

FILE = 'crates/aranya-policy-vm/src/machine.rs'

PRELUDE = r'''
use vstd::prelude::*;
verus! {
pub enum MachineError { Bug, Io, Stack, Schema }
pub enum MachineErrorType { IO(IoErr), Other }
pub struct IoErr { pub _p: () }
pub trait BugExt<T>: Sized {
    spec fn as_opt(&self) -> Option<T>;
    fn assume(self, msg: &'static str) -> (r: Result<T, MachineError>)
        ensures (r is Ok) == (self.as_opt() is Some), r is Ok ==> r->Ok_0 == self.as_opt()->Some_0;
}
impl<T> BugExt<T> for Option<T> {
    open spec fn as_opt(&self) -> Option<T> { *self }
    fn assume(self, msg: &'static str) -> (r: Result<T, MachineError>)
    { match self { Some(v) => Ok(v), None => Err(MachineError::Bug) } }
}
pub struct Identifier { pub id: u64 }
pub struct FactKeyList { pub k: u64 }
pub struct FactValueList { pub v: u64 }
impl Identifier { #[verifier::external_body] pub fn clone(&self) -> (r: Self) ensures r == *self { unimplemented!() } }
impl FactKeyList { #[verifier::external_body] pub fn clone(&self) -> (r: Self) ensures r == *self { unimplemented!() } }
pub struct Fact { pub name: Identifier, pub keys: FactKeyList, pub values: FactValueList }
pub enum Value { Int(i64), Other }

/// the value filter of a fact literal (fact_match: leading keys equal, every given value field equal)
pub uninterp spec fn fm(q: Fact, k: FactKeyList, v: FactValueList) -> bool;
#[verifier::external_body]
fn fact_match(query: &Fact, keys: &FactKeyList, values: &FactValueList) -> (r: bool) ensures r == fm(*query, *keys, *values) { unimplemented!() }

/// what the storage returns for a (name, leading keys) query, in key order; an element may be an I/O error
pub uninterp spec fn stored(name: Identifier, keys: FactKeyList) -> Seq<Result<(FactKeyList, FactValueList), IoErr>>;
pub struct QueryIter { pub rest: Ghost<Seq<Result<(FactKeyList, FactValueList), IoErr>>> }
impl QueryIter {
    #[verifier::external_body]
    pub fn next(&mut self) -> (r: Option<Result<(FactKeyList, FactValueList), IoErr>>)
        ensures
            old(self).rest@.len() == 0 ==> r is None && final(self).rest@ == old(self).rest@,
            old(self).rest@.len() > 0 ==> r == Some(old(self).rest@[0]) && final(self).rest@ == old(self).rest@.skip(1),
    { unimplemented!() }
}
pub struct Io { pub _p: () }
impl Io {
    #[verifier::external_body]
    pub fn fact_query(&mut self, name: Identifier, keys: FactKeyList) -> (r: Result<QueryIter, MachineError>)
        ensures r is Ok ==> r->Ok_0.rest@ == stored(name, keys)
    { unimplemented!() }
}
pub struct RunState { pub stack: Ghost<Seq<Value>>, pub io: Io }
impl RunState {
    /// ipop::<Fact>: the fact literal on top of the stack
    #[verifier::external_body]
    pub fn ipop(&mut self) -> (r: Result<Fact, MachineError>)
        ensures r is Ok ==> old(self).stack@.len() > 0 && final(self).stack@ == old(self).stack@.drop_last(),
            r is Err ==> final(self).stack@ == old(self).stack@,
    { unimplemented!() }
    #[verifier::external_body]
    pub fn validate_fact_literal(&mut self, fact: &Fact) -> (r: Result<(), MachineError>) ensures final(self).stack@ == old(self).stack@ { unimplemented!() }
    #[verifier::external_body]
    pub fn err(&self, t: MachineErrorType) -> MachineError { unimplemented!() }
    #[verifier::external_body]
    pub fn ipush(&mut self, v: Value) -> (r: Result<(), MachineError>)
        ensures r is Ok ==> final(self).stack@ == old(self).stack@.push(v), r is Err ==> final(self).stack@ == old(self).stack@,
    { unimplemented!() }
}
/// number of facts among the first n results that pass the filter
pub open spec fn nmatch(q: Fact, s: Seq<Result<(FactKeyList, FactValueList), IoErr>>, n: int) -> int decreases n {
    if n <= 0 { 0 } else { nmatch(q, s, n - 1) + (if s[n - 1] is Ok && fm(q, s[n - 1]->Ok_0.0, s[n - 1]->Ok_0.1) { 1int } else { 0int }) }
}
/// c is what a count query with literal q and this limit must answer, having visited the first n results
pub open spec fn count_ok(q: Fact, n: int, c: int, limit: i64) -> bool {
    let all = stored(q.name, q.keys);
    &&& 0 <= n <= all.len()
    &&& forall|i: int| 0 <= i < n ==> (#[trigger] all[i]) is Ok
    &&& c == nmatch(q, all, n)
    // counting stops exactly at the limit, or when the results are exhausted (c = min(limit, matches))
    &&& (c == limit || (n == all.len() && c < limit) || (limit <= 0 && c == 0 && n == 0))
}
'''

ARM = FnSpec(
    FILE, 'step', r"impl<'a, M> RunState<'a, M>", ret='r', attrs='#[verifier::spinoff_prover]',
    block=(r'Instruction::FactCount\(limit\)\s*=>', 'pub fn fact_count_arm(&mut self, limit: i64) -> Result<(), MachineError>', 'Ok(())'),
    contract="""
        ensures
            r is Ok ==> old(self).stack@.len() > 0 && exists|q: Fact, n: int, c: int|
                #[trigger] count_ok(q, n, c, limit) && final(self).stack@ == old(self).stack@.drop_last().push(Value::Int(c as i64)),
""",
    inserts=[
        ('before', 'let mut count = 0;', """let ghost all = stored(fact.name, fact.keys);
                let ghost mut n: int = 0;"""),
        ('before', 'while count < limit', """proof { assert(all.skip(0) =~= all); }"""),
        ('after', 'while count < limit', """
                        invariant
                            0 <= n <= all.len(), iter.rest@ == all.skip(n), count == nmatch(fact, all, n), count <= limit || n == 0,
                            forall|i: int| 0 <= i < n ==> (#[trigger] all[i]) is Ok,
                            count >= 0,
                        ensures
                            0 <= n <= all.len(), count == nmatch(fact, all, n), count >= 0,
                            forall|i: int| 0 <= i < n ==> (#[trigger] all[i]) is Ok,
                            count == limit || (n == all.len() && count < limit) || (limit <= 0 && count == 0 && n == 0),
                        decreases all.len() - n,
"""),
        ('before', 'self.ipush(Value::Int(count))?;', """proof { assert(count_ok(fact, n, count as int, limit)); }"""),
        ('before', 'match r {', """proof {
                            assert(r == all[n]);
                            assert(all.skip(n).skip(1) =~= all.skip(n + 1));
                            n = n + 1;
                        }"""),
    ])


def build():
    return build_unit(PRELUDE, [('impl RunState', [ARM])])
