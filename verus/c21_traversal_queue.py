"""VX unit for C21: TraversalQueue (crates/aranya-runtime/src/storage/mod.rs).

Every method body is the repository's text. Rewrites used (DESIGN §2.2):
  R2  `.iter().position(|x| P)`          -> verified helper `position_*`
  R3  `.iter()[.enumerate()].max_by_key` -> verified helper `argmax_last*` (std: LAST maximum)
  R9  `.map(|(loc, _)| loc)`             -> `map_fst(..)` (Verus has no pattern closure params)
  R10 `mut f: impl FnMut(Location)` / `f(e)` -> `out: &mut Vec<Location>` / `out.push(e)`
Type shims (R6): MaxCut, SegmentIndex are `u64`; Location has the same two fields.
`.assume("..")?` is NOT rewritten: `BugExt::assume` is shimmed in the prelude.
"""
from lib.vx import FnSpec, build_unit, write_diff

FILE = 'crates/aranya-runtime/src/storage/mod.rs'
IMPL = r'impl TraversalQueue'

PRELUDE = r'''
use vstd::prelude::*;
use vstd::multiset::Multiset;
verus! {

// ---- R6 type shims -------------------------------------------------------
pub type MaxCut = u64;
pub type SegmentIndex = u64;
#[derive(Copy, Clone, PartialEq, Eq)]
pub struct Location { pub max_cut: MaxCut, pub segment: SegmentIndex }
impl Location {
    pub fn same_segment(self, other: Self) -> (r: bool) ensures r == (self.segment == other.segment) {
        self.segment == other.segment
    }
}
pub enum StorageError { Bug }

// ---- buggy::BugExt shim (Option -> Result, None is a Bug) -----------------
pub trait BugExt<T>: Sized {
    spec fn as_opt(&self) -> Option<T>;
    fn assume(self, msg: &'static str) -> (r: Result<T, StorageError>)
        ensures (r is Ok) == (self.as_opt() is Some), r is Ok ==> r->Ok_0 == self.as_opt()->Some_0;
}
impl<T> BugExt<T> for Option<T> {
    open spec fn as_opt(&self) -> Option<T> { *self }
    fn assume(self, msg: &'static str) -> (r: Result<T, StorageError>)
    { match self { Some(v) => Ok(v), None => Err(StorageError::Bug) } }
}

// ---- R7 trusted std specs ---------------------------------------------------
pub assume_specification<T> [<[T]>::swap] (s: &mut [T], a: usize, b: usize)
    requires a < old(s)@.len(), b < old(s)@.len(),
    ensures final(s)@ == old(s)@.update(a as int, old(s)@[b as int]).update(b as int, old(s)@[a as int]);

// ---- order on Location: derive(Ord) = lexicographic (max_cut, segment) ------
pub open spec fn loc_le(a: Location, b: Location) -> bool {
    a.max_cut < b.max_cut || (a.max_cut == b.max_cut && a.segment <= b.segment)
}
fn loc_cmp_le(a: Location, b: Location) -> (r: bool) ensures r == loc_le(a, b) {
    a.max_cut < b.max_cut || (a.max_cut == b.max_cut && a.segment <= b.segment)
}
pub open spec fn is_max(s: Seq<Location>, x: Location) -> bool {
    forall|k: int| 0 <= k < s.len() ==> loc_le(#[trigger] s[k], x)
}

// R3 helper: std `max_by_key(|l| *l)` returns the LAST maximal element.
fn argmax_last_idx(v: &Vec<Location>) -> (r: Option<usize>)
    ensures
        r is None <==> v@.len() == 0,
        r is Some ==> r->Some_0 < v@.len() && is_max(v@, v@[r->Some_0 as int])
            && (forall|k: int| r->Some_0 < k < v@.len() ==> (#[trigger] v@[k]) != v@[r->Some_0 as int]),
{
    if v.len() == 0 { return None; }
    let mut best: usize = 0;
    let mut i: usize = 1;
    while i < v.len()
        invariant 1 <= i <= v@.len(), best < i,
            forall|k: int| 0 <= k < i ==> loc_le(#[trigger] v@[k], v@[best as int]),
            forall|k: int| best < k < i ==> (#[trigger] v@[k]) != v@[best as int],
        decreases v@.len() - i,
    {
        if loc_cmp_le(v[best], v[i]) { best = i; }
        i += 1;
    }
    Some(best)
}
fn argmax_last(v: &Vec<Location>) -> (r: Option<(usize, Location)>)
    ensures
        r is None <==> v@.len() == 0,
        r is Some ==> r->Some_0.0 < v@.len() && r->Some_0.1 == v@[r->Some_0.0 as int] && is_max(v@, r->Some_0.1)
            && (forall|k: int| r->Some_0.0 < k < v@.len() ==> (#[trigger] v@[k]) != r->Some_0.1),
{
    match argmax_last_idx(v) { Some(i) => Some((i, v[i])), None => None }
}
fn max_last_ref(v: &Vec<Location>) -> (r: Option<&Location>)
    ensures
        r is None <==> v@.len() == 0,
        r is Some ==> is_max(v@, *r->Some_0) && v@.contains(*r->Some_0),
{
    match argmax_last_idx(v) { Some(i) => Some(&v[i]), None => None }
}
fn max_last(v: &Vec<Location>) -> (r: Option<Location>)
    ensures
        r is None <==> v@.len() == 0,
        r is Some ==> is_max(v@, r->Some_0) && v@.contains(r->Some_0),
{
    match argmax_last_idx(v) { Some(i) => Some(v[i]), None => None }
}
// R9 helper
fn map_fst(o: Option<(Location, bool)>) -> (r: Option<Location>)
    ensures r is Some == o is Some, o is Some ==> r->Some_0 == o->Some_0.0
{ match o { Some(p) => Some(p.0), None => None } }

// R2 helpers: std `position` = first index satisfying the predicate.
fn position_same_segment(v: &Vec<Location>, loc: Location) -> (r: Option<usize>)
    ensures
        r is Some ==> r->Some_0 < v@.len() && v@[r->Some_0 as int].segment == loc.segment
            && forall|k: int| 0 <= k < r->Some_0 ==> (#[trigger] v@[k]).segment != loc.segment,
        r is None ==> forall|k: int| 0 <= k < v@.len() ==> (#[trigger] v@[k]).segment != loc.segment,
{
    let mut i: usize = 0;
    while i < v.len()
        invariant i <= v@.len(), forall|k: int| 0 <= k < i ==> (#[trigger] v@[k]).segment != loc.segment,
        decreases v@.len() - i,
    {
        if v[i].same_segment(loc) { return Some(i); }
        i += 1;
    }
    None
}
fn position_segment(v: &Vec<Location>, segment: SegmentIndex) -> (r: Option<usize>)
    ensures
        r is Some ==> r->Some_0 < v@.len() && v@[r->Some_0 as int].segment == segment
            && forall|k: int| 0 <= k < r->Some_0 ==> (#[trigger] v@[k]).segment != segment,
        r is None ==> forall|k: int| 0 <= k < v@.len() ==> (#[trigger] v@[k]).segment != segment,
{
    let mut i: usize = 0;
    while i < v.len()
        invariant i <= v@.len(), forall|k: int| 0 <= k < i ==> (#[trigger] v@[k]).segment != segment,
        decreases v@.len() - i,
    {
        if v[i].segment == segment { return Some(i); }
        i += 1;
    }
    None
}

// ---- multiset lemmas --------------------------------------------------------
proof fn lemma_update_last_drop<T>(s: Seq<T>, i: int)
    requires 0 <= i < s.len(),
    ensures s.update(i, s.last()).drop_last().to_multiset() == s.to_multiset().remove(s[i]),
{
    broadcast use vstd::seq_lib::group_seq_properties, vstd::seq_lib::group_to_multiset_ensures;
    let t = s.update(i, s.last());
    vstd::seq_lib::to_multiset_update(s, i, s.last());
    assert(t.drop_last().push(t.last()) =~= t);
    vstd::seq_lib::to_multiset_build(t.drop_last(), t.last());
    let d = t.drop_last().to_multiset();
    let a = s.to_multiset();
    assert(d =~= d.insert(t.last()).remove(t.last()));
    assert(a.count(s[i]) > 0) by { assert(s.to_multiset().contains(s[i])); }
    assert forall|v: T| d.count(v) == a.remove(s[i]).count(v) by {
        assert(d.insert(t.last()).count(v) == a.insert(s.last()).remove(s[i]).count(v));
    }
    assert(d =~= a.remove(s[i]));
}
proof fn lemma_count_pos<T>(s: Seq<T>, i: int)
    requires 0 <= i < s.len(),
    ensures s.to_multiset().count(s[i]) > 0,
{
    broadcast use vstd::seq_lib::group_to_multiset_ensures;
    assert(s.to_multiset().contains(s[i]));
}
proof fn lemma_count_witness<T>(s: Seq<T>, v: T)
    requires s.to_multiset().count(v) > 0,
    ensures exists|k: int| 0 <= k < s.len() && s[k] == v,
{
    broadcast use vstd::seq_lib::group_to_multiset_ensures;
    assert(s.to_multiset().contains(v));
    assert(s.contains(v));
}
proof fn lemma_remove_insert<T>(m: Multiset<T>, x: T)
    requires m.count(x) > 0,
    ensures m.remove(x).insert(x) =~= m,
{}
proof fn lemma_update_ms<T>(s: Seq<T>, i: int, x: T)
    requires 0 <= i < s.len(),
    ensures s.update(i, x).to_multiset() =~= s.to_multiset().remove(s[i]).insert(x),
{
    vstd::seq_lib::to_multiset_update(s, i, x);
    lemma_count_pos(s, i);
    let a = s.to_multiset();
    assert forall|v: T| a.insert(x).remove(s[i]).count(v) == a.remove(s[i]).insert(x).count(v) by {}
}
proof fn lemma_push_ms<T>(s: Seq<T>, x: T)
    ensures s.push(x).to_multiset() =~= s.to_multiset().insert(x),
{ vstd::seq_lib::to_multiset_build(s, x); }
proof fn lemma_cons_ms<T>(x: T, s: Seq<T>)
    ensures (seq![x] + s).to_multiset() =~= s.to_multiset().insert(x),
{
    broadcast use vstd::seq_lib::group_seq_properties, vstd::seq_lib::group_to_multiset_ensures;
    vstd::seq_lib::lemma_multiset_commutative(seq![x], s);
    vstd::seq_lib::to_multiset_build(Seq::<T>::empty(), x);
    assert(Seq::<T>::empty().push(x) =~= seq![x]);
    assert((seq![x]).to_multiset() =~= Multiset::<T>::empty().insert(x));
    assert(seq![x].to_multiset().add(s.to_multiset()) =~= s.to_multiset().insert(x));
}
proof fn lemma_update_first_drop<T>(s: Seq<T>, j: int)
    requires 0 <= j < s.len(),
    ensures s.update(j, s[0]).drop_first().to_multiset() =~= s.to_multiset().remove(s[j]),
{
    let t = s.update(j, s[0]);
    lemma_update_ms(s, j, s[0]);
    assert(t =~= seq![t[0]] + t.drop_first());
    lemma_cons_ms(t[0], t.drop_first());
    assert(t[0] == s[0]);
    let d = t.drop_first().to_multiset();
    let a = s.to_multiset();
    lemma_count_pos(s, j);
    assert forall|v: T| d.count(v) == a.remove(s[j]).count(v) by {
        assert(d.insert(s[0]).count(v) == a.remove(s[j]).insert(s[0]).count(v));
    }
}
proof fn lemma_empty_ms<T>(s: Seq<T>)
    requires s.len() == 0,
    ensures s.to_multiset() =~= Multiset::<T>::empty(),
{
    broadcast use vstd::seq_lib::group_to_multiset_ensures;
    assert forall|v: T| s.to_multiset().count(v) == 0 by {
        if s.to_multiset().count(v) > 0 { lemma_count_witness(s, v); }
    }
}

pub struct TraversalQueue { pub entries: Vec<Location>, pub partition: usize }
/// the reusable buffer traversals are handed (storage/mod.rs); fields as in the repository
pub struct TraversalBuffer { pub queue: TraversalQueue }

impl TraversalQueue {
    pub open spec fn wf(&self) -> bool { self.partition <= self.entries@.len() }
    pub open spec fn useq(&self) -> Seq<Location> { self.entries@.subrange(0, self.partition as int) }
    pub open spec fn cseq(&self) -> Seq<Location> { self.entries@.subrange(self.partition as int, self.entries@.len() as int) }
    /// abstract view: multiset of uncovered / covered locations
    pub open spec fn u(&self) -> Multiset<Location> { self.useq().to_multiset() }
    pub open spec fn c(&self) -> Multiset<Location> { self.cseq().to_multiset() }
    pub open spec fn all(&self) -> Multiset<Location> { self.entries@.to_multiset() }
    /// at most one entry per segment
    pub open spec fn uniq(&self) -> bool {
        forall|i: int, j: int| 0 <= i < j < self.entries@.len() ==> (#[trigger] self.entries@[i]).segment != (#[trigger] self.entries@[j]).segment
    }
}
'''

POSTLUDE = ''

# ------------------------------------------------------------------ contracts

NEW = FnSpec(FILE, 'new', IMPL, sig_rewrites=[('pub const fn', 'pub fn', 1, 'const dropped (Vec::new spec is not const in vstd)')],
             contract='''
    ensures r.wf(), r.entries@.len() == 0, r.partition == 0, r.uniq(),
''')

CLEAR = FnSpec(FILE, 'clear', IMPL, contract='''
    ensures final(self).wf(), final(self).entries@.len() == 0, final(self).partition == 0,
''')

IS_EMPTY = FnSpec(FILE, 'is_empty', IMPL, contract='''
    ensures r == (self.entries@.len() == 0),
''', rewrites=[('self.entries.is_empty()', 'self.entries.len() == 0', 1, 'Vec::is_empty -> len()==0 (no vstd spec)')])

ALL_COVERED = FnSpec(FILE, 'all_covered', IMPL, contract='''
    requires self.wf(),
    ensures r == (self.useq().len() == 0),
''')

PUSH_COVERED_POST = '''
        ensures final(self).wf(), r is Ok,
            old(self).uniq() ==> final(self).uniq(),
            // not present: inserted into the partition selected by `covered`
            (forall|k: int| 0 <= k < old(self).entries@.len() ==> old(self).entries@[k].segment != loc.segment) ==> (
                final(self).u() == (if covered { old(self).u() } else { old(self).u().insert(loc) })
                && final(self).c() == (if covered { old(self).c().insert(loc) } else { old(self).c() })),
            // present (first match at i): documented merge rule; every other entry unchanged
            forall|i: int| #![trigger old(self).entries@[i]]
                0 <= i < old(self).entries@.len() && old(self).entries@[i].segment == loc.segment
                && (forall|k: int| 0 <= k < i ==> old(self).entries@[k].segment != loc.segment) ==> ({
                    let e = old(self).entries@[i];
                    let was = i >= old(self).partition;
                    let e2 = if loc.max_cut > e.max_cut { Location { max_cut: loc.max_cut, segment: e.segment } } else { e };
                    let now = if loc.max_cut > e.max_cut { covered } else if loc.max_cut == e.max_cut { was || covered } else { was };
                    let u0 = if was { old(self).u() } else { old(self).u().remove(e) };
                    let c0 = if was { old(self).c().remove(e) } else { old(self).c() };
                    &&& final(self).u() == (if now { u0 } else { u0.insert(e2) })
                    &&& final(self).c() == (if now { c0.insert(e2) } else { c0 })
                }),
'''

PUSH_COVERED = FnSpec(
    FILE, 'push_covered', IMPL,
    contract='\n        requires old(self).wf(), old(self).entries@.len() < usize::MAX,' + PUSH_COVERED_POST,
    rewrites=[('self.entries.iter().position(|x| x.same_segment(loc))', 'position_same_segment(&self.entries, loc)', 1, 'R2')],
    inserts=[
        ('before', 'return Ok(());\n            };', '''proof {
                    let o = old(self).entries@;
                    let e = o[i as int];
                    if i >= old(self).partition {
                        lemma_count_pos(old(self).cseq(), i as int - old(self).partition as int);
                        lemma_remove_insert(old(self).c(), e);
                    } else {
                        lemma_count_pos(old(self).useq(), i as int);
                        lemma_remove_insert(old(self).u(), e);
                    }
                    assert forall|i2: int| 0 <= i2 < o.len() && o[i2].segment == loc.segment
                        && (forall|k: int| 0 <= k < i2 ==> o[k].segment != loc.segment) implies i2 == i as int by {
                        if i2 < i as int { assert(o[i2].segment != loc.segment); }
                        if (i as int) < i2 { assert(o[i as int].segment != loc.segment); }
                    }
                }'''),
        ('before', 'if !was_covered && new_covered {', 'let ghost mid = self.entries@;'),
        ('before', 'return Ok(());\n        }\n        self.entries.push(loc);', '''proof {
                let o = old(self).entries@;
                let p = old(self).partition as int;
                let i0 = i as int;
                let e = o[i0];
                let e2 = mid[i0];
                let ou = old(self).useq();
                let oc = old(self).cseq();
                assert(mid =~= o.update(i0, e2));
                assert(e2.segment == e.segment);
                assert forall|i2: int| 0 <= i2 < o.len() && o[i2].segment == loc.segment
                    && (forall|k: int| 0 <= k < i2 ==> o[k].segment != loc.segment) implies i2 == i0 by {
                    if i2 < i0 { assert(o[i2].segment != loc.segment); }
                    if i0 < i2 { assert(o[i0].segment != loc.segment); }
                }
                let mu = mid.subrange(0, p);
                let mc = mid.subrange(p, mid.len() as int);
                if !was_covered {
                    assert(mu =~= ou.update(i0, e2));
                    assert(mc =~= oc);
                    lemma_update_ms(ou, i0, e2);
                    lemma_count_pos(ou, i0);
                } else {
                    assert(mu =~= ou);
                    assert(mc =~= oc.update(i0 - p, e2));
                    lemma_update_ms(oc, i0 - p, e2);
                    lemma_count_pos(oc, i0 - p);
                }
                if !was_covered && new_covered {
                    assert(final(self).useq() =~= mu.update(i0, mu.last()).drop_last());
                    lemma_update_last_drop(mu, i0);
                    assert(final(self).cseq() =~= seq![e2] + mc);
                    lemma_cons_ms(e2, mc);
                    assert(mu[i0] == e2);
                    let a = ou.to_multiset();
                    assert(a.remove(e).insert(e2).remove(e2) =~= a.remove(e));
                } else if was_covered && !new_covered {
                    let j = i0 - p;
                    assert(final(self).useq() =~= mu.push(e2));
                    lemma_push_ms(mu, e2);
                    assert(final(self).cseq() =~= mc.update(j, mc[0]).drop_first());
                    lemma_update_first_drop(mc, j);
                    assert(mc[j] == e2);
                    let a = oc.to_multiset();
                    assert(a.remove(e).insert(e2).remove(e2) =~= a.remove(e));
                } else {
                    assert(final(self).useq() =~= mu);
                    assert(final(self).cseq() =~= mc);
                }
                // uniqueness: the result is a permutation of `mid`, whose segments are those of `o`
                if old(self).uniq() {
                    let f = final(self).entries@;
                    assert forall|a: int, b: int| 0 <= a < b < f.len() implies (#[trigger] f[a]).segment != (#[trigger] f[b]).segment by {
                        let pa = if !was_covered && new_covered { if a == i0 { p - 1 } else if a == p - 1 { i0 } else { a } }
                                 else if was_covered && !new_covered { if a == i0 { p } else if a == p { i0 } else { a } } else { a };
                        let pb = if !was_covered && new_covered { if b == i0 { p - 1 } else if b == p - 1 { i0 } else { b } }
                                 else if was_covered && !new_covered { if b == i0 { p } else if b == p { i0 } else { b } } else { b };
                        assert(f[a] == mid[pa] && f[b] == mid[pb]);
                        assert(pa != pb);
                        assert(mid[pa].segment == o[pa].segment && mid[pb].segment == o[pb].segment);
                        if pa < pb { assert(o[pa].segment != o[pb].segment); } else { assert(o[pb].segment != o[pa].segment); }
                    }
                }
            }'''),
        ('before', 'Ok(())\n    }', '''proof {
            let o = old(self).entries@;
            let p = old(self).partition as int;
            let ou = old(self).useq();
            let oc = old(self).cseq();
            if covered {
                assert(final(self).useq() =~= ou);
                assert(final(self).cseq() =~= oc.push(loc));
                lemma_push_ms(oc, loc);
            } else {
                assert(final(self).useq() =~= ou.push(loc));
                lemma_push_ms(ou, loc);
                if oc.len() == 0 {
                    assert(final(self).cseq() =~= oc);
                } else {
                    assert(final(self).cseq() =~= oc.drop_first().push(oc[0]));
                    lemma_push_ms(oc.drop_first(), oc[0]);
                    assert(oc =~= seq![oc[0]] + oc.drop_first());
                    lemma_cons_ms(oc[0], oc.drop_first());
                }
            }
            if old(self).uniq() {
                let f = final(self).entries@;
                let n = o.len() as int;
                assert forall|a: int, b: int| 0 <= a < b < f.len() implies (#[trigger] f[a]).segment != (#[trigger] f[b]).segment by {
                    // f = o ++ [loc] with positions p and n swapped (when !covered)
                    let pa = if !covered { if a == p { n } else if a == n { p } else { a } } else { a };
                    let pb = if !covered { if b == p { n } else if b == n { p } else { b } } else { b };
                    let g = o.push(loc);
                    assert(f[a] == g[pa] && f[b] == g[pb]);
                    assert(pa != pb);
                    if pa == n { assert(o[pb].segment != loc.segment); }
                    else if pb == n { assert(o[pa].segment != loc.segment); }
                    else if pa < pb { assert(o[pa].segment != o[pb].segment); } else { assert(o[pb].segment != o[pa].segment); }
                }
            }
        }'''),
    ])

PUSH = FnSpec(FILE, 'push', IMPL,
              contract='\n        requires old(self).wf(), old(self).entries@.len() < usize::MAX,' +
                       PUSH_COVERED_POST.replace('covered', 'false').replace('was || false', 'was || false'))

PUSH_DUPLICATE = FnSpec(FILE, 'push_duplicate', IMPL, contract='''
        requires old(self).wf(), old(self).entries@.len() < usize::MAX,
        ensures final(self).wf(), r is Ok,
            final(self).u() == old(self).u().insert(loc),
            final(self).c() == old(self).c(),
''', inserts=[('before', 'Ok(())\n    }', '''proof {
            let ou = old(self).useq();
            let oc = old(self).cseq();
            assert(final(self).useq() =~= ou.push(loc));
            lemma_push_ms(ou, loc);
            if oc.len() == 0 {
                assert(final(self).cseq() =~= oc);
            } else {
                assert(final(self).cseq() =~= oc.drop_first().push(oc[0]));
                lemma_push_ms(oc.drop_first(), oc[0]);
                assert(oc =~= seq![oc[0]] + oc.drop_first());
                lemma_cons_ms(oc[0], oc.drop_first());
            }
        }''')])

REMOVE_UNCOVERED = FnSpec(FILE, 'remove_uncovered', IMPL, contract='''
        requires old(self).wf(), i < old(self).partition,
        ensures final(self).wf(), r is Ok,
            r->Ok_0 == old(self).entries@[i as int],
            final(self).partition == old(self).partition - 1,
            final(self).entries@.len() == old(self).entries@.len() - 1,
            final(self).u() == old(self).u().remove(r->Ok_0),
            final(self).c() == old(self).c(),
            old(self).u().count(r->Ok_0) > 0,
            // positional facts used by callers' loop invariants
            final(self).useq() == old(self).useq().update(i as int, old(self).useq().last()).drop_last(),
            old(self).uniq() ==> final(self).uniq(),
''', rewrites=[('Ok(self.entries.swap_remove(self.partition))', 'let r0 = self.entries.swap_remove(self.partition);\n        GHOSTPROOF\n        Ok(r0)', 1,
                'tail expression split into `let r0 = …; Ok(r0)` so a proof block can sit between (same evaluation order)')],
    inserts=[])

REMOVE_UNCOVERED_PROOF = '''proof {
            let o = old(self).entries@;
            let p = old(self).partition as int;
            let n = o.len() as int;
            let ou = old(self).useq();
            let oc = old(self).cseq();
            assert(final(self).useq() =~= ou.update(i as int, ou.last()).drop_last());
            lemma_update_last_drop(ou, i as int);
            lemma_count_pos(ou, i as int);
            let fc = final(self).cseq();
            if n == p {
                assert(fc =~= oc);
            } else {
                assert(fc =~= seq![oc.last()] + oc.drop_last());
                assert(oc =~= oc.drop_last().push(oc.last()));
                lemma_push_ms(oc.drop_last(), oc.last());
                lemma_cons_ms(oc.last(), oc.drop_last());
            }
            if old(self).uniq() {
                let f = final(self).entries@;
                assert forall|a: int, b: int| 0 <= a < b < f.len() implies (#[trigger] f[a]).segment != (#[trigger] f[b]).segment by {
                    // f[k] = o[src(k)] with src injective: i <- p-1, p-1 <- n-1, else identity
                    let sa = if a == p - 1 { n - 1 } else if a == i as int { p - 1 } else { a };
                    let sb = if b == p - 1 { n - 1 } else if b == i as int { p - 1 } else { b };
                    assert(f[a] == o[sa] && f[b] == o[sb]);
                    assert(sa != sb);
                    if sa < sb { assert(o[sa].segment != o[sb].segment); } else { assert(o[sb].segment != o[sa].segment); }
                }
            }
        }'''

POP_COVERED = FnSpec(FILE, 'pop_covered', IMPL, contract='''
        requires old(self).wf(),
        ensures final(self).wf(), r is Ok,
            r->Ok_0 is None <==> old(self).entries@.len() == 0,
            r->Ok_0 is None ==> final(self).entries@ == old(self).entries@ && final(self).partition == old(self).partition,
            old(self).uniq() ==> final(self).uniq(),
            r->Ok_0 is Some ==> ({
                let (x, cov) = r->Ok_0->Some_0;
                // highest (max_cut, segment) of everything queued
                &&& is_max(old(self).entries@, x)
                &&& (cov ==> final(self).c() == old(self).c().remove(x) && final(self).u() == old(self).u() && old(self).c().count(x) > 0)
                &&& (!cov ==> final(self).u() == old(self).u().remove(x) && final(self).c() == old(self).c() && old(self).u().count(x) > 0)
            }),
''', rewrites=[('self.entries.iter().enumerate().max_by_key(|&(_, loc)| *loc)', 'argmax_last(&self.entries)', 1, 'R3')],
    inserts=[('after', 'let loc = self.entries.swap_remove(i);', '''proof {
                let o = old(self).entries@;
                let p = old(self).partition as int;
                let n = o.len() as int;
                let oc = old(self).cseq();
                let j = i as int - p;
                assert(final(self).cseq() =~= oc.update(j, oc.last()).drop_last());
                lemma_update_last_drop(oc, j);
                assert(final(self).useq() =~= old(self).useq());
                lemma_count_pos(oc, j);
                if old(self).uniq() {
                    let f = final(self).entries@;
                    assert forall|a: int, b: int| 0 <= a < b < f.len() implies (#[trigger] f[a]).segment != (#[trigger] f[b]).segment by {
                        let sa = if a == i as int { n - 1 } else { a };
                        let sb = if b == i as int { n - 1 } else { b };
                        assert(f[a] == o[sa] && f[b] == o[sb]);
                        assert(sa != sb);
                        if sa < sb { assert(o[sa].segment != o[sb].segment); } else { assert(o[sb].segment != o[sa].segment); }
                    }
                }
            }''')])

POP = FnSpec(FILE, 'pop', IMPL, contract='''
        requires old(self).wf(),
        ensures final(self).wf(), r is Ok,
            r->Ok_0 is None <==> old(self).entries@.len() == 0,
            old(self).uniq() ==> final(self).uniq(),
            r->Ok_0 is Some ==> ({
                let x = r->Ok_0->Some_0;
                &&& is_max(old(self).entries@, x)
                &&& ((final(self).c() == old(self).c().remove(x) && final(self).u() == old(self).u() && old(self).c().count(x) > 0)
                     || (final(self).u() == old(self).u().remove(x) && final(self).c() == old(self).c() && old(self).u().count(x) > 0))
            }),
''', rewrites=[('self.pop_covered()?.map(|(loc, _)| loc)', 'map_fst(self.pop_covered()?)', 1, 'R9')])

PEEK = FnSpec(FILE, 'peek', IMPL, contract='''
        ensures r is None <==> self.entries@.len() == 0,
            r is Some ==> is_max(self.entries@, *r->Some_0) && self.entries@.contains(*r->Some_0),
''', rewrites=[('self.entries.iter().max_by_key(|loc| *loc)', 'max_last_ref(&self.entries)', 1, 'R3')])

COVER_UP_TO = FnSpec(FILE, 'cover_up_to', IMPL, contract='''
        requires old(self).wf(),
        ensures final(self).wf(),
            old(self).uniq() ==> final(self).uniq(),
            // segment not queued: unchanged
            (forall|k: int| 0 <= k < old(self).entries@.len() ==> old(self).entries@[k].segment != segment) ==>
                r is Ok && final(self).entries@ == old(self).entries@ && final(self).partition == old(self).partition,
            // first entry of that segment at index i
            forall|i: int| #![trigger old(self).entries@[i]]
                0 <= i < old(self).entries@.len() && old(self).entries@[i].segment == segment
                && (forall|k: int| 0 <= k < i ==> old(self).entries@[k].segment != segment) ==> ({
                    let e = old(self).entries@[i];
                    if i >= old(self).partition {
                        // already covered: unchanged
                        r is Ok && final(self).entries@ == old(self).entries@ && final(self).partition == old(self).partition
                    } else if coverage_mc >= longest_mc {
                        // fully covered: moves u -> c with the same location
                        r is Ok && final(self).u() == old(self).u().remove(e) && final(self).c() == old(self).c().insert(e)
                    } else if coverage_mc >= e.max_cut {
                        // partially covered: start advanced to coverage+1, still uncovered; Bug only on overflow
                        (r is Ok <==> coverage_mc < u64::MAX)
                        && (r is Ok ==> final(self).u() == old(self).u().remove(e).insert(Location { max_cut: (coverage_mc + 1) as u64, segment: e.segment })
                            && final(self).c() == old(self).c())
                    } else {
                        r is Ok && final(self).entries@ == old(self).entries@ && final(self).partition == old(self).partition
                    }
                }),
''', rewrites=[('self.entries.iter().position(|x| x.segment == segment)', 'position_segment(&self.entries, segment)', 1, 'R2')],
    inserts=[
        ('after', 'let was_covered = i >= self.partition;', '''proof {
            let o = old(self).entries@;
            assert forall|i2: int| 0 <= i2 < o.len() && o[i2].segment == segment
                && (forall|k: int| 0 <= k < i2 ==> o[k].segment != segment) implies i2 == i as int by {
                if i2 < i as int { assert(o[i2].segment != segment); }
                if (i as int) < i2 { assert(o[i as int].segment != segment); }
            }
        }'''),
        ('after', 'self.entries.swap(i, self.partition);', '''proof {
                let o = old(self).entries@;
                let p = old(self).partition as int;
                let i0 = i as int;
                let ou = old(self).useq();
                let oc = old(self).cseq();
                assert(final(self).useq() =~= ou.update(i0, ou.last()).drop_last());
                lemma_update_last_drop(ou, i0);
                assert(final(self).cseq() =~= seq![o[i0]] + oc);
                lemma_cons_ms(o[i0], oc);
                if old(self).uniq() {
                    let f = final(self).entries@;
                    assert forall|a: int, b: int| 0 <= a < b < f.len() implies (#[trigger] f[a]).segment != (#[trigger] f[b]).segment by {
                        let sa = if a == i0 { p - 1 } else if a == p - 1 { i0 } else { a };
                        let sb = if b == i0 { p - 1 } else if b == p - 1 { i0 } else { b };
                        assert(f[a] == o[sa] && f[b] == o[sb]);
                        assert(sa != sb);
                        if sa < sb { assert(o[sa].segment != o[sb].segment); } else { assert(o[sb].segment != o[sa].segment); }
                    }
                }
            }'''),
        ('after', '.assume("coverage_mc + 1 must not overflow")?;', '''proof {
                let o = old(self).entries@;
                let i0 = i as int;
                let ou = old(self).useq();
                let e2 = self.entries@[i0];
                assert(self.entries@ =~= o.update(i0, e2));
                assert(self.useq() =~= ou.update(i0, e2));
                assert(self.cseq() =~= old(self).cseq());
                lemma_update_ms(ou, i0, e2);
                if old(self).uniq() {
                    let f = self.entries@;
                    assert forall|a: int, b: int| 0 <= a < b < f.len() implies (#[trigger] f[a]).segment != (#[trigger] f[b]).segment by {
                        assert(f[a].segment == o[a].segment && f[b].segment == o[b].segment);
                        assert(o[a].segment != o[b].segment);
                    }
                }
            }'''),
    ])

DRAIN_ABOVE = FnSpec(FILE, 'drain_above', IMPL,
    sig_rewrites=[('mut f: impl FnMut(Location)', 'out: &mut Vec<Location>', 1, 'R10')],
    rewrites=[('f(self.remove_uncovered(i)?);', 'out.push(self.remove_uncovered(i)?);', 1, 'R10')],
    contract='''
        requires old(self).wf(),
        ensures final(self).wf(), r is Ok,
            old(self).uniq() ==> final(self).uniq(),
            // the callback log grows by exactly the uncovered entries above the threshold
            final(out)@.len() >= old(out)@.len(),
            final(out)@.subrange(0, old(out)@.len() as int) == old(out)@,
            forall|v: Location| #[trigger] final(out)@.subrange(old(out)@.len() as int, final(out)@.len() as int).to_multiset().count(v)
                == (if v.max_cut > threshold { old(self).u().count(v) } else { 0 }),
            // what stays: exactly the entries at or below the threshold, in their partitions
            forall|v: Location| #[trigger] final(self).u().count(v) == (if v.max_cut > threshold { 0 } else { old(self).u().count(v) }),
            forall|v: Location| #[trigger] final(self).c().count(v) == (if v.max_cut > threshold { 0 } else { old(self).c().count(v) }),
''',
    inserts=[
        ('before', 'let mut i = 0;', '''let ghost n0 = out@.len() as int;
        proof {
            lemma_empty_ms(out@.subrange(n0, out@.len() as int));
            assert(out@.subrange(0, n0) =~= old(out)@);
        }'''),
        ('before', 'out.push(self.remove_uncovered(i)?);', 'let ghost pre_e = self.entries@;\n                let ghost pre_out = out@;\n                let ghost pre_u = self.useq();\n                let ghost pre_ms = self.u();'),
        ('after', 'while i < self.partition', '''
            invariant
                self.wf(), i <= self.partition, n0 == old(out)@.len(), out@.len() >= n0,
                out@.subrange(0, n0) == old(out)@,
                self.cseq().to_multiset() == old(self).c(),
                old(self).uniq() ==> self.uniq(),
                forall|k: int| 0 <= k < i ==> (#[trigger] self.entries@[k]).max_cut <= threshold,
                forall|v: Location| #[trigger] self.u().count(v) + out@.subrange(n0, out@.len() as int).to_multiset().count(v) == old(self).u().count(v),
                forall|v: Location| out@.subrange(n0, out@.len() as int).to_multiset().count(v) > 0 ==> v.max_cut > threshold,
            decreases self.partition - i,'''),
        ('after', 'out.push(self.remove_uncovered(i)?);', '''proof {
                    let x = out@.last();
                    let prev = out@.drop_last();
                    assert(out@.subrange(n0, out@.len() as int) =~= prev.subrange(n0, prev.len() as int).push(x));
                    lemma_push_ms(prev.subrange(n0, prev.len() as int), x);
                    assert(out@.subrange(0, n0) =~= prev.subrange(0, n0));
                    assert(x == pre_e[i as int]);
                    assert(x.max_cut > threshold);
                    assert(self.useq() == pre_u.update(i as int, pre_u.last()).drop_last());
                    assert forall|k: int| 0 <= k < i implies (#[trigger] self.entries@[k]).max_cut <= threshold by {
                        assert(self.entries@[k] == self.useq()[k]);
                        assert(pre_u[k] == pre_e[k]);
                    }
                    assert(self.u() == pre_ms.remove(x));
                    assert(prev =~= pre_out);
                    let d0 = pre_out.subrange(n0, pre_out.len() as int).to_multiset();
                    let d1 = out@.subrange(n0, out@.len() as int).to_multiset();
                    assert(d1 =~= d0.insert(x));
                    assert(pre_ms.count(x) > 0);
                    assert forall|v: Location| #[trigger] self.u().count(v) + d1.count(v) == old(self).u().count(v) by {
                        assert(pre_ms.count(v) + d0.count(v) == old(self).u().count(v));
                    }
                    assert forall|v: Location| d1.count(v) > 0 implies v.max_cut > threshold by {
                        if v != x { assert(d0.count(v) > 0); }
                    }
                }'''),
        ('before', 'let mut i = self.partition;', '''proof {
            // loop 1 exit: every uncovered entry is at or below the threshold
            let us = self.useq();
            assert forall|v: Location| v.max_cut > threshold implies #[trigger] self.u().count(v) == 0 by {
                if self.u().count(v) > 0 {
                    lemma_count_witness(us, v);
                    let k = choose|k: int| 0 <= k < us.len() && us[k] == v;
                    assert(self.entries@[k].max_cut <= threshold);
                }
            }
        }
        let ghost u1 = self.useq();
        let ghost p1 = self.partition;
        let ghost out1 = out@;
        let ghost d1m = out1.subrange(n0, out1.len() as int).to_multiset();
        proof {
            assert forall|v: Location| #[trigger] d1m.count(v) == (if v.max_cut > threshold { old(self).u().count(v) } else { 0 }) by {
                assert(self.u().count(v) + d1m.count(v) == old(self).u().count(v));
            }
        }
        let ghost mut dropped: Multiset<Location> = Multiset::empty();'''),
        ('after', 'while i < self.entries.len()', '''
            invariant
                self.wf(), self.partition == p1, p1 <= i <= self.entries@.len(),
                self.useq() == u1,
                out@ == out1, n0 == old(out)@.len(), n0 <= out1.len(), out1.subrange(0, n0) == old(out)@,
                d1m == out1.subrange(n0, out1.len() as int).to_multiset(),
                forall|v: Location| #[trigger] d1m.count(v) == (if v.max_cut > threshold { old(self).u().count(v) } else { 0 }),
                old(self).uniq() ==> self.uniq(),
                forall|k: int| p1 <= k < i ==> (#[trigger] self.entries@[k]).max_cut <= threshold,
                forall|v: Location| #[trigger] self.c().count(v) + dropped.count(v) == old(self).c().count(v),
                forall|v: Location| dropped.count(v) > 0 ==> v.max_cut > threshold,
            decreases self.entries@.len() - i,'''),
        ('before', 'self.entries.swap_remove(i);', 'let ghost before = self.entries@;\n                let ghost cb = self.cseq();\n                let ghost cbm = self.c();\n                let ghost dr0 = dropped;\n                proof { assert forall|v: Location| #[trigger] cbm.count(v) + dr0.count(v) == old(self).c().count(v) by { assert(self.c().count(v) + dropped.count(v) == old(self).c().count(v)); } }'),
        ('after', 'self.entries.swap_remove(i);', '''proof {
                    let j = i as int - p1 as int;
                    let x = cb[j];
                    assert(x == before[i as int]);
                    assert(x.max_cut > threshold);
                    assert(self.cseq() =~= cb.update(j, cb.last()).drop_last());
                    lemma_update_last_drop(cb, j);
                    lemma_count_pos(cb, j);
                    assert(self.useq() =~= u1);
                    dropped = dropped.insert(x);
                    assert(self.c() == cbm.remove(x));
                    assert forall|v: Location| #[trigger] self.c().count(v) + dropped.count(v) == old(self).c().count(v) by {
                        assert(cbm.count(v) + dr0.count(v) == old(self).c().count(v));
                    }
                    assert forall|v: Location| dropped.count(v) > 0 implies v.max_cut > threshold by {
                        if v != x { assert(dr0.count(v) > 0); }
                    }
                    if old(self).uniq() {
                        let f = self.entries@;
                        let n = before.len() as int;
                        assert forall|a: int, b: int| 0 <= a < b < f.len() implies (#[trigger] f[a]).segment != (#[trigger] f[b]).segment by {
                            let sa = if a == i as int { n - 1 } else { a };
                            let sb = if b == i as int { n - 1 } else { b };
                            assert(f[a] == before[sa] && f[b] == before[sb]);
                            assert(sa != sb);
                            if sa < sb { assert(before[sa].segment != before[sb].segment); } else { assert(before[sb].segment != before[sa].segment); }
                        }
                    }
                }'''),
        ('before', 'Ok(())\n    }', '''proof {
            let cs = self.cseq();
            assert forall|v: Location| v.max_cut > threshold implies #[trigger] self.c().count(v) == 0 by {
                if self.c().count(v) > 0 {
                    lemma_count_witness(cs, v);
                    let k = choose|k: int| 0 <= k < cs.len() && cs[k] == v;
                    assert(self.entries@[p1 as int + k].max_cut <= threshold);
                }
            }
        }'''),
    ])

DRAIN_ALL = FnSpec(FILE, 'drain_all', IMPL,
    sig_rewrites=[('mut f: impl FnMut(Location)', 'out: &mut Vec<Location>', 1, 'R10')],
    rewrites=[('f(self.entries[i]);', 'out.push(self.entries[i]);', 1, 'R10')],
    contract='''
        requires old(self).wf(),
        ensures final(self).wf(), final(self).entries@.len() == 0, final(self).partition == 0,
            // the callback receives exactly the uncovered entries, in index order
            final(out)@ == old(out)@ + old(self).useq(),
''',
    inserts=[
        ('after', 'for i in 0..self.partition', '''
            invariant self.wf(), self.entries@ == old(self).entries@, self.partition == old(self).partition,
                out@ == old(out)@ + old(self).useq().subrange(0, i as int),'''),
        ('after', 'out.push(self.entries[i]);', '''proof {
                assert(old(self).useq().subrange(0, i as int + 1) =~= old(self).useq().subrange(0, i as int).push(self.entries@[i as int]));
            }'''),
        ('before', 'self.entries.clear();', '''proof {
            assert(old(self).useq().subrange(0, self.partition as int) =~= old(self).useq());
        }'''),
    ])


# TraversalBuffer: the reuse wrapper every traversal goes through (`buffers.primary.get()` etc.). Whatever an
# earlier, possibly aborted, traversal left in the buffer, the queue handed out is empty, partition 0, well formed.
# No precondition (must hold from any prior state). `*final(r) == final(self).queue`: the caller's edits land in the buffer.
BIMPL = r'impl TraversalBuffer\b'
BUF_NEW = FnSpec(FILE, 'new', BIMPL, sig_rewrites=[('pub const fn', 'pub fn', 1, 'const dropped')], contract='''
    ensures r.queue.wf(), r.queue.entries@.len() == 0, r.queue.partition == 0,
''')
BUF_GET = FnSpec(FILE, 'get', BIMPL, contract='''
    ensures r.wf(), r.entries@.len() == 0, r.partition == 0, r.uniq(),
        *final(r) == final(self).queue,
''')


def build():
    ru = FnSpec(FILE, 'remove_uncovered', IMPL, contract=REMOVE_UNCOVERED.contract,
                rewrites=[(o, n.replace('GHOSTPROOF', REMOVE_UNCOVERED_PROOF), c, r) for o, n, c, r in REMOVE_UNCOVERED.rewrites])
    pc = FnSpec(FILE, 'push_covered', IMPL, contract=PUSH_COVERED.contract, rewrites=PUSH_COVERED.rewrites,
                inserts=[x for x in PUSH_COVERED.inserts if x[0] != 'end'])
    specs = [NEW, CLEAR, IS_EMPTY, ALL_COVERED, pc, PUSH, PUSH_DUPLICATE, ru, POP_COVERED, POP, PEEK, COVER_UP_TO,
             DRAIN_ABOVE, DRAIN_ALL]
    text, located, dropped, raws = build_unit(PRELUDE, [(IMPL, specs), ('impl TraversalBuffer', [BUF_NEW, BUF_GET])], POSTLUDE)
    return text, located, dropped, raws
