"""C18 / C17 — the requester side of a sync response: `SyncRequester::get_sync_commands`
(crates/aranya-runtime/src/sync/requester.rs), extracted.

Proved for responses carrying any number of commands and payloads of any length:
  * never panics and never reads beyond `remaining`: every policy / data slice is inside the received
    bytes, at the cumulative offsets given by the metas (policy first, then data, per command, in order —
    the layout the responder's get_commands produces); lengths that do not fit => MalformedResponse;
  * a message for another session is refused (SessionMismatch) before anything changes;
  * a SyncResponse is accepted only in Start/Waiting and only at `next_message_index`, which then
    grows by exactly one; a SyncEnd only with max_index = next_message_index; otherwise the state
    becomes Resync and MissingSyncResponse is returned;
  * terminates.

Shims (R6): `'data` byte slices stay slices; CmdId / Priority / Prior<Address> are opaque; heapless
`Vec<T, N>` is a std Vec with capacity N.  Rewrites:
  R14 `for meta in commands {` -> index loop over the metas
  R18 `remaining.get(start..end)` -> `sub(remaining, start, end)` (verified helper: the sub-slice or None)
"""
from lib.vx import FnSpec, build_unit

FILE = 'crates/aranya-runtime/src/sync/requester.rs'

PRELUDE = r'''
use vstd::prelude::*;
verus! {
pub enum SyncError { Bug, SessionMismatch, SessionState, MissingSyncResponse, MalformedResponse }
pub trait BugExt<T>: Sized {
    spec fn as_opt(&self) -> Option<T>;
    fn assume(self, msg: &'static str) -> (r: Result<T, SyncError>)
        ensures (r is Ok) == (self.as_opt() is Some), r is Ok ==> r->Ok_0 == self.as_opt()->Some_0;
}
impl<T> BugExt<T> for Option<T> {
    open spec fn as_opt(&self) -> Option<T> { *self }
    fn assume(self, msg: &'static str) -> (r: Result<T, SyncError>)
    { match self { Some(v) => Ok(v), None => Err(SyncError::Bug) } }
}
pub const COMMAND_RESPONSE_MAX: usize = 100;
#[derive(Copy, Clone)] pub struct CmdId { pub id: u64 }
#[derive(Copy, Clone)] pub struct Priority { pub p: u64 }
#[derive(Copy, Clone)] pub struct Parent { pub p: u64 }
#[derive(Copy, Clone)]
pub struct CommandMeta { pub id: CmdId, pub priority: Priority, pub parent: Parent, pub policy_length: u32, pub length: u32 }
pub struct SyncCommand<'a> { pub priority: Priority, pub id: CmdId, pub parent: Parent, pub policy: Option<&'a [u8]>, pub data: &'a [u8] }

/// heapless::Vec<T, N>
pub struct Vec<T, const N: usize> { pub v: std::vec::Vec<T> }
impl<T, const N: usize> Vec<T, N> {
    pub open spec fn view(&self) -> Seq<T> { self.v@ }
    pub open spec fn wf(&self) -> bool { self.v@.len() <= N }
    pub fn new() -> (r: Self) ensures r@.len() == 0, r.wf() { Vec { v: std::vec::Vec::new() } }
    pub fn len(&self) -> (r: usize) ensures r == self@.len() { self.v.len() }
    pub fn push(&mut self, x: T) -> (r: Result<(), T>)
        requires old(self).wf(),
        ensures final(self).wf(),
            old(self)@.len() < N ==> r is Ok && final(self)@ == old(self)@.push(x),
            old(self)@.len() >= N ==> r is Err && final(self)@ == old(self)@,
    { if self.v.len() < N { self.v.push(x); Ok(()) } else { Err(x) } }
}
/// R18 helper: `s.get(a..b)`
fn sub<'a>(s: &'a [u8], a: usize, b: usize) -> (r: Option<&'a [u8]>)
    ensures r is Some <==> (a <= b && b <= s@.len()), r is Some ==> r->Some_0@ == s@.subrange(a as int, b as int),
{
    if a <= b && b <= s.len() { Some(vstd::slice::slice_subrange(s, a, b)) } else { None }
}
#[derive(Copy, Clone, Structural, PartialEq, Eq)]
pub enum SyncRequesterState { New, Start, Waiting, Idle, Closed, Resync, PartialSync, Reset }
pub enum SyncResponseMessage {
    SyncResponse { session_id: u128, response_index: u64, commands: Vec<CommandMeta, COMMAND_RESPONSE_MAX> },
    SyncEnd { session_id: u128, max_index: u64, remaining: bool },
    Offer { session_id: u128, head: CmdId },
    EndSession { session_id: u128 },
}
impl SyncResponseMessage {
    pub open spec fn sid(&self) -> u128 {
        match *self {
            SyncResponseMessage::SyncResponse { session_id, .. } => session_id,
            SyncResponseMessage::SyncEnd { session_id, .. } => session_id,
            SyncResponseMessage::Offer { session_id, .. } => session_id,
            SyncResponseMessage::EndSession { session_id } => session_id,
        }
    }
    pub fn session_id(&self) -> (r: u128) ensures r == self.sid() {
        match self {
            SyncResponseMessage::SyncResponse { session_id, .. } => *session_id,
            SyncResponseMessage::SyncEnd { session_id, .. } => *session_id,
            SyncResponseMessage::Offer { session_id, .. } => *session_id,
            SyncResponseMessage::EndSession { session_id } => *session_id,
        }
    }
}
pub struct SyncRequester { pub session_id: u128, pub state: SyncRequesterState, pub next_message_index: u64 }

/// where command i's policy starts in the payload: policies and data are laid out per command, policy first
pub open spec fn off(metas: Seq<CommandMeta>, i: int) -> int decreases i {
    if i <= 0 { 0 } else { off(metas, i - 1) + metas[i - 1].policy_length as int + metas[i - 1].length as int }
}
pub open spec fn cmd_ok(c: SyncCommand, m: CommandMeta, start: int, bytes: Seq<u8>) -> bool {
    &&& start + m.policy_length + m.length <= bytes.len()
    &&& (m.policy_length == 0 ==> c.policy is None)
    &&& (m.policy_length != 0 ==> c.policy is Some && c.policy->Some_0@ == bytes.subrange(start, start + m.policy_length))
    &&& c.data@ == bytes.subrange(start + m.policy_length, start + m.policy_length + m.length)
}
'''

GSC = FnSpec(
    FILE, 'get_sync_commands', r'impl SyncRequester\b', attrs='#[verifier::spinoff_prover]',
    contract="""
        requires (message matches SyncResponseMessage::SyncResponse { commands, .. } ==> commands.wf()),
        ensures
            // wrong session: refused, nothing changes
            message.sid() != old(self).session_id ==> (r matches Err(SyncError::SessionMismatch)) && *final(self) == *old(self),
            // a response is taken only in sequence, and moves the expected index by exactly one
            message matches SyncResponseMessage::SyncResponse { response_index, commands, .. } ==> ({
                &&& r is Ok ==> response_index == old(self).next_message_index && final(self).next_message_index == old(self).next_message_index + 1
                        && (old(self).state == SyncRequesterState::Start || old(self).state == SyncRequesterState::Waiting)
                        && r->Ok_0 is Some && r->Ok_0->Some_0@.len() == commands@.len()
                        // every command's policy / data are the bytes at the cumulative offsets, inside the received payload
                        && forall|i: int| 0 <= i < commands@.len() ==> cmd_ok(#[trigger] r->Ok_0->Some_0@[i], commands@[i], off(commands@, i), remaining@)
                &&& (message.sid() == old(self).session_id && response_index != old(self).next_message_index
                        && (old(self).state == SyncRequesterState::Start || old(self).state == SyncRequesterState::Waiting))
                        ==> (r matches Err(SyncError::MissingSyncResponse)) && final(self).state == SyncRequesterState::Resync && final(self).next_message_index == old(self).next_message_index
            }),
            message matches SyncResponseMessage::SyncEnd { max_index, .. } ==>
                (r is Ok ==> max_index == old(self).next_message_index && r->Ok_0 is None && final(self).state == SyncRequesterState::PartialSync),
""",
    rewrites=[
        ('for meta in commands {', """let ghost metas = commands@;
                for mi in 0..commands.len()
                    invariant
                        commands@ == metas, result.wf(), result@.len() == mi, metas.len() <= COMMAND_RESPONSE_MAX,
                        msid == old(self).session_id, self.session_id == old(self).session_id, message.sid() == msid,
                        (message matches SyncResponseMessage::SyncResponse { response_index, .. } ==> response_index == old(self).next_message_index),
                        self.next_message_index == old(self).next_message_index + 1, self.state == SyncRequesterState::Waiting,
                        old(self).state == SyncRequesterState::Start || old(self).state == SyncRequesterState::Waiting,
                        start == off(metas, mi as int), start <= remaining@.len(),
                        forall|i: int| 0 <= i < mi ==> cmd_ok(#[trigger] result@[i], metas[i], off(metas, i), remaining@),
                {
                    let meta = commands.v[mi];""", 1, 'R14'),
        ('remaining.get(start..end)', 'sub(remaining, start, end)', 2, 'R18'),
    ],
    inserts=[
        ('before', 'let result = match message {', """let ghost msid = message.sid();"""),
    ])


def build():
    return build_unit(PRELUDE, [('impl SyncRequester', [GSC])])
