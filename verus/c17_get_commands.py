"""C17 — SyncResponder::get_commands / get_next, extracted from crates/aranya-runtime/src/sync/responder.rs.

The session's outstanding work is `remaining(to_send, next_send)`: for every to_send entry from
next_send on, the ids of the commands of that entry's segment from the entry's max cut to the end of
the segment, concatenated.  get_commands must cut a prefix off that sequence (exactly once, in
order, a full response unless the session is drained) and must not change the session; get_next must
advance the session by exactly what it put into the message, and leave it untouched when it fails.

Rewrites (all local, listed in the run's `dropped` output and in repo_vs_verified.diff):
  R6   `provider: &mut impl StorageProvider` -> `&mut Provider` (abstract provider/storage/segment/command)
  R15  `bug!(..)` -> `return Err(SyncError::Bug)`
  R2'  `let Some(&location) = self.to_send.get(i)` -> `let Some(location) = get_copied(&self.to_send, i)`
  R16  `.inspect_err(|_| self.state = X)?` / `.map_err(|()| { self.state = X; E })?` -> the equivalent `match`
       (Verus has no closures that assign to captured state)
  R14  `for command in &found {` -> index loop over `found`
  R17  `*v.get_mut(i).assume(m)? = x` -> `set_at(&mut v, i, x).assume(m)?`
  R18  `target.get_mut(a..b).ok_or(E)?` + `copy_from_slice` -> `copy_into(target, a, b, &data).ok_or(E)?`
`.assume("..")?`, the arithmetic, comparisons, `break`s and index updates are verbatim.
heapless::Vec<T, N> is a shim `Vec<T, N>` (a std Vec with capacity N) declared in the prelude.
"""
from lib.vx import FnSpec, build_unit

FILE = 'crates/aranya-runtime/src/sync/responder.rs'

PRELUDE = r'''
use vstd::prelude::*;
verus! {
pub type MaxCut = u64;
pub type SegmentIndex = u64;
#[derive(Copy, Clone, Structural, PartialEq, Eq)]
pub struct Location { pub max_cut: MaxCut, pub segment: SegmentIndex }
impl Location {
    pub fn new(segment: SegmentIndex, max_cut: MaxCut) -> (r: Self) ensures r == (Location { max_cut, segment }) { Location { max_cut, segment } }
}
pub enum SyncError { Bug, CommandOverflow, BufferTooSmall, Storage, Serialize, SessionState, NotReady }
#[derive(Copy, Clone)]
pub struct GraphId { pub id: u64 }
pub const COMMAND_RESPONSE_MAX: usize = CRM;
pub const MAX_SYNC_MESSAGE_SIZE: usize = 1024 + 2048 * CRM;
pub const SEGMENT_BUFFER_MAX: usize = CRM;

// ---- buggy::BugExt shim (None is a Bug; the Bug -> SyncError conversion of `?` is folded in) ----
pub trait BugExt<T>: Sized {
    spec fn as_opt(&self) -> Option<T>;
    fn assume(self, msg: &'static str) -> (r: Result<T, SyncError>)
        ensures (r is Ok) == (self.as_opt() is Some), r is Ok ==> r->Ok_0 == self.as_opt()->Some_0;
}
impl<T> BugExt<T> for Option<T> {
    open spec fn as_opt(&self) -> Option<T> { *self }
    fn assume(self, msg: &'static str) -> (r: Result<T, SyncError>)
    { match self { Some(v) => Ok(v), None => Err(SyncError::Bug) } }
}

// ---- heapless::Vec<T, N> shim -------------------------------------------------------------
pub struct Vec<T, const N: usize> { pub v: std::vec::Vec<T> }
impl<T, const N: usize> Vec<T, N> {
    pub open spec fn view(&self) -> Seq<T> { self.v@ }
    pub open spec fn wf(&self) -> bool { self.v@.len() <= N }
    pub fn new() -> (r: Self) ensures r@.len() == 0, r.wf() { Vec { v: std::vec::Vec::new() } }
    pub fn len(&self) -> (r: usize) ensures r == self@.len() { self.v.len() }
    pub fn is_full(&self) -> (r: bool) ensures r == (self@.len() >= N) { self.v.len() >= N }
    pub fn is_empty(&self) -> (r: bool) ensures r == (self@.len() == 0) { self.v.len() == 0 }
    pub fn push(&mut self, x: T) -> (r: Result<(), T>)
        requires old(self).wf(),
        ensures final(self).wf(),
            old(self)@.len() < N ==> r is Ok && final(self)@ == old(self)@.push(x),
            old(self)@.len() >= N ==> r is Err && final(self)@ == old(self)@,
    { if self.v.len() < N { self.v.push(x); Ok(()) } else { Err(x) } }
    /// heapless extend_from_slice: all or nothing
    #[verifier::external_body]
    pub fn extend_from_slice(&mut self, s: &[T]) -> (r: Result<(), ()>)
        requires old(self).wf(),
        ensures final(self).wf(),
            r is Ok ==> final(self)@ == old(self)@ + s@,
            r is Err ==> final(self)@ == old(self)@,
    { unimplemented!() }
}
/// R2' helper: `v.get(i)` by value
fn get_copied<const N: usize>(v: &Vec<Location, N>, i: usize) -> (r: Option<Location>)
    ensures i < v@.len() ==> r == Some(v@[i as int]), i >= v@.len() ==> r is None,
{ if i < v.v.len() { Some(v.v[i]) } else { None } }
/// R17 helper: `*v.get_mut(i)? = x`
fn set_at<const N: usize>(v: &mut Vec<Location, N>, i: usize, x: Location) -> (r: Option<()>)
    ensures i < old(v)@.len() ==> r is Some && final(v)@ == old(v)@.update(i as int, x),
        i >= old(v)@.len() ==> r is None && final(v)@ == old(v)@,
{ if i < v.v.len() { v.v.set(i, x); Some(()) } else { None } }

// ---- the graph the responder reads (assumed contract of Storage / Segment / Command) -------
pub uninterp spec fn cmd_id(seg: SegmentIndex, mc: MaxCut) -> u64;
pub uninterp spec fn seg_first(seg: SegmentIndex) -> MaxCut;
pub uninterp spec fn seg_last(seg: SegmentIndex) -> MaxCut;
pub open spec fn valid(l: Location) -> bool { seg_first(l.segment) <= l.max_cut <= seg_last(l.segment) }
/// ids of the commands from `l` to the end of its segment
pub open spec fn tail(l: Location) -> Seq<u64> {
    Seq::new((seg_last(l.segment) - l.max_cut + 1) as nat, |k: int| cmd_id(l.segment, (l.max_cut + k) as u64))
}
/// everything the session still has to deliver
pub open spec fn remaining(ts: Seq<Location>, from: int) -> Seq<u64> decreases ts.len() - from {
    if from < 0 || from >= ts.len() { Seq::<u64>::empty() } else { tail(ts[from]) + remaining(ts, from + 1) }
}
pub open spec fn all_valid(ts: Seq<Location>, from: int) -> bool { forall|j: int| from <= j < ts.len() ==> valid(#[trigger] ts[j]) }

#[derive(Copy, Clone)]
pub struct Priority { pub p: u64 }
#[derive(Copy, Clone)]
pub struct Parent { pub p: u64 }
pub struct Command { pub seg: SegmentIndex, pub mc: MaxCut }
impl Command {
    #[verifier::external_body] pub fn id(&self) -> (r: u64) ensures r == cmd_id(self.seg, self.mc) { unimplemented!() }
    #[verifier::external_body] pub fn priority(&self) -> Priority { unimplemented!() }
    #[verifier::external_body] pub fn parent(&self) -> Parent { unimplemented!() }
    #[verifier::external_body] pub fn policy(&self) -> Option<&[u8]> { unimplemented!() }
    #[verifier::external_body] pub fn bytes(&self) -> &[u8] { unimplemented!() }
}
pub struct CommandMeta { pub id: u64, pub priority: Priority, pub parent: Parent, pub policy_length: u32, pub length: u32 }
pub open spec fn ids(c: Seq<CommandMeta>) -> Seq<u64> { c.map_values(|m: CommandMeta| m.id) }

pub struct Segment { pub idx: SegmentIndex }
impl Segment {
    #[verifier::external_body] pub fn shortest_max_cut(&self) -> (r: MaxCut) ensures r == seg_first(self.idx) { unimplemented!() }
    #[verifier::external_body] pub fn longest_max_cut(&self) -> (r: Result<MaxCut, SyncError>) ensures r is Ok ==> r->Ok_0 == seg_last(self.idx) { unimplemented!() }
    pub fn index(&self) -> (r: SegmentIndex) ensures r == self.idx { self.idx }
    /// Segment::get_from: the commands from `location` to the end of the segment, in order
    #[verifier::external_body]
    pub fn get_from(&self, location: Location) -> (r: std::vec::Vec<Command>)
        ensures location.segment == self.idx && valid(location) ==> {
            &&& r@.len() == seg_last(self.idx) - location.max_cut + 1
            &&& forall|k: int| 0 <= k < r@.len() ==> (#[trigger] r@[k]).seg == self.idx && r@[k].mc == location.max_cut + k
        }
    { unimplemented!() }
}
pub struct Storage { pub _p: () }
impl Storage {
    #[verifier::external_body]
    pub fn get_segment(&self, l: Location) -> (r: Result<Segment, SyncError>)
        ensures r is Ok ==> r->Ok_0.idx == l.segment
    { unimplemented!() }
}
pub struct Provider { pub st: Storage }
impl Provider {
    #[verifier::external_body]
    pub fn get_storage(&mut self, g: GraphId) -> (r: Result<&Storage, SyncError>) { unimplemented!() }
}
#[derive(Copy, Clone, Structural, PartialEq, Eq)]
pub enum SyncResponderState { New, Start, Send, Idle, Reset, Stopped }
pub struct SyncResponder {
    pub session_id: Option<u128>,
    pub graph_id: Option<GraphId>,
    pub state: SyncResponderState,
    pub next_send: usize,
    pub message_index: usize,
    pub to_send: Vec<Location, SEGMENT_BUFFER_MAX>,
    pub has: HasVec,
}

// ---- wire format (assumed contract of SyncResponder::write / postcard) ------------------------
pub enum SyncResponseMessage {
    SyncResponse { session_id: u128, response_index: u64, commands: Vec<CommandMeta, COMMAND_RESPONSE_MAX> },
    SyncEnd { session_id: u128, max_index: u64, remaining: bool },
}
/// what a peer decodes from a written message header
pub uninterp spec fn wire_is_response(t: Seq<u8>) -> bool;
pub uninterp spec fn wire_index(t: Seq<u8>) -> u64;
pub uninterp spec fn wire_ids(t: Seq<u8>) -> Seq<u64>;
impl SyncResponder {
    #[verifier::external_body]
    pub fn session_id(&self) -> (r: Result<u128, SyncError>) { unimplemented!() }
    #[verifier::external_body]
    pub fn write(target: &mut [u8], message: SyncResponseMessage) -> (r: Result<usize, SyncError>)
        ensures final(target)@.len() == old(target)@.len(),
            r is Ok ==> r->Ok_0 <= final(target)@.len() && ({
                let hdr = final(target)@.subrange(0, r->Ok_0 as int);
                match message {
                    SyncResponseMessage::SyncResponse { session_id, response_index, commands } =>
                        wire_is_response(hdr) && wire_index(hdr) == response_index && wire_ids(hdr) == ids(commands@),
                    SyncResponseMessage::SyncEnd { session_id, max_index, remaining } =>
                        !wire_is_response(hdr) && wire_index(hdr) == max_index,
                }
            }),
    { unimplemented!() }
}
/// R18 helper: `target.get_mut(a..b)` then `copy_from_slice(data)`
#[verifier::external_body]
fn copy_into<const N: usize>(target: &mut [u8], a: usize, b: usize, data: &Vec<u8, N>) -> (r: Option<()>)
    requires b - a == data@.len() || a > b,
    ensures final(target)@.len() == old(target)@.len(),
        r is Some <==> (a <= b && b <= old(target)@.len()),
        r is Some ==> final(target)@.subrange(0, a as int) == old(target)@.subrange(0, a as int),
        r is None ==> final(target)@ == old(target)@,
{ unimplemented!() }

/// get_next succeeded: what the peer reads (hdr) against how the session moved (o -> f)
pub open spec fn next_ok(hdr: Seq<u8>, o: SyncResponder, f: SyncResponder) -> bool {
    let rem0 = remaining(o.to_send@, o.next_send as int);
    let rem1 = remaining(f.to_send@, f.next_send as int);
    if o.next_send >= o.to_send@.len() {
        // drained: an end message at the current index; nothing advances
        &&& !wire_is_response(hdr) && wire_index(hdr) == o.message_index as u64
        &&& f.state == SyncResponderState::Idle
        &&& f.message_index == o.message_index && rem1 == rem0
    } else {
        // a response at the current index; the session advances by exactly what the message carries
        &&& wire_is_response(hdr) && wire_index(hdr) == o.message_index as u64
        &&& wire_ids(hdr) + rem1 == rem0
        &&& f.message_index == o.message_index + 1
        &&& f.next_send >= o.next_send
        &&& (wire_ids(hdr).len() == COMMAND_RESPONSE_MAX || f.next_send >= f.to_send@.len())
    }
}

// ---- push (unsolicited update to a subscribed peer) -------------------------------------------
pub struct TraversalBuffers { pub _p: () }
pub struct HasVec { pub _p: () }
pub enum SyncType { Push { message: SyncResponseMessage, graph_id: GraphId } }
impl SyncResponder {
    /// find_needed_segments (not under contract): yields locations of the responder's own storage
    #[verifier::external_body]
    pub fn find_needed_segments(has: &HasVec, storage: &Storage, buffers: &mut TraversalBuffers) -> (r: Result<Vec<Location, SEGMENT_BUFFER_MAX>, SyncError>)
        ensures r is Ok ==> r->Ok_0.wf() && all_valid(r->Ok_0@, 0)
    { unimplemented!() }
    #[verifier::external_body]
    pub fn write_sync_type(target: &mut [u8], message: SyncType) -> (r: Result<usize, SyncError>)
        ensures final(target)@.len() == old(target)@.len(),
            r is Ok ==> r->Ok_0 <= final(target)@.len() && ({
                let hdr = final(target)@.subrange(0, r->Ok_0 as int);
                match message {
                    SyncType::Push { message: SyncResponseMessage::SyncResponse { session_id, response_index, commands }, graph_id } =>
                        wire_is_response(hdr) && wire_index(hdr) == response_index && wire_ids(hdr) == ids(commands@),
                    _ => true,
                }
            }),
    { unimplemented!() }
}

// ---- lemmas about `remaining` ---------------------------------------------------------------
proof fn lemma_remaining_update(ts: Seq<Location>, i: int, x: Location, from: int)
    requires 0 <= i < ts.len(), i < from,
    ensures remaining(ts.update(i, x), from) == remaining(ts, from),
    decreases ts.len() - from,
{
    if from < ts.len() { lemma_remaining_update(ts, i, x, from + 1); }
}
/// splitting a segment tail at `sent`
proof fn lemma_tail_split(l: Location, sent: int)
    requires valid(l), 0 <= sent <= seg_last(l.segment) - l.max_cut, l.max_cut + sent <= u64::MAX,
    ensures tail(l) == tail(l).subrange(0, sent) + tail(Location { max_cut: (l.max_cut + sent) as u64, segment: l.segment }),
        valid(Location { max_cut: (l.max_cut + sent) as u64, segment: l.segment }),
{
    let l2 = Location { max_cut: (l.max_cut + sent) as u64, segment: l.segment };
    assert(tail(l) =~= tail(l).subrange(0, sent) + tail(l2));
}

/// lemma over the contract of get_next: a delivered response strictly shrinks what is outstanding, so a session
/// sends at most |outstanding| responses (in fact ceil(|outstanding| / COMMAND_RESPONSE_MAX)) before it is drained,
/// and the call after that writes SyncEnd — "every session ends with an end message after finitely many responses".
pub proof fn lemma_response_makes_progress(hdr: Seq<u8>, o: SyncResponder, f: SyncResponder)
    requires
        next_ok(hdr, o, f), o.next_send < o.to_send@.len(), all_valid(o.to_send@, o.next_send as int),
    ensures
        remaining(f.to_send@, f.next_send as int).len() < remaining(o.to_send@, o.next_send as int).len(),
{
    let rem0 = remaining(o.to_send@, o.next_send as int);
    let rem1 = remaining(f.to_send@, f.next_send as int);
    // the entry at next_send is a valid location: its tail holds at least one command
    assert(valid(o.to_send@[o.next_send as int]));
    assert(tail(o.to_send@[o.next_send as int]).len() >= 1);
    assert(rem0.len() >= 1);
    assert((wire_ids(hdr) + rem1).len() == wire_ids(hdr).len() + rem1.len());
    if wire_ids(hdr).len() != COMMAND_RESPONSE_MAX {
        // drained: nothing is left
        assert(f.next_send >= f.to_send@.len());
        assert(rem1.len() == 0);
    }
}
'''

GET_COMMANDS = FnSpec(
    FILE, 'get_commands', r'impl SyncResponder\b', attrs='#[verifier::spinoff_prover]',
    sig_rewrites=[('provider: &mut impl StorageProvider', 'provider: &mut Provider', 1, 'R6')],
    contract="""
        requires
            old(self).to_send.wf(),
            all_valid(old(self).to_send@, old(self).next_send as int),
        ensures
            // the session itself is not advanced here (only `state` may change, on errors)
            final(self).to_send@ == old(self).to_send@,
            final(self).next_send == old(self).next_send,
            final(self).message_index == old(self).message_index,
            r is Ok ==> ({
                let cmds = r->Ok_0.0; let index = r->Ok_0.2; let resume = r->Ok_0.3;
                let ts = old(self).to_send@;
                let ts2 = if resume is Some { ts.update(index as int, resume->Some_0) } else { ts };
                &&& old(self).next_send <= index
                &&& resume is Some ==> index < ts.len()
                &&& cmds.wf()
                // exactly once, in order: what is sent plus what remains is what was outstanding
                &&& ids(cmds@) + remaining(ts2, index as int) == remaining(ts, old(self).next_send as int)
                &&& all_valid(ts2, index as int)
                // progress: a response is full, or it drains the session
                &&& (cmds@.len() == COMMAND_RESPONSE_MAX || (index >= ts.len() && resume is None))
                &&& final(self).state == old(self).state
            }),
""",
    rewrites=[
        ('for i in self.next_send..self.to_send.len()', 'let mut i = self.next_send; let end_ = self.to_send.len(); while i < end_', 1, 'R19 (for over a usize range -> while; the body has no `continue`)'),
        ('''index = i.checked_add(1).assume("index + 1 mustn't overflow")?;''', '''index = i.checked_add(1).assume("index + 1 mustn't overflow")?; i += 1;''', 1, 'R19 (loop increment)'),
        ('''sent = sent.checked_add(1).assume("sent + 1 mustn't overflow")?;''', '''sent = sent.checked_add(1).assume("sent + 1 mustn't overflow")?; k += 1;''', 1, 'R14 (loop increment)'),
        ('bug!("get_next called before graph_id was set");', 'return Err(SyncError::Bug);', 1, 'R15'),
        ('bug!("send index OOB");', 'return Err(SyncError::Bug);', 1, 'R15'),
        ('return Err(e.into());', 'return Err(e);', 1, 'R6 (error conversion folded into the shim)'),
        ('let Some(&location) = self.to_send.get(i) else', 'let Some(location) = get_copied(&self.to_send, i) else', 1, "R2'"),
        ("""let segment = storage
                .get_segment(location)
                .inspect_err(|_| self.state = SyncResponderState::Reset)?;""",
         """let segment = match storage.get_segment(location) {
                Ok(s) => s,
                Err(e) => { self.state = SyncResponderState::Reset; return Err(e); }
            };""", 1, 'R16'),
        ("""command_data.extend_from_slice(policy).map_err(|()| {
                        self.state = SyncResponderState::Reset;
                        SyncError::CommandOverflow
                    })?;""",
         """match command_data.extend_from_slice(policy) {
                        Ok(()) => {}
                        Err(()) => { self.state = SyncResponderState::Reset; return Err(SyncError::CommandOverflow); }
                    }""", 1, 'R16'),
        ("""command_data.extend_from_slice(bytes).map_err(|()| {
                    self.state = SyncResponderState::Reset;
                    SyncError::CommandOverflow
                })?;""",
         """match command_data.extend_from_slice(bytes) {
                    Ok(()) => {}
                    Err(()) => { self.state = SyncResponderState::Reset; return Err(SyncError::CommandOverflow); }
                }""", 1, 'R16'),
        ('for command in &found {', """let mut k: usize = 0;
            while k < found.len()
                invariant_except_break
                    sent == k,
                invariant
                    ts0 == self.to_send@, self.to_send.wf(), commands.wf(), command_data.wf(),
                    found@.len() == seg_last(location.segment) - location.max_cut + 1,
                    forall|q: int| 0 <= q < found@.len() ==> (#[trigger] found@[q]).seg == location.segment && found@[q].mc == location.max_cut + q,
                    valid(location), self.next_send == ns0, self.message_index == mi0, self.state == st0,
                    sent <= found@.len(),
                    ids(commands@) == ids0 + tail(location).subrange(0, sent as int),
                ensures
                    sent < found@.len() ==> commands@.len() >= COMMAND_RESPONSE_MAX,
                decreases found@.len() - k,
            {
                let command = &found[k];""", 1, 'R14'),
    ],
    inserts=[
        ('before', 'let mut commands: Vec<CommandMeta, COMMAND_RESPONSE_MAX> = Vec::new();', """let ghost ts0 = self.to_send@;
        let ghost ns0 = self.next_send;
        let ghost mi0 = self.message_index;
        let ghost st0 = self.state;
        let ghost r0 = remaining(self.to_send@, self.next_send as int);"""),
        ('after', 'while i < end_', """
            invariant_except_break
                index == i, resume is None,
                ids(commands@) + remaining(ts0, i as int) == r0,
            invariant
                ts0 == self.to_send@, self.to_send.wf(), commands.wf(), command_data.wf(),
                self.next_send == ns0, self.message_index == mi0, self.state == st0,
                all_valid(ts0, ns0 as int), ns0 <= i, end_ == ts0.len(),
                r0 == remaining(ts0, ns0 as int),
            ensures
                ns0 <= index,
                resume is Some ==> index < ts0.len(),
                ids(commands@) + remaining(if resume is Some { ts0.update(index as int, resume->Some_0) } else { ts0 }, index as int) == r0,
                all_valid(if resume is Some { ts0.update(index as int, resume->Some_0) } else { ts0 }, index as int),
                commands@.len() == COMMAND_RESPONSE_MAX || (index >= ts0.len() && resume is None),
            decreases end_ - i,
"""),
        ('before', 'let found = segment.get_from(location);', """let ghost ids0 = ids(commands@);
            proof { assert(valid(location)); assert(remaining(ts0, i as int) == tail(location) + remaining(ts0, i + 1)); }"""),
        ('after', 'let mut sent: usize = 0;', """proof { assert(tail(location).subrange(0, 0) =~= Seq::<u64>::empty()); assert(ids0 + Seq::<u64>::empty() =~= ids0); }"""),
        ('after', 'resume = Some(Location::new(location.segment, resume_max_cut));', """proof {
                    let l2 = Location { max_cut: resume_max_cut, segment: location.segment };
                    lemma_tail_split(location, sent as int);
                    let ts2 = ts0.update(i as int, l2);
                    lemma_remaining_update(ts0, i as int, l2, i + 1);
                    assert(remaining(ts2, i as int) == tail(l2) + remaining(ts2, i + 1));
                    assert(ids(commands@) + remaining(ts2, i as int) =~= ids0 + (tail(location).subrange(0, sent as int) + tail(l2)) + remaining(ts0, i + 1));
                    assert(ids0 + tail(location) + remaining(ts0, i + 1) =~= ids0 + (tail(location) + remaining(ts0, i + 1)));
                }"""),
        ('before', 'index = i.checked_add(1).assume("index + 1 mustn\'t overflow")?;', """proof {
                assert(sent == found@.len());
                assert(tail(location).subrange(0, sent as int) =~= tail(location));
                assert(ids0 + tail(location) + remaining(ts0, i + 1) =~= ids0 + (tail(location) + remaining(ts0, i + 1)));
            }"""),
        ('before', 'commands.push(meta).ok().assume("commands is not full")?;', """let ghost c0 = commands@;
                proof { assert(meta.id == cmd_id(location.segment, (location.max_cut + k) as u64)); }"""),
        ('after', '''sent = sent.checked_add(1).assume("sent + 1 mustn't overflow")?; k += 1;''', """proof {
                    assert(commands@ == c0.push(meta));
                    assert(ids(commands@) =~= ids(c0).push(meta.id));
                    assert(tail(location).subrange(0, sent as int) =~= tail(location).subrange(0, sent - 1).push(tail(location)[sent - 1]));
                }"""),
    ])

GET_NEXT = FnSpec(
    FILE, 'get_next', r'impl SyncResponder\b', attrs='#[verifier::spinoff_prover]',
    sig_rewrites=[('provider: &mut impl StorageProvider', 'provider: &mut Provider', 1, 'R6')],
    contract="""
        requires
            old(self).to_send.wf(),
            all_valid(old(self).to_send@, old(self).next_send as int),
            old(self).message_index < usize::MAX,
        ensures
            final(self).to_send.wf(),
            final(self).to_send@.len() == old(self).to_send@.len(),
            all_valid(final(self).to_send@, final(self).next_send as int),
            // a failed call leaves the session where it was: the caller may retry (e.g. with a larger buffer)
            r is Err ==> final(self).to_send@ == old(self).to_send@ && final(self).next_send == old(self).next_send
                && final(self).message_index == old(self).message_index,
            r is Ok ==> exists|h: int| 0 <= h <= r->Ok_0 && h <= final(target)@.len()
                && #[trigger] next_ok(final(target)@.subrange(0, h), *old(self), *final(self)),
""",
    rewrites=[
        ("""let data_target = target
            .get_mut(length..total_length)
            .ok_or(SyncError::BufferTooSmall)?;
        data_target.copy_from_slice(&command_data);""",
         """copy_into(target, length, total_length, &command_data).ok_or(SyncError::BufferTooSmall)?;""", 1, 'R18'),
        ("""*self
                .to_send
                .get_mut(next_send)
                .assume("send index in bounds")? = resume;""",
         """set_at(&mut self.to_send, next_send, resume).assume("send index in bounds")?;""", 1, 'R17'),
    ],
    inserts=[
        ('before', 'return Ok(length);', """proof {
                assert(remaining(self.to_send@, self.next_send as int) == remaining(old(self).to_send@, old(self).next_send as int));
                assert(next_ok(target@.subrange(0, length as int), *old(self), *self));
            }"""),
        ('before', 'let total_length = length', """let ghost hdr0 = target@.subrange(0, length as int);
        let ghost cmd_ids = wire_ids(hdr0);"""),
        ('before', 'Ok(total_length)', """proof {
            assert(target@.subrange(0, length as int) == hdr0);
            assert(next_ok(target@.subrange(0, length as int), *old(self), *self));
        }"""),
    ])

PUSH = FnSpec(
    FILE, 'push', r'impl SyncResponder\b', attrs='#[verifier::spinoff_prover]',
    sig_rewrites=[('provider: &mut impl StorageProvider', 'provider: &mut Provider', 1, 'R6')],
    contract="""
        requires old(self).message_index < usize::MAX, old(self).to_send.wf(),
        ensures
            final(self).to_send.wf(),
            // a failure does not move the index
            r is Err ==> final(self).message_index == old(self).message_index,
            // either nothing was pushed, or one message carrying the current index was written and the index grew by one
            r is Ok ==> final(self).message_index == old(self).message_index
                || (final(self).message_index == old(self).message_index + 1
                    && exists|h: int| 0 <= h <= r->Ok_0 && h <= final(target)@.len()
                        && wire_is_response(#[trigger] final(target)@.subrange(0, h)) && wire_index(final(target)@.subrange(0, h)) == old(self).message_index as u64),
""",
    rewrites=[
        ('return Err(e.into());', 'return Err(e);', 1, 'R6 (error conversion folded into the shim)'),
        ("""let data_target = target
                .get_mut(length..total_length)
                .ok_or(SyncError::BufferTooSmall)?;
            data_target.copy_from_slice(&command_data);""",
         """copy_into(target, length, total_length, &command_data).ok_or(SyncError::BufferTooSmall)?;""", 1, 'R18'),
        ("""*self
                    .to_send
                    .get_mut(next_send)
                    .assume("send index in bounds")? = resume;""",
         """set_at(&mut self.to_send, next_send, resume).assume("send index in bounds")?;""", 1, 'R17'),
    ],
    inserts=[
        ('before', 'let total_length = length', """let ghost hdr0 = target@.subrange(0, length as int);"""),
        ('after', 'length = total_length;', """proof { assert(target@.subrange(0, hlen as int) == hdr0); }"""),
        ('after', 'length = Self::write_sync_type(target, message)?;', """let ghost hlen = length;"""),
    ])


def build(crm='100'):
    return build_unit(PRELUDE.replace('CRM', crm), [('impl SyncResponder', [GET_COMMANDS, GET_NEXT, PUSH])])
