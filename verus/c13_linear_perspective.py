"""VX unit for C13 / C12 (in-flight perspective) / C06 (storage side):
LinearFactPerspective {clear, apply_updates, insert, delete, query} and
LinearPerspective {insert, delete, checkpoint, revert} from crates/aranya-runtime/src/storage/linear/mod.rs,
over vstd's BTreeMap model.

Type shims (R6): String/&str -> Name, Keys/&[Bytes] -> Keys, Bytes -> Bytes (opaque ordered values, u64);
`FactPerspectivePrior<R>` keeps only None / Some (payloads dropped); CommandData keeps only `updates`;
LinearPerspective keeps only facts / commands / current_updates (the fields these functions touch).
Rewrites:
  R8  `<map>.entry(<k>).or_default()`                      -> `entry_or_default(&mut <map>, <k>)` (verified helper)
  R12 `self.map.get(name).and_then(|m| m.get(keys))`       -> `get2(&self.map, name, keys)` (verified helper)
  R14 `for <pat> in <slice> {`                             -> index loop + `let <pat> = <slice>[i];`
  R15 `bug!(..)`                                           -> `return Err(StorageError::Bug)`
  R16 `wrapped.as_deref().map(Bytes::from)`                -> `*wrapped` (Box<[u8]> copy; shim values are Copy)
  R17 the `match &self.prior { .. }` dispatch in `query`   -> `prior_query(&self.prior, name, keys)` (external: prior index / perspective lookup)
"""
from lib.vx import FnSpec, build_unit

FILE = 'crates/aranya-runtime/src/storage/linear/mod.rs'
I_FP = r'impl<R> LinearFactPerspective<R>'
I_FP_QM = r'impl<R: Read> QueryMut for LinearFactPerspective<R>'
I_FP_Q = r'impl<R: Read> Query for LinearFactPerspective<R>'
I_P_QM = r'impl<R: Read> QueryMut for LinearPerspective<R>'
I_P_RV = r'impl<R: Read> Revertable for LinearPerspective<R>'
I_PR = r'impl<R> FactPerspectivePrior<R>'

PRELUDE = r'''
use vstd::prelude::*;
use std::collections::BTreeMap;
verus! {
pub type Name = u64;
pub type Keys = u64;
pub type Bytes = u64;
pub type Inner = BTreeMap<Keys, Option<Bytes>>;
pub type Outer = BTreeMap<Name, Inner>;
pub type Update = (Name, Keys, Option<Bytes>);
pub enum StorageError { Bug, Other, PerspectiveHeadMismatch }
pub struct Checkpoint { pub index: usize }
pub enum FactPerspectivePrior { None, Some }
pub struct LinearFactPerspective { pub map: Outer, pub prior: FactPerspectivePrior }
#[derive(Copy, Clone, PartialEq, Eq, Structural)]
pub struct CmdId { pub id: u64 }
#[derive(Copy, Clone)]
pub struct Priority { pub p: u64 }
#[derive(Copy, Clone, PartialEq, Eq, Structural)]
pub struct PriorAddress { pub p: u64 }
pub struct PolicyBytes { pub _p: () }
pub struct DataBytes { pub _p: () }
pub struct CommandData { pub id: CmdId, pub priority: Priority, pub policy: Option<PolicyBytes>, pub data: DataBytes, pub updates: Vec<Update> }
/// the command being added (abstract)
pub struct Command { pub _p: () }
impl Command {
    #[verifier::external_body] pub fn id(&self) -> CmdId { unimplemented!() }
    #[verifier::external_body] pub fn priority(&self) -> Priority { unimplemented!() }
    #[verifier::external_body] pub fn parent(&self) -> PriorAddress { unimplemented!() }
    #[verifier::external_body] pub fn policy(&self) -> Option<&[u8]> { unimplemented!() }
    #[verifier::external_body] pub fn bytes(&self) -> &[u8] { unimplemented!() }
}
/// R30: `core::mem::take(&mut v)` on a Vec: hands out the contents, leaves `Vec::default()` = empty
#[verifier::external_body]
fn take_updates(v: &mut Vec<Update>) -> (r: Vec<Update>) ensures r@ == old(v)@, final(v)@.len() == 0 { core::mem::take(v) }
#[verifier::external_body] fn policy_bytes(p: Option<&[u8]>) -> Option<PolicyBytes> { unimplemented!() }
#[verifier::external_body] fn data_bytes(b: &[u8]) -> DataBytes { unimplemented!() }
pub struct LinearPerspective { pub facts: LinearFactPerspective, pub commands: Vec<CommandData>, pub current_updates: Vec<Update> }

/// facts visible through the prior (fact index / outer perspective): an arbitrary fixed function
pub uninterp spec fn prior_fact(n: Name, k: Keys) -> Option<Bytes>;
#[verifier::external_body]
fn prior_query(p: &FactPerspectivePrior, name: &Name, keys: &Keys) -> (r: Result<Option<Bytes>, StorageError>)
    ensures r is Ok ==> r->Ok_0 == (if p is None { None::<Bytes> } else { prior_fact(*name, *keys) })
{ unimplemented!() }

/// overlay entry for (n,k): None = not in the overlay; Some(None) = tombstone
pub open spec fn flat(m: Outer, n: Name, k: Keys) -> Option<Option<Bytes>> {
    if m@.contains_key(n) && m@[n]@.contains_key(k) { Some(m@[n]@[k]) } else { None }
}
/// flat-map model of one update, pointwise at (n,k): without a prior a delete removes the key,
/// with a prior it leaves a tombstone
pub open spec fn apply1(prev: Option<Option<Bytes>>, u: Update, pn: bool, n: Name, k: Keys) -> Option<Option<Bytes>> {
    if u.0 == n && u.1 == k { if pn && u.2 is None { None } else { Some(u.2) } } else { prev }
}
pub open spec fn apply_seq(prev: Option<Option<Bytes>>, us: Seq<Update>, pn: bool, n: Name, k: Keys) -> Option<Option<Bytes>>
    decreases us.len()
{
    if us.len() == 0 { prev } else { apply1(apply_seq(prev, us.drop_last(), pn, n, k), us.last(), pn, n, k) }
}
/// replaying the updates of a command sequence from an empty overlay, pointwise at (n,k)
pub open spec fn apply_cmds(cs: Seq<CommandData>, pn: bool, n: Name, k: Keys) -> Option<Option<Bytes>>
    decreases cs.len()
{
    if cs.len() == 0 { None } else { apply_seq(apply_cmds(cs.drop_last(), pn, n, k), cs.last().updates@, pn, n, k) }
}

// R8 helper (verified): entry(k).or_default()
fn entry_or_default<'a>(m: &'a mut Outer, k: Name) -> (r: &'a mut Inner)
    ensures
        old(m)@.contains_key(k) ==> *r == old(m)@[k],
        !old(m)@.contains_key(k) ==> r@ == Map::<Keys, Option<Bytes>>::empty(),
        final(m)@ == old(m)@.insert(k, *final(r)),
{
    if !m.contains_key(&k) { m.insert(k, BTreeMap::new()); }
    m.get_mut(&k).unwrap()
}
// R12 helper (verified)
fn get2<'a>(m: &'a Outer, name: &Name, keys: &Keys) -> (r: Option<&'a Option<Bytes>>)
    ensures r is Some == (flat(*m, *name, *keys) is Some), r is Some ==> *r->Some_0 == flat(*m, *name, *keys)->Some_0,
{
    match m.get(name) {
        Some(inner) => inner.get(keys),
        None => None,
    }
}

proof fn lemma_apply_seq_push(prev: Option<Option<Bytes>>, us: Seq<Update>, u: Update, pn: bool, n: Name, k: Keys)
    ensures apply_seq(prev, us.push(u), pn, n, k) == apply1(apply_seq(prev, us, pn, n, k), u, pn, n, k),
{
    assert(us.push(u).drop_last() =~= us);
}

impl LinearFactPerspective {
    pub open spec fn pn(&self) -> bool { self.prior is None }
    /// overlay entry at (n,k)
    pub open spec fn at(&self, n: Name, k: Keys) -> Option<Option<Bytes>> { flat(self.map, n, k) }
    /// what an exact query observes
    pub open spec fn q(&self, n: Name, k: Keys) -> Option<Bytes> {
        match flat(self.map, n, k) {
            Some(v) => v,
            None => if self.prior is None { None } else { prior_fact(n, k) },
        }
    }
}
impl LinearPerspective {
    #[verifier::external_body]
    pub fn head_address(&self) -> (r: Result<PriorAddress, StorageError>) { unimplemented!() }
    /// the fact overlay is exactly: the updates of every command, then the pending updates, applied in order
    pub open spec fn inv(&self) -> bool {
        forall|n: Name, k: Keys| #[trigger] self.facts.at(n, k)
            == apply_seq(apply_cmds(self.commands@, self.facts.pn(), n, k), self.current_updates@, self.facts.pn(), n, k)
    }
}
'''

IS_NONE = FnSpec(FILE, 'is_none', I_PR, contract='\n        ensures r == (self is None),\n')

FP_CLEAR = FnSpec(FILE, 'clear', I_FP, ret=None, contract='''
        ensures forall|n: Name, k: Keys| #[trigger] final(self).at(n, k) == None::<Option<Bytes>>, final(self).prior == old(self).prior,
''')

FP_INSERT = FnSpec(FILE, 'insert', I_FP_QM,
    sig_rewrites=[('name: String, keys: Keys, value: Bytes', 'name: Name, keys: Keys, value: Bytes', 1, 'R6')],
    rewrites=[('self.map.entry(name).or_default()', 'entry_or_default(&mut self.map, name)', 1, 'R8')],
    contract='''
        ensures r is Ok, final(self).prior == old(self).prior,
            forall|n: Name, k: Keys| #[trigger] final(self).at(n, k) == apply1(old(self).at(n, k), (name, keys, Some(value)), old(self).pn(), n, k),
            final(self).q(name, keys) == Some(value),
            forall|n: Name, k: Keys| (n, k) != (name, keys) ==> #[trigger] final(self).q(n, k) == old(self).q(n, k),
''')

FP_DELETE = FnSpec(FILE, 'delete', I_FP_QM,
    sig_rewrites=[('name: String, keys: Keys', 'name: Name, keys: Keys', 1, 'R6')],
    rewrites=[('self.map.entry(name).or_default()', 'entry_or_default(&mut self.map, name)', 1, 'R8')],
    contract='''
        ensures r is Ok, final(self).prior == old(self).prior,
            forall|n: Name, k: Keys| #[trigger] final(self).at(n, k) == apply1(old(self).at(n, k), (name, keys, None), old(self).pn(), n, k),
            // a deleted fact is never visible, whatever the prior holds
            final(self).q(name, keys) == None::<Bytes>,
            forall|n: Name, k: Keys| (n, k) != (name, keys) ==> #[trigger] final(self).q(n, k) == old(self).q(n, k),
''')

FP_QUERY = FnSpec(FILE, 'query', I_FP_Q,
    sig_rewrites=[('name: &str, keys: &[Bytes]', 'name: &Name, keys: &Keys', 1, 'R6')],
    rewrites=[('self.map.get(name).and_then(|m| m.get(keys))', 'get2(&self.map, name, keys)', 1, 'R12'),
              ('wrapped.as_deref().map(Bytes::from)', '*wrapped', 1, 'R16'),
              ('''match &self.prior {
            FactPerspectivePrior::None => Ok(None),
            FactPerspectivePrior::FactPerspective(prior) => prior.query(name, keys),
            FactPerspectivePrior::FactIndex { offset, reader } => {
                let repr: FactIndexRepr = reader.fetch(*offset)?;
                let prior = LinearFactIndex {
                    repr,
                    reader: reader.clone(),
                };
                prior.query(name, keys)
            }
        }''', 'prior_query(&self.prior, name, keys)', 1, 'R17')],
    contract='''
        ensures r is Ok ==> r->Ok_0 == self.q(*name, *keys),
''')

FP_APPLY = FnSpec(FILE, 'apply_updates', I_FP,
    sig_rewrites=[('updates: &[Update]', 'updates: &Vec<Update>', 1, 'R6 (slice -> Vec reference)')],
    rewrites=[
        ('for (name, keys, value) in updates {', '''for i in 0..updates.len()
            invariant
                self.prior == old(self).prior,
                forall|n: Name, k: Keys| #[trigger] self.at(n, k) == apply_seq(old(self).at(n, k), updates@.subrange(0, i as int), old(self).pn(), n, k),
        {
            let (name, keys, value) = (&updates[i].0, &updates[i].1, &updates[i].2);
            let ghost before = *self;
            proof {
                assert(updates@.subrange(0, i as int + 1).drop_last() =~= updates@.subrange(0, i as int));
                assert(updates@.subrange(0, i as int + 1).last() == updates@[i as int]);
            }''', 1, 'R14'),
        ('self.map.entry(name.clone()).or_default()', 'entry_or_default(&mut self.map, name.clone())', 2, 'R8'),
    ],
    contract='''
        ensures r is Ok, final(self).prior == old(self).prior,
            forall|n: Name, k: Keys| #[trigger] final(self).at(n, k) == apply_seq(old(self).at(n, k), updates@, old(self).pn(), n, k),
''',
    inserts=[
        ('before', 'Ok(())\n    }', '''proof { assert(updates@.subrange(0, updates@.len() as int) =~= updates@); }'''),
        ('after', '''                self.map
                    .entry(name.clone())
                    .or_default()
                    .insert(keys.clone(), value.clone());
            }'''.replace('self.map\n                    .entry(name.clone())\n                    .or_default()', 'entry_or_default(&mut self.map, name.clone())'),
         '''proof { assert forall|n: Name, k: Keys| #[trigger] self.at(n, k) == apply1(before.at(n, k), updates@[i as int], old(self).pn(), n, k) by {} }'''),
    ])

P_INSERT = FnSpec(FILE, 'insert', I_P_QM,
    sig_rewrites=[('name: String, keys: Keys, value: Bytes', 'name: Name, keys: Keys, value: Bytes', 1, 'R6')],
    contract='''
        requires old(self).inv(),
        ensures r is Ok, final(self).inv(), final(self).commands@ == old(self).commands@,
            final(self).current_updates@ == old(self).current_updates@.push((name, keys, Some(value))),
            final(self).facts.q(name, keys) == Some(value),
            forall|n: Name, k: Keys| (n, k) != (name, keys) ==> #[trigger] final(self).facts.q(n, k) == old(self).facts.q(n, k),
''',
    inserts=[('before', 'Ok(())\n    }', '''proof {
            assert forall|n: Name, k: Keys| #[trigger] final(self).facts.at(n, k)
                == apply_seq(apply_cmds(final(self).commands@, final(self).facts.pn(), n, k), final(self).current_updates@, final(self).facts.pn(), n, k) by {
                lemma_apply_seq_push(apply_cmds(old(self).commands@, old(self).facts.pn(), n, k), old(self).current_updates@, (name, keys, Some(value)), old(self).facts.pn(), n, k);
                assert(old(self).facts.at(n, k) == apply_seq(apply_cmds(old(self).commands@, old(self).facts.pn(), n, k), old(self).current_updates@, old(self).facts.pn(), n, k));
            }
        }''')])

P_DELETE = FnSpec(FILE, 'delete', I_P_QM,
    sig_rewrites=[('name: String, keys: Keys', 'name: Name, keys: Keys', 1, 'R6')],
    contract='''
        requires old(self).inv(),
        ensures r is Ok, final(self).inv(), final(self).commands@ == old(self).commands@,
            final(self).current_updates@ == old(self).current_updates@.push((name, keys, None)),
            final(self).facts.q(name, keys) == None::<Bytes>,
            forall|n: Name, k: Keys| (n, k) != (name, keys) ==> #[trigger] final(self).facts.q(n, k) == old(self).facts.q(n, k),
''',
    inserts=[('before', 'Ok(())\n    }', '''proof {
            assert forall|n: Name, k: Keys| #[trigger] final(self).facts.at(n, k)
                == apply_seq(apply_cmds(final(self).commands@, final(self).facts.pn(), n, k), final(self).current_updates@, final(self).facts.pn(), n, k) by {
                lemma_apply_seq_push(apply_cmds(old(self).commands@, old(self).facts.pn(), n, k), old(self).current_updates@, (name, keys, None), old(self).facts.pn(), n, k);
                assert(old(self).facts.at(n, k) == apply_seq(apply_cmds(old(self).commands@, old(self).facts.pn(), n, k), old(self).current_updates@, old(self).facts.pn(), n, k));
            }
        }''')])

P_CHECKPOINT = FnSpec(FILE, 'checkpoint', I_P_RV, contract='\n        ensures r.index == self.commands@.len(),\n')

P_REVERT = FnSpec(FILE, 'revert', I_P_RV,
    contract='''
        requires old(self).inv(),
        ensures
            r is Ok <==> checkpoint.index <= old(self).commands@.len(),
            // the commands are exactly those present at the checkpoint; the pending writes of a failed rule are gone;
            // the fact overlay is exactly the replay of the kept commands (= the overlay at the checkpoint, by `inv` then)
            r is Ok ==> final(self).inv()
                && final(self).commands@ == old(self).commands@.subrange(0, checkpoint.index as int)
                && final(self).current_updates@.len() == 0
                && final(self).facts.prior == old(self).facts.prior
                && (forall|n: Name, k: Keys| #[trigger] final(self).facts.at(n, k) == apply_cmds(old(self).commands@.subrange(0, checkpoint.index as int), old(self).facts.pn(), n, k)),
            r is Err ==> final(self).commands@ == old(self).commands@ && final(self).current_updates@ == old(self).current_updates@ && final(self).facts == old(self).facts,
''',
    rewrites=[
        ('''bug!(
                "A checkpoint's index should always be less than or equal to the length of a perspective's command history!"
            );''', 'return Err(StorageError::Bug);', 1, 'R15'),
        ('self.current_updates.is_empty()', 'self.current_updates.len() == 0', None, 'Vec::is_empty -> len()==0 (where present)'),
        # optional: the "drain the pending writes and drop their overlay entries" idiom, modelled exactly
        ('''for (name, keys, _) in self.current_updates.drain(..) {
                if let Some(kv) = self.facts.map.get_mut(&name) {
                    kv.remove(&keys);
                }
            }''', '''let drained = take_updates(&mut self.current_updates);
            for di in 0..drained.len()
                invariant
                    self.commands@ == old(self).commands@, self.current_updates@.len() == 0, self.facts.prior == old(self).facts.prior,
                    // exactly what this loop does: every (name, key) of a drained write has lost its overlay entry, nothing else changed
                    forall|n: Name, k: Keys| #[trigger] self.facts.at(n, k) ==
                        (if exists|j: int| 0 <= j < di && (#[trigger] drained@[j]).0 == n && drained@[j].1 == k { None::<Option<Bytes>> } else { old(self).facts.at(n, k) }),
            {
                let (name, keys, _) = drained[di];
                let ghost fb = self.facts;
                if let Some(kv) = self.facts.map.get_mut(&name) {
                    kv.remove(&keys);
                }
                proof {
                    assert forall|n: Name, k: Keys| #[trigger] self.facts.at(n, k) == (if n == name && k == keys { None::<Option<Bytes>> } else { fb.at(n, k) }) by {}
                    assert(drained@[di as int].0 == name && drained@[di as int].1 == keys);
                    assert forall|n: Name, k: Keys| #[trigger] self.facts.at(n, k) ==
                        (if exists|j: int| 0 <= j < di + 1 && (#[trigger] drained@[j]).0 == n && drained@[j].1 == k { None::<Option<Bytes>> } else { old(self).facts.at(n, k) }) by {
                        assert(fb.at(n, k) == (if exists|j: int| 0 <= j < di && (#[trigger] drained@[j]).0 == n && drained@[j].1 == k { None::<Option<Bytes>> } else { old(self).facts.at(n, k) }));
                        if n == name && k == keys {
                            assert(0 <= di < di + 1 && drained@[di as int].0 == n && drained@[di as int].1 == k);
                        } else {
                            if exists|j: int| 0 <= j < di + 1 && (#[trigger] drained@[j]).0 == n && drained@[j].1 == k {
                                let j = choose|j: int| 0 <= j < di + 1 && (#[trigger] drained@[j]).0 == n && drained@[j].1 == k;
                                assert(j < di);
                            }
                        }
                    }
                }
            }''', None, 'R29 (optional): `for .. in v.drain(..) { remove overlay entry }` -> index loop over the taken vector with its exact invariant'),
        ('for data in &self.commands {', '''for i in 0..self.commands.len()
            invariant
                self.commands@ == old(self).commands@.subrange(0, checkpoint.index as int),
                self.current_updates@.len() == 0,
                self.facts.prior == old(self).facts.prior,
                forall|n: Name, k: Keys| #[trigger] self.facts.at(n, k) == apply_cmds(self.commands@.subrange(0, i as int), old(self).facts.pn(), n, k),
        {
            let data = &self.commands[i];
            proof {
                assert(self.commands@.subrange(0, i as int + 1).drop_last() =~= self.commands@.subrange(0, i as int));
                assert(self.commands@.subrange(0, i as int + 1).last() == self.commands@[i as int]);
            }''', 1, 'R14'),
    ],
    inserts=[
        ('after?', 'if checkpoint.index == self.commands.len() && self.current_updates.len() == 0 {', '''proof {
                assert(self.commands@.subrange(0, checkpoint.index as int) =~= self.commands@);
                assert(self.current_updates@ =~= Seq::<Update>::empty());
            }'''),
        ('before', 'Ok(())\n    }', '''proof {
            assert(self.commands@.subrange(0, self.commands@.len() as int) =~= self.commands@);
            assert(self.current_updates@ =~= Seq::<Update>::empty());
        }'''),
    ])

I_P_P = r'impl<R: Read> Perspective for LinearPerspective<R>'
P_ADD = FnSpec(FILE, 'add_command', I_P_P,
    sig_rewrites=[('command: &impl Command', 'command: &Command', 1, 'R6')],
    contract="""
        requires old(self).inv(),
        ensures
            // the pending writes of the accepted command become that command's updates: the overlay does not change,
            // and it is still exactly the replay of the commands
            r is Ok ==> final(self).inv() && final(self).commands@.len() == old(self).commands@.len() + 1
                && final(self).commands@.subrange(0, old(self).commands@.len() as int) == old(self).commands@
                && final(self).commands@.last().updates@ == old(self).current_updates@
                && final(self).current_updates@.len() == 0 && final(self).facts == old(self).facts
                && r->Ok_0 == final(self).commands@.len(),
            r is Err ==> final(self).commands@ == old(self).commands@ && final(self).current_updates@ == old(self).current_updates@ && final(self).facts == old(self).facts,
""",
    rewrites=[
        ('command.policy().map(Bytes::from)', 'policy_bytes(command.policy())', 1, 'R16'),
        ('command.bytes().into()', 'data_bytes(command.bytes())', 1, 'R16'),
        ('core::mem::take(&mut self.current_updates)', 'take_updates(&mut self.current_updates)', 1, 'R30 (mem::take on a Vec)'),
    ],
    inserts=[
        ('before', 'Ok(self.commands.len())', """proof {
            let cs0 = old(self).commands@;
            let cs1 = self.commands@;
            assert(cs1.drop_last() =~= cs0);
            assert(cs1.subrange(0, cs0.len() as int) =~= cs0);
            assert(self.current_updates@ =~= Seq::<Update>::empty());
        }"""),
    ])


def build():
    return build_unit(PRELUDE, [
        ('impl FactPerspectivePrior', [IS_NONE]),
        ('impl LinearFactPerspective', [FP_CLEAR, FP_APPLY, FP_INSERT, FP_DELETE, FP_QUERY]),
        ('impl LinearPerspective', [P_INSERT, P_DELETE, P_CHECKPOINT, P_REVERT, P_ADD]),
    ])
