"""VX unit for C14 / C13: SessionPerspective {insert, delete, query, checkpoint, revert}
(crates/aranya-runtime/src/client/session.rs) over vstd's BTreeMap model.

Type shims (R6): String/&str -> Name, Keys/&[Bytes] -> Keys, Bytes -> Bytes (opaque ordered values, u64);
`Arc<BTreeMap<..>>` -> the map itself; `session: &mut Session` -> `session: Session`.
Rewrites (smallest sub-expressions, so edits around them are still verified as written):
  R8  `Arc::make_mut(&mut self.session.current_facts).entry(name).or_default()` -> `entry_or_default(&mut self.session.current_facts, name)` (verified helper)
  R12 `self.session.current_facts.get(name).and_then(|m| m.get(keys))` -> `get2(&self.session.current_facts, name, keys)` (verified helper)
  R13 `Arc::get_mut(&mut self.session.current_facts).map_or_else(BTreeMap::new, mem::take)` -> `BTreeMap::new()` (allocation reuse dropped; the map is cleared next)
  R14 `for (n, k, v) in self.session.fact_log.iter().cloned() {` -> index loop header + `let (n, k, v) = self.session.fact_log[i];`
  R15 `Arc::new(facts)` -> `facts`;  `bug!(..)` -> `return Err(StorageError::Bug)`
"""
from lib.vx import FnSpec, build_unit

FILE = 'crates/aranya-runtime/src/client/session.rs'

PRELUDE = r'''
use vstd::prelude::*;
use std::collections::BTreeMap;
verus! {
pub type Name = u64;
pub type Keys = u64;
pub type Bytes = u64;
pub type Inner = BTreeMap<Keys, Option<Bytes>>;
pub type Outer = BTreeMap<Name, Inner>;
pub type Update = (Name, Keys, Option<Bytes>);
pub enum StorageError { Bug, Other }
pub struct Checkpoint { pub index: usize }

/// committed facts under the session (external): an arbitrary fixed function
pub uninterp spec fn base(n: Name, k: Keys) -> Option<Bytes>;
pub struct BaseFacts { pub _p: () }
impl BaseFacts {
    #[verifier::external_body]
    pub fn query(&self, name: &Name, keys: &Keys) -> (r: Result<Option<Bytes>, StorageError>)
        ensures r is Ok ==> r->Ok_0 == base(*name, *keys)
    { unimplemented!() }
}

pub struct Session { pub fact_log: Vec<Update>, pub current_facts: Outer, pub base_facts: BaseFacts }
pub struct SessionPerspective { pub session: Session }

/// overlay entry for (n,k): None = not in the overlay; Some(None) = tombstone
pub open spec fn flat(m: Outer, n: Name, k: Keys) -> Option<Option<Bytes>> {
    if m@.contains_key(n) && m@[n]@.contains_key(k) { Some(m@[n]@[k]) } else { None }
}
/// what replaying a fact log from an empty overlay yields for (n,k)
pub open spec fn replay(log: Seq<Update>, n: Name, k: Keys) -> Option<Option<Bytes>>
    decreases log.len()
{
    if log.len() == 0 { None }
    else {
        let e = log.last();
        if e.0 == n && e.1 == k { Some(e.2) } else { replay(log.drop_last(), n, k) }
    }
}

// R8 helper (verified): entry(k).or_default()
fn entry_or_default<'a>(m: &'a mut Outer, k: Name) -> (r: &'a mut Inner)
    ensures
        old(m)@.contains_key(k) ==> *r == old(m)@[k],
        !old(m)@.contains_key(k) ==> r@ == Map::<Keys, Option<Bytes>>::empty(),
        final(m)@ == old(m)@.insert(k, *final(r)),
{
    if !m.contains_key(&k) { m.insert(k, BTreeMap::new()); }
    m.get_mut(&k).unwrap()
}
// R12 helper (verified): get(name).and_then(|m| m.get(keys))
fn get2<'a>(m: &'a Outer, name: &Name, keys: &Keys) -> (r: Option<&'a Option<Bytes>>)
    ensures r is Some == (flat(*m, *name, *keys) is Some), r is Some ==> *r->Some_0 == flat(*m, *name, *keys)->Some_0,
{
    match m.get(name) {
        Some(inner) => inner.get(keys),
        None => None,
    }
}

impl SessionPerspective {
    /// the overlay is exactly the replay of the fact log
    pub open spec fn inv(&self) -> bool {
        forall|n: Name, k: Keys| #[trigger] flat(self.session.current_facts, n, k) == replay(self.session.fact_log@, n, k)
    }
    /// what an exact query observes: the session's own writes over the committed facts
    pub open spec fn q(&self, n: Name, k: Keys) -> Option<Bytes> {
        match flat(self.session.current_facts, n, k) { Some(v) => v, None => base(n, k) }
    }
}
'''

INSERT = FnSpec(FILE, 'insert', r"impl<SP: StorageProvider, PS, MS> QueryMut for SessionPerspective<'_, SP, PS, MS>",
    sig_rewrites=[('name: String, keys: Keys, value: Bytes', 'name: Name, keys: Keys, value: Bytes', 1, 'R6')],
    contract='''
        requires old(self).inv(),
        ensures r is Ok, final(self).inv(),
            final(self).session.fact_log@ == old(self).session.fact_log@.push((name, keys, Some(value))),
            final(self).q(name, keys) == Some(value),
            forall|n: Name, k: Keys| (n, k) != (name, keys) ==> #[trigger] final(self).q(n, k) == old(self).q(n, k),
''',
    rewrites=[('Arc::make_mut(&mut self.session.current_facts).entry(name).or_default()', 'entry_or_default(&mut self.session.current_facts, name)', 1, 'R8')],
    inserts=[('before', 'Ok(())\n    }', '''proof {
            let l0 = old(self).session.fact_log@;
            let l1 = final(self).session.fact_log@;
            assert(l1.drop_last() =~= l0);
            assert forall|n: Name, k: Keys| #[trigger] flat(final(self).session.current_facts, n, k) == replay(l1, n, k) by {
                assert(flat(old(self).session.current_facts, n, k) == replay(l0, n, k));
            }
        }''')])

DELETE = FnSpec(FILE, 'delete', r"impl<SP: StorageProvider, PS, MS> QueryMut for SessionPerspective<'_, SP, PS, MS>",
    sig_rewrites=[('name: String, keys: Keys', 'name: Name, keys: Keys', 1, 'R6')],
    contract='''
        requires old(self).inv(),
        ensures r is Ok, final(self).inv(),
            final(self).session.fact_log@ == old(self).session.fact_log@.push((name, keys, None)),
            // a fact deleted by the session is not visible, whatever the committed facts hold
            final(self).q(name, keys) == None::<Bytes>,
            forall|n: Name, k: Keys| (n, k) != (name, keys) ==> #[trigger] final(self).q(n, k) == old(self).q(n, k),
''',
    rewrites=[('Arc::make_mut(&mut self.session.current_facts).entry(name).or_default()', 'entry_or_default(&mut self.session.current_facts, name)', 1, 'R8')],
    inserts=[('before', 'Ok(())\n    }', '''proof {
            let l0 = old(self).session.fact_log@;
            let l1 = final(self).session.fact_log@;
            assert(l1.drop_last() =~= l0);
            assert forall|n: Name, k: Keys| #[trigger] flat(final(self).session.current_facts, n, k) == replay(l1, n, k) by {
                assert(flat(old(self).session.current_facts, n, k) == replay(l0, n, k));
            }
        }''')])

QUERY = FnSpec(FILE, 'query', r"impl<SP, PS, MS> Query for SessionPerspective<'_, SP, PS, MS>",
    sig_rewrites=[('name: &str, keys: &[Bytes]', 'name: &Name, keys: &Keys', 1, 'R6')],
    contract='''
        ensures r is Ok ==> r->Ok_0 == self.q(*name, *keys),
''',
    rewrites=[('self.session.current_facts.get(name).and_then(|m| m.get(keys))', 'get2(&self.session.current_facts, name, keys)', 1, 'R12')])

CHECKPOINT = FnSpec(FILE, 'checkpoint', r"impl<SP, PS, MS> Revertable for SessionPerspective<'_, SP, PS, MS>",
    contract='\n        ensures r.index == self.session.fact_log@.len(),\n')

REVERT = FnSpec(FILE, 'revert', r"impl<SP, PS, MS> Revertable for SessionPerspective<'_, SP, PS, MS>",
    contract='''
        requires old(self).inv(),
        ensures
            r is Ok <==> checkpoint.index <= old(self).session.fact_log@.len(),
            r is Ok ==> final(self).inv()
                && final(self).session.fact_log@ == old(self).session.fact_log@.subrange(0, checkpoint.index as int),
            r is Err ==> final(self).session.fact_log@ == old(self).session.fact_log@ && final(self).session.current_facts == old(self).session.current_facts,
''',
    rewrites=[
        ('''bug!(
                "A checkpoint's index should always be less than or equal to the length of a session's fact log!"
            );''', 'return Err(StorageError::Bug);', 1, 'R15'),
        ('Arc::get_mut(&mut self.session.current_facts).map_or_else(BTreeMap::new, mem::take)', 'BTreeMap::new()', 1, 'R13'),
        ('for (n, k, v) in self.session.fact_log.iter().cloned() {', '''for i in 0..self.session.fact_log.len()
            invariant
                self.session.fact_log@ == old(self).session.fact_log@.subrange(0, checkpoint.index as int),
                forall|n: Name, k: Keys| #[trigger] flat(facts, n, k) == replay(self.session.fact_log@.subrange(0, i as int), n, k),
        {
            let (n, k, v) = self.session.fact_log[i];
            let ghost f0 = facts;
            proof {
                let l = self.session.fact_log@;
                assert(l.subrange(0, i as int + 1).drop_last() =~= l.subrange(0, i as int));
                assert(l.subrange(0, i as int + 1).last() == l[i as int]);
            }''', 1, 'R14'),
        ('facts.entry(n).or_default()', 'entry_or_default(&mut facts, n)', 1, 'R8'),
        ('self.session.current_facts = Arc::new(facts);', '''proof { assert(self.session.fact_log@.subrange(0, self.session.fact_log@.len() as int) =~= self.session.fact_log@); }
        self.session.current_facts = facts;''', 1, 'R15'),
    ],
    inserts=[
        ('after', 'entry_or_default(&mut facts, n).insert(k, v);', '''proof {
                let l = self.session.fact_log@;
                let l1 = l.subrange(0, i as int + 1);
                assert forall|n2: Name, k2: Keys| #[trigger] flat(facts, n2, k2) == replay(l1, n2, k2) by {
                    assert(flat(f0, n2, k2) == replay(l.subrange(0, i as int), n2, k2));
                }
            }'''),
        ('after', 'if checkpoint.index == self.session.fact_log.len() {', '''proof { assert(self.session.fact_log@.subrange(0, checkpoint.index as int) =~= self.session.fact_log@); }'''),
        ('after', 'facts.clear();', '''proof {
            assert forall|n: Name, k: Keys| #[trigger] flat(facts, n, k) == replay(self.session.fact_log@.subrange(0, 0), n, k) by {}
        }'''),
    ])

POSTLUDE = r'''
/// C13 for sessions: reverting to a checkpoint restores exactly the facts visible when it was taken
/// (the overlay is a function of the fact log, and the log is restored).
pub proof fn lemma_revert_restores_view(before: SessionPerspective, after: SessionPerspective)
    requires before.inv(), after.inv(), before.session.fact_log@ == after.session.fact_log@,
    ensures forall|n: Name, k: Keys| #[trigger] after.q(n, k) == before.q(n, k),
{
    assert forall|n: Name, k: Keys| #[trigger] after.q(n, k) == before.q(n, k) by {
        assert(flat(after.session.current_facts, n, k) == replay(after.session.fact_log@, n, k));
        assert(flat(before.session.current_facts, n, k) == replay(before.session.fact_log@, n, k));
    }
}
'''


def build():
    return build_unit(PRELUDE, [('impl SessionPerspective', [INSERT, DELETE, QUERY, CHECKPOINT, REVERT])], POSTLUDE)
