"""VX unit for C11: skip_target_boundaries (crates/aranya-runtime/src/storage/linear/mod.rs).
Rewrites: R4 `vec![]` -> `Vec::new()`. `.assume(..)?` is kept (BugExt shim). MaxCut is a u64 newtype shim (R6)."""
from lib.vx import FnSpec, build_unit

FILE = 'crates/aranya-runtime/src/storage/linear/mod.rs'

PRELUDE = r'''
use vstd::prelude::*;
verus! {
#[derive(Copy, Clone, PartialEq, Eq)]
pub struct MaxCut(pub u64);
impl MaxCut { pub const fn new(val: u64) -> (r: Self) ensures r.0 == val { Self(val) } }
pub enum StorageError { Bug }
pub const MIN_SKIP_GAP: u64 = 10;

pub trait BugExt<T>: Sized {
    spec fn as_opt(&self) -> Option<T>;
    fn assume(self, msg: &'static str) -> (r: Result<T, StorageError>)
        ensures (r is Ok) == (self.as_opt() is Some), r is Ok ==> r->Ok_0 == self.as_opt()->Some_0;
}
impl<T> BugExt<T> for Option<T> {
    open spec fn as_opt(&self) -> Option<T> { *self }
    fn assume(self, msg: &'static str) -> (r: Result<T, StorageError>)
    { match self { Some(v) => Ok(v), None => Err(StorageError::Bug) } }
}

pub open spec fn ascending(s: Seq<MaxCut>) -> bool { forall|i: int, j: int| 0 <= i < j < s.len() ==> (#[trigger] s[i]).0 < (#[trigger] s[j]).0 }
pub open spec fn in_range(s: Seq<MaxCut>, n: u64) -> bool { forall|i: int| 0 <= i < s.len() ==> 1 <= (#[trigger] s[i]).0 < n }
pub open spec fn below(s: Seq<MaxCut>, b: u64) -> bool { forall|i: int| 0 <= i < s.len() ==> (#[trigger] s[i]).0 < b }
/// each boundary halves the remaining gap to n
pub open spec fn halving(s: Seq<MaxCut>, n: u64) -> bool {
    forall|i: int| 0 <= i < s.len() - 1 ==> (#[trigger] s[i + 1]).0 == s[i].0 + (n - s[i].0) / 2 && n - s[i].0 > MIN_SKIP_GAP
}
'''

SKIP = FnSpec(FILE, 'skip_target_boundaries', contract='''
    ensures r is Ok,
        ascending(r->Ok_0@),
        in_range(r->Ok_0@, n),
        (r->Ok_0@.len() == 0) == (n < 2),
        r->Ok_0@.len() > 0 ==> r->Ok_0@[0].0 == n / 2,
        halving(r->Ok_0@, n),
        // the walk from the head to the last skip entry is within the cheap-walk threshold
        r->Ok_0@.len() > 0 ==> n - r->Ok_0@.last().0 <= MIN_SKIP_GAP,
''', rewrites=[('vec![]', 'Vec::new()', 1, 'R4')],
    inserts=[('after', 'while boundary > 0', '''
        invariant_except_break
            below(targets@, boundary),
            targets@.len() > 0 ==> boundary == targets@.last().0 + (n - targets@.last().0) / 2 && n - targets@.last().0 > MIN_SKIP_GAP,
        invariant
            boundary < n || n < 2,
            n < 2 ==> boundary == 0,
            ascending(targets@),
            in_range(targets@, n),
            halving(targets@, n),
            targets@.len() > 0 ==> targets@[0].0 == n / 2,
            targets@.len() == 0 ==> boundary == n / 2,
        ensures
            ascending(targets@),
            in_range(targets@, n),
            halving(targets@, n),
            (targets@.len() == 0) == (n < 2),
            targets@.len() > 0 ==> targets@[0].0 == n / 2,
            targets@.len() > 0 ==> n - targets@.last().0 <= MIN_SKIP_GAP,
        decreases n - boundary,''')])


def build():
    return build_unit(PRELUDE, [(None, [SKIP])])
