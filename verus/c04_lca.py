"""C04 / C03 / C02 — the last common ancestor the braid cuts at: `lca_pair` and `last_common_ancestor`
(crates/aranya-runtime/src/client/braiding.rs) and `Segment::previous` (storage/mod.rs), extracted,
over the graph axioms of the C11 unit (any graph size).

Proved: lca_pair terminates (the sum of the two max cuts strictly decreases) and returns a command of
the graph that is an ancestor-or-self of BOTH arguments, with no Bug exit on a rooted graph;
last_common_ancestor returns an ancestor-or-self of EVERY head, for any number of heads in any
order.  (The braid treats everything at or below this cut as shared history, so a result that is not
a common ancestor would drop commands from the merged fact state.)

Rewrites:
  R26 `trace!(..);` -> (dropped; tracing has no effect on state)
  R15 `bug!(..)` -> `return Err(ClientError::Bug)`
  R2' `segment.skip_list().last().copied()` -> `last_copied(segment.skip_list())` (verified helper)
  R25 `rest.iter().try_fold(*first, |lca, &h| lca_pair(storage, lca, h))` -> the equivalent loop
  R6  `<S: Storage>` / `&mut S` -> the abstract `Storage`; `location.max_cut.decremented()?` -> `checked_sub(1)?` (MaxCut is a u64 newtype)
  R5  `debug_assert_eq!(a, b)` -> `assert(a == b)`
"""
from lib.vx import FnSpec, build_unit

B = 'crates/aranya-runtime/src/client/braiding.rs'
M = 'crates/aranya-runtime/src/storage/mod.rs'

PRELUDE = r'''
use vstd::prelude::*;
verus! {
pub type MaxCut = u64;
pub type SegmentIndex = u64;
#[derive(Copy, Clone, Structural, PartialEq, Eq)]
pub struct Location { pub max_cut: MaxCut, pub segment: SegmentIndex }
pub enum ClientError { Bug, Storage }
#[derive(Copy, Clone)]
pub enum Prior<T> { None, Single(T), Merge(T, T) }
pub trait BugExt<T>: Sized {
    spec fn as_opt(&self) -> Option<T>;
    fn assume(self, msg: &'static str) -> (r: Result<T, ClientError>)
        ensures (r is Ok) == (self.as_opt() is Some), r is Ok ==> r->Ok_0 == self.as_opt()->Some_0;
}
impl<T> BugExt<T> for Option<T> {
    open spec fn as_opt(&self) -> Option<T> { *self }
    fn assume(self, msg: &'static str) -> (r: Result<T, ClientError>)
    { match self { Some(v) => Ok(v), None => Err(ClientError::Bug) } }
}

// ------------------------------------------------------------------ abstract graph (same axioms as unit c11_is_ancestor)
pub uninterp spec fn valid(l: Location) -> bool;
pub uninterp spec fn anc(a: Location, b: Location) -> bool;
pub open spec fn anc_eq(a: Location, b: Location) -> bool { a == b || anc(a, b) }
pub uninterp spec fn seg_first(s: SegmentIndex) -> MaxCut;
pub uninterp spec fn seg_last(s: SegmentIndex) -> MaxCut;
pub uninterp spec fn seg_priors(s: SegmentIndex) -> Seq<Location>;
pub uninterp spec fn seg_skips(s: SegmentIndex) -> Seq<Location>;
pub open spec fn first_loc(s: SegmentIndex) -> Location { Location { max_cut: seg_first(s), segment: s } }
pub proof fn ax_valid_range(l: Location)
    ensures valid(l) ==> seg_first(l.segment) <= l.max_cut <= seg_last(l.segment) && valid(first_loc(l.segment))
{ admit(); }
pub proof fn ax_valid_in_range(s: SegmentIndex, m: MaxCut)
    requires valid(first_loc(s)), seg_first(s) <= m <= seg_last(s) ensures valid(Location { max_cut: m, segment: s })
{ admit(); }
pub proof fn ax_anc(a: Location, b: Location)
    requires anc(a, b) ensures a.max_cut < b.max_cut, valid(b) ==> valid(a)
{ admit(); }
pub proof fn ax_trans(a: Location, b: Location, c: Location)
    requires anc(a, b), anc(b, c) ensures anc(a, c)
{ admit(); }
pub proof fn ax_in_segment(a: Location, b: Location)
    requires valid(a), valid(b), a.segment == b.segment ensures anc(a, b) <==> a.max_cut < b.max_cut
{ admit(); }
pub proof fn ax_priors(s: SegmentIndex, i: int)
    requires valid(first_loc(s)), 0 <= i < seg_priors(s).len()
    ensures valid(seg_priors(s)[i]), anc(seg_priors(s)[i], first_loc(s)), seg_priors(s)[i].segment != s, seg_priors(s).len() <= 2
{ admit(); }
/// A3 a command outside a segment is an ancestor of a command of that segment iff it is (an ancestor of or equal to) one of the segment's priors
pub proof fn ax_cross_segment(a: Location, b: Location)
    requires valid(a), valid(b), a.segment != b.segment
    ensures anc(a, b) <==> exists|i: int| 0 <= i < seg_priors(b.segment).len() && anc_eq(a, #[trigger] seg_priors(b.segment)[i])
{ admit(); }
/// A4 (second half) skip entries are spine nodes: every ancestor of the segment's first command whose max cut is not above theirs passes through them
pub proof fn ax_skip(s: SegmentIndex, i: int, a: Location)
    requires valid(first_loc(s)), 0 <= i < seg_skips(s).len()
    ensures anc(a, first_loc(s)) && a.max_cut <= seg_skips(s)[i].max_cut ==> anc_eq(a, seg_skips(s)[i])
{ admit(); }
/// e dominates x: e is an ancestor-or-self of x through which every ancestor-or-self of x with a max cut not above e's passes
pub open spec fn dominates(e: Location, x: Location) -> bool {
    anc_eq(e, x) && forall|a: Location| #![trigger anc_eq(a, x)] anc_eq(a, x) && a.max_cut <= e.max_cut ==> anc_eq(a, e)
}
/// skip entries are proper ancestors of the segment's first command (first half of A4)
pub proof fn ax_skip_anc(s: SegmentIndex, i: int)
    requires valid(first_loc(s)), 0 <= i < seg_skips(s).len()
    ensures valid(seg_skips(s)[i]), anc(seg_skips(s)[i], first_loc(s))
{ admit(); }
/// a merge segment records its LCA as the last skip entry (LinearStorage::build_skip_list: "always include the LCA for merge segments")
pub proof fn ax_merge_has_lca(s: SegmentIndex)
    requires valid(first_loc(s)), seg_priors(s).len() == 2 ensures seg_skips(s).len() > 0
{ admit(); }
/// A6 the graph is rooted: a segment without prior starts at the init command, which is an ancestor-or-self of every command
pub proof fn ax_root(s: SegmentIndex, x: Location)
    requires valid(first_loc(s)), seg_priors(s).len() == 0, valid(x) ensures anc_eq(first_loc(s), x)
{ admit(); }

pub open spec fn prior_seq(p: Prior<Location>) -> Seq<Location> {
    match p { Prior::None => seq![], Prior::Single(a) => seq![a], Prior::Merge(a, b) => seq![a, b] }
}
pub struct Segment { pub idx: SegmentIndex, pub priors: Prior<Location>, pub skips: Vec<Location>, pub first: MaxCut }
impl Segment {
    pub open spec fn wf(&self) -> bool {
        &&& valid(first_loc(self.idx))
        &&& self.skips@ == seg_skips(self.idx)
        &&& prior_seq(self.priors) == seg_priors(self.idx)
        &&& self.first == seg_first(self.idx)
    }
    pub fn index(&self) -> (r: SegmentIndex) ensures r == self.idx { self.idx }
    pub fn shortest_max_cut(&self) -> (r: MaxCut) ensures r == self.first { self.first }
    pub fn skip_list(&self) -> (r: &Vec<Location>) ensures r@ == self.skips@ { &self.skips }
    pub fn prior(&self) -> (r: Prior<Location>) ensures r == self.priors { self.priors }
}
fn last_copied(v: &Vec<Location>) -> (r: Option<Location>)
    ensures v@.len() == 0 ==> r is None, v@.len() > 0 ==> r == Some(v@[v@.len() - 1])
{ if v.len() == 0 { None } else { Some(v[v.len() - 1]) } }
pub struct Storage { pub _p: () }
impl Storage {
    #[verifier::external_body]
    pub fn get_segment(&mut self, l: Location) -> (r: Result<Segment, ClientError>)
        ensures valid(l) ==> r is Ok && r->Ok_0.idx == l.segment && r->Ok_0.wf()
    { unimplemented!() }
}
proof fn lemma_anc_eq_trans(a: Location, b: Location, c: Location)
    requires anc_eq(a, b), anc_eq(b, c) ensures anc_eq(a, c)
{ if a != b && b != c { ax_trans(a, b, c); } }
/// one backward step of lca_pair from `l` (inside segment `seg`): the new location is a valid proper ancestor
proof fn lemma_first_is_anc_eq(l: Location)
    requires valid(l) ensures valid(first_loc(l.segment)), anc_eq(first_loc(l.segment), l)
{
    ax_valid_range(l);
    if first_loc(l.segment) != l { ax_in_segment(first_loc(l.segment), l); }
}

/// `n` is a one-step cut below `c`: a proper ancestor of c that every ancestor of c with a max cut not above n's passes through
pub open spec fn step_cut(n: Location, c: Location) -> bool {
    anc(n, c) && forall|a: Location| #![trigger anc(a, c)] anc(a, c) && a.max_cut <= n.max_cut ==> anc_eq(a, n)
}
proof fn lemma_dom_step(n: Location, c: Location, x: Location)
    requires dominates(c, x), step_cut(n, c) ensures dominates(n, x)
{
    lemma_anc_eq_trans(n, c, x);
    ax_anc(n, c);
    assert forall|a: Location| #![trigger anc_eq(a, x)] anc_eq(a, x) && a.max_cut <= n.max_cut implies anc_eq(a, n) by {
        assert(anc_eq(a, c));
        assert(a != c);
        assert(anc(a, c));
    }
}
/// the previous command inside a segment
proof fn lemma_cut_prev(c: Location, n: Location)
    requires valid(c), n.segment == c.segment, n.max_cut + 1 == c.max_cut, seg_first(c.segment) <= n.max_cut
    ensures valid(n), step_cut(n, c)
{
    ax_valid_range(c);
    ax_valid_in_range(c.segment, n.max_cut);
    ax_in_segment(n, c);
    lemma_first_is_anc_eq(n);
    assert forall|a: Location| #![trigger anc(a, c)] anc(a, c) && a.max_cut <= n.max_cut implies anc_eq(a, n) by {
        ax_anc(a, c);
        if a.segment == c.segment {
            if a != n { ax_in_segment(a, n); }
        } else {
            ax_cross_segment(a, c);
            let i = choose|i: int| 0 <= i < seg_priors(c.segment).len() && anc_eq(a, #[trigger] seg_priors(c.segment)[i]);
            ax_priors(c.segment, i);
            lemma_anc_eq_trans(a, seg_priors(c.segment)[i], first_loc(c.segment));
            lemma_anc_eq_trans(a, first_loc(c.segment), n);
        }
    }
}
/// the single prior of a segment, seen from the segment's first command
proof fn lemma_cut_single(c: Location)
    requires valid(c), c == first_loc(c.segment), seg_priors(c.segment).len() == 1
    ensures step_cut(seg_priors(c.segment)[0], c)
{
    ax_priors(c.segment, 0);
    assert forall|a: Location| #![trigger anc(a, c)] anc(a, c) && a.max_cut <= seg_priors(c.segment)[0].max_cut implies anc_eq(a, seg_priors(c.segment)[0]) by {
        ax_anc(a, c);
        ax_valid_range(a);
        if a.segment != c.segment { ax_cross_segment(a, c); }
    }
}
/// the recorded LCA of a merge segment (its last skip entry), seen from the segment's first command: axiom A4 for that entry
proof fn lemma_cut_merge(c: Location)
    requires valid(c), c == first_loc(c.segment), seg_skips(c.segment).len() > 0
    ensures step_cut(seg_skips(c.segment)[seg_skips(c.segment).len() - 1], c)
{
    let li = seg_skips(c.segment).len() - 1;
    ax_skip_anc(c.segment, li);
    assert forall|a: Location| #![trigger anc(a, c)] anc(a, c) && a.max_cut <= seg_skips(c.segment)[li].max_cut implies anc_eq(a, seg_skips(c.segment)[li]) by {
        ax_skip(c.segment, li, a);
    }
}

// ------------------------------------------------------------------ skip-list construction (LinearStorage::build_skip_list)
pub type StorageError = ClientError;
pub const MIN_SKIP_GAP: u64 = 10;
pub struct LinearStorage { pub _p: () }
impl LinearStorage {
    #[verifier::external_body]
    pub fn get_segment(&self, l: Location) -> (r: Result<Segment, StorageError>)
        ensures valid(l) ==> r is Ok && r->Ok_0.idx == l.segment && r->Ok_0.wf()
    { unimplemented!() }
    /// heuristic only (whether a nearby ancestor already has a rich skip list): any answer is sound
    #[verifier::external_body]
    pub fn has_nearby_rich_anchor(&self, start: Location) -> (r: Result<bool, StorageError>) { unimplemented!() }
}
/// skip_target_boundaries: proved for every n in unit c11_skip_targets; which targets are chosen does not matter for soundness
#[verifier::external_body]
fn skip_target_boundaries(n: u64) -> (r: Result<Vec<MaxCut>, StorageError>) { unimplemented!() }
/// R2' helpers
fn last_mc(v: &Vec<MaxCut>) -> (r: Option<MaxCut>) ensures v@.len() == 0 ==> r is None, v@.len() > 0 ==> r == Some(v@[v@.len() - 1])
{ if v.len() == 0 { None } else { Some(v[v.len() - 1]) } }
/// `iter().copied().filter(|s| s.max_cut >= lo && s.max_cut < hi).min_by_key(|s| s.max_cut)`: some entry of the list in [lo, hi) (the smallest), if any
#[verifier::external_body]
fn best_skip(v: &Vec<Location>, lo: MaxCut, hi: MaxCut) -> (r: Option<Location>)
    ensures r is Some ==> lo <= r->Some_0.max_cut < hi && exists|i: int| 0 <= i < v@.len() && v@[i] == r->Some_0,
{ unimplemented!() }
fn contains_loc(v: &Vec<Location>, l: Location) -> (r: bool) ensures r == (exists|i: int| 0 <= i < v@.len() && v@[i] == l)
{
    let mut i: usize = 0;
    while i < v.len() invariant i <= v@.len(), forall|k: int| 0 <= k < i ==> v@[k] != l, decreases v@.len() - i,
    { if v[i] == l { return true; } i += 1; }
    false
}
fn opt_to_vec(o: Option<Location>) -> (r: Vec<Location>) ensures o is None ==> r@.len() == 0, o is Some ==> r@ == seq![o->Some_0]
{ let mut v = Vec::new(); if let Some(x) = o { v.push(x); } v }
/// `sort_by_key(max_cut)` then `dedup()`: same elements (as a set), order changed, adjacent duplicates dropped
#[verifier::external_body]
fn sort_dedup(v: &mut Vec<Location>)
    ensures forall|i: int| 0 <= i < final(v)@.len() ==> exists|j: int| 0 <= j < old(v)@.len() && old(v)@[j] == #[trigger] final(v)@[i],
        old(v)@.len() > 0 ==> final(v)@.len() > 0,
{ unimplemented!() }
proof fn lemma_dom_trans(n: Location, c: Location, x: Location)
    requires dominates(n, c), dominates(c, x) ensures dominates(n, x)
{
    lemma_anc_eq_trans(n, c, x);
    if n != c { ax_anc(n, c); }
    assert forall|a: Location| #![trigger anc_eq(a, x)] anc_eq(a, x) && a.max_cut <= n.max_cut implies anc_eq(a, n) by {
        assert(anc_eq(a, c));
    }
}
proof fn lemma_dom_refl(x: Location) ensures dominates(x, x)
{
    assert forall|a: Location| #![trigger anc_eq(a, x)] anc_eq(a, x) && a.max_cut <= x.max_cut implies anc_eq(a, x) by {}
}
/// the first command of the segment holding `c` dominates `c`
proof fn lemma_first_dominates(c: Location)
    requires valid(c) ensures valid(first_loc(c.segment)), dominates(first_loc(c.segment), c)
{
    lemma_first_is_anc_eq(c);
    let f = first_loc(c.segment);
    assert forall|a: Location| #![trigger anc_eq(a, c)] anc_eq(a, c) && a.max_cut <= f.max_cut implies anc_eq(a, f) by {
        if a != c {
            ax_anc(a, c);
            ax_valid_range(a);
            if a.segment == c.segment { if a != f { ax_in_segment(a, f); } }
            else {
                ax_cross_segment(a, c);
                let i = choose|i: int| 0 <= i < seg_priors(c.segment).len() && anc_eq(a, #[trigger] seg_priors(c.segment)[i]);
                ax_priors(c.segment, i);
                lemma_anc_eq_trans(a, seg_priors(c.segment)[i], f);
            }
        } else {
            ax_valid_range(c);
        }
    }
}
proof fn lemma_cut_dominates(n: Location, c: Location)
    requires step_cut(n, c) ensures dominates(n, c)
{
    ax_anc(n, c);
    assert forall|a: Location| #![trigger anc_eq(a, c)] anc_eq(a, c) && a.max_cut <= n.max_cut implies anc_eq(a, n) by {
        assert(a != c);
        assert(anc(a, c));
    }
}
/// any skip entry of a segment, seen from the segment's first command (axiom A4 for existing segments)
proof fn lemma_cut_skip(s: SegmentIndex, i: int)
    requires valid(first_loc(s)), 0 <= i < seg_skips(s).len()
    ensures valid(seg_skips(s)[i]), step_cut(seg_skips(s)[i], first_loc(s))
{
    ax_skip_anc(s, i);
    assert forall|a: Location| #![trigger anc(a, first_loc(s))] anc(a, first_loc(s)) && a.max_cut <= seg_skips(s)[i].max_cut implies anc_eq(a, seg_skips(s)[i]) by {
        ax_skip(s, i, a);
    }
}
/// what the new segment's commands have as ancestors, through its prior
pub open spec fn new_anc(a: Location, prior: Prior<Location>) -> bool {
    match prior { Prior::None => false, Prior::Single(l) => anc_eq(a, l), Prior::Merge(l, r) => anc_eq(a, l) || anc_eq(a, r) }
}
'''

PREVIOUS = FnSpec(M, 'previous', r'pub trait Segment\b', contract="""
        requires location.segment == self.idx, self.wf(), valid(location),
        ensures
            r is None <==> location.max_cut <= self.first,
            r is Some ==> r->Some_0 == (Location { max_cut: (location.max_cut - 1) as u64, segment: location.segment }),
""", rewrites=[
    ('debug_assert_eq!(location.segment, self.index());', 'assert(location.segment == self.idx);', 1, 'R5'),
    ('location.max_cut.decremented()?', 'location.max_cut.checked_sub(1)?', 1, 'R6'),
])

FIRST_LOC = FnSpec(M, 'first_location', r'pub trait Segment\b', contract="""
        ensures r == (Location { max_cut: self.first, segment: self.idx }),
""")

LCA_PAIR = FnSpec(B, 'lca_pair', attrs='#[verifier::spinoff_prover]',
    sig_rewrites=[('fn lca_pair<S: Storage>(', 'fn lca_pair(', 1, 'R6'), ('storage: &mut S,', 'storage: &mut Storage,', 1, 'R6')],
    contract="""
        requires valid(left), valid(right),
        ensures r is Ok, valid(r->Ok_0), anc_eq(r->Ok_0, left), anc_eq(r->Ok_0, right),
            // and it is a cut: no ancestor of either side at or below its max cut bypasses it
            // (this is what makes a merge segment's recorded LCA a valid skip entry — axiom A4 for that entry)
            dominates(r->Ok_0, left), dominates(r->Ok_0, right),
""",
    rewrites=[
        ('Some(previous) => *location = previous,', '''Some(previous) => {
                proof {
                    ax_valid_in_range(cur.segment, previous.max_cut);
                    ax_in_segment(previous, cur);
                    lemma_anc_eq_trans(previous, cur, cur0);
                    lemma_cut_prev(cur, previous);
                    lemma_dom_step(previous, cur, cur0);
                }
                *location = previous
            }''', 1, 'ghost proof block added inside the arm (the assignment is unchanged)'),
        ('trace!(%left, %right, "finding least common ancestor");', '', 1, 'R26'),
        ('bug!("found `Prior::None` before LCA")', 'return Err(ClientError::Bug)', 1, 'R15'),
        ("""segment
                        .skip_list()
                        .last()
                        .copied()""", 'last_copied(segment.skip_list())', 1, "R2'"),
    ],
    inserts=[
        ('before', 'let mut left_seg = storage.get_segment(left)?;', """let ghost left0 = left;
    let ghost right0 = right;"""),
        ('after', 'while left != right', """
        invariant
            valid(left), valid(right), anc_eq(left, left0), anc_eq(right, right0),
            dominates(left, left0), dominates(right, right0),
            left_seg.idx == left.segment, left_seg.wf(), right_seg.idx == right.segment, right_seg.wf(),
        decreases left.max_cut + right.max_cut,
"""),
        ('before', 'let (location, segment) = match left.max_cut > right.max_cut {', """let ghost l1 = left;
        let ghost r1 = right;
        let ghost cur = if left.max_cut > right.max_cut { left } else { right };
        let ghost other = if left.max_cut > right.max_cut { right } else { left };
        let ghost cur0 = if left.max_cut > right.max_cut { left0 } else { right0 };"""),
        ('before', 'match segment.previous(*location) {', """proof {
            assert(*location == cur && segment.idx == cur.segment && segment.wf());
            ax_valid_range(cur);
            lemma_first_is_anc_eq(cur);
        }"""),
        ('after', 'Some(previous) => *location = previous,', """""") if False else ('before', '*location = match segment.prior() {', """proof {
                    // no predecessor inside the segment: `cur` is the segment's first command
                    assert(cur == first_loc(cur.segment));
                    if seg_priors(cur.segment).len() == 0 {
                        // rooted graph: the init command is below everything, so the side that moves cannot be it
                        ax_root(cur.segment, other);
                        if cur != other { ax_anc(cur, other); }
                    } else if seg_priors(cur.segment).len() == 1 {
                        ax_priors(cur.segment, 0);
                        lemma_anc_eq_trans(seg_priors(cur.segment)[0], cur, cur0);
                        ax_anc(seg_priors(cur.segment)[0], cur);
                        lemma_cut_single(cur);
                        lemma_dom_step(seg_priors(cur.segment)[0], cur, cur0);
                    } else {
                        ax_priors(cur.segment, 0);
                        ax_merge_has_lca(cur.segment);
                        let li = seg_skips(cur.segment).len() - 1;
                        ax_skip_anc(cur.segment, li);
                        lemma_anc_eq_trans(seg_skips(cur.segment)[li], cur, cur0);
                        ax_anc(seg_skips(cur.segment)[li], cur);
                        lemma_cut_merge(cur);
                        lemma_dom_step(seg_skips(cur.segment)[li], cur, cur0);
                    }
                }"""),
    ])

LCA_N = FnSpec(B, 'last_common_ancestor', attrs='#[verifier::spinoff_prover]',
    sig_rewrites=[('fn last_common_ancestor<S: Storage>(', 'fn last_common_ancestor(', 1, 'R6'), ('storage: &mut S,', 'storage: &mut Storage,', 1, 'R6')],
    contract="""
        requires forall|i: int| 0 <= i < heads@.len() ==> valid(#[trigger] heads@[i]),
        ensures
            heads@.len() > 0 ==> r is Ok,
            r is Ok ==> valid(r->Ok_0) && forall|i: int| 0 <= i < heads@.len() ==> anc_eq(r->Ok_0, #[trigger] heads@[i]),
""",
    rewrites=[
        ('let (first, rest) = heads.split_first().assume("braid heads non-empty")?;',
         'let first = first_of(heads).assume("braid heads non-empty")?;', 1, 'R25 (split_first)'),
        ("""rest.iter()
        .try_fold(*first, |lca, &h| lca_pair(storage, lca, h))""",
         """let mut lca = first;
    let mut k: usize = 1;
    while k < heads.len()
        invariant
            1 <= k <= heads@.len(), valid(lca),
            forall|i: int| 0 <= i < heads@.len() ==> valid(#[trigger] heads@[i]),
            forall|i: int| 0 <= i < k ==> anc_eq(lca, #[trigger] heads@[i]),
        decreases heads@.len() - k,
    {
        let ghost prev = lca;
        lca = lca_pair(storage, lca, heads[k])?;
        proof {
            assert forall|i: int| 0 <= i < k + 1 implies anc_eq(lca, #[trigger] heads@[i]) by {
                if i < k { lemma_anc_eq_trans(lca, prev, heads@[i]); }
            }
        }
        k += 1;
    }
    Ok(lca)""", 1, 'R25 (try_fold over the remaining heads -> loop)'),
    ])

L = 'crates/aranya-runtime/src/storage/linear/mod.rs'
LI = r'impl<W: Write> LinearStorage<W>'

WALK = FnSpec(L, 'walk_collecting_skips', LI, attrs='#[verifier::spinoff_prover]',
    contract="""
        requires valid(start),
        ensures r is Ok ==> forall|i: int| 0 <= i < r->Ok_0@.len() ==> valid(#[trigger] r->Ok_0@[i]) && dominates(r->Ok_0@[i], start),
""",
    rewrites=[
        ('let mut skips = vec![];', 'let mut skips: Vec<Location> = Vec::new();', 1, 'R4'),
        ('while let Some(&t) = targets.last() {', 'while let Some(t) = last_mc(&targets)', 1, "R2' (loop header; the body follows)"),
        ('let Some(&next_target) = targets.last() else {', 'let Some(next_target) = last_mc(&targets) else {', 1, "R2'"),
        ("""let best = seg
                .skip_list()
                .iter()
                .copied()
                .filter(|s| s.max_cut >= next_target && s.max_cut < current.max_cut)
                .min_by_key(|s| s.max_cut);""", 'let best = best_skip(seg.skip_list(), next_target, current.max_cut);', 1, "R2'"),
    ],
    inserts=[
        ('after', 'loop', """
            invariant
                valid(start), valid(current), dominates(current, start),
                forall|i: int| 0 <= i < skips@.len() ==> valid(#[trigger] skips@[i]) && dominates(skips@[i], start),
            decreases current.max_cut,
"""),
        ('after', 'let seg_min = seg.shortest_max_cut();', """proof {
                lemma_first_dominates(current);
                lemma_dom_trans(first_loc(current.segment), current, start);
            }"""),
        ('after', 'while let Some(t) = last_mc(&targets)', """
                invariant
                    seg.idx == current.segment, seg.wf(), seg_min == seg.first,
                    valid(first_loc(current.segment)), dominates(first_loc(current.segment), start),
                    forall|i: int| 0 <= i < skips@.len() ==> valid(#[trigger] skips@[i]) && dominates(skips@[i], start),
                decreases targets@.len(),
            {"""),
        ('before', 'current = skip;', """proof {
                    let i = choose|i: int| 0 <= i < seg.skips@.len() && seg.skips@[i] == skip;
                    lemma_cut_skip(current.segment, i);
                    lemma_cut_dominates(skip, first_loc(current.segment));
                    lemma_dom_trans(skip, first_loc(current.segment), start);
                }"""),
        ('before', 'match seg.prior() {', """proof {
                if seg_priors(current.segment).len() == 1 {
                    let p = seg_priors(current.segment)[0];
                    lemma_cut_single(first_loc(current.segment));
                    lemma_cut_dominates(p, first_loc(current.segment));
                    lemma_dom_trans(p, first_loc(current.segment), start);
                    ax_priors(current.segment, 0);
                    ax_anc(p, first_loc(current.segment));
                    ax_valid_range(current);
                }
            }"""),
    ])

BUILD = FnSpec(L, 'build_skip_list', LI, attrs='#[verifier::spinoff_prover]',
    contract="""
        requires
            match prior {
                Prior::None => true,
                Prior::Single(l) => valid(l),
                // the LCA handed in for a merge is what lca_pair returns: a cut of both parents
                Prior::Merge(l, r) => valid(l) && valid(r) && last_common_ancestor is Some && valid(last_common_ancestor->Some_0)
                    && dominates(last_common_ancestor->Some_0, l) && dominates(last_common_ancestor->Some_0, r),
            },
        ensures
            // axiom A4 for the NEW segment (given A4 for the existing ones): every entry is an ancestor of the segment's
            // commands, and every such ancestor with a max cut not above the entry's passes through the entry
            r is Ok ==> forall|i: int| 0 <= i < r->Ok_0@.len() ==> valid(#[trigger] r->Ok_0@[i]) && new_anc(r->Ok_0@[i], prior)
                && forall|a: Location| #![trigger new_anc(a, prior)] new_anc(a, prior) && a.max_cut <= r->Ok_0@[i].max_cut ==> anc_eq(a, r->Ok_0@[i]),
            // a merge segment always records a skip entry (lca_pair jumps over merges through the last one; axiom ax_merge_has_lca)
            r is Ok && prior is Merge ==> r->Ok_0@.len() > 0,
""",
    rewrites=[
        ('Prior::None => return Ok(vec![]),', 'Prior::None => return Ok(Vec::new()),', 1, 'R4'),
        ('return Ok(lca.into_iter().collect());', 'return Ok(opt_to_vec(lca));', 1, "R2' (Option -> Vec)"),
        ("""if let Some(lca) = lca
            && !skips.contains(&lca)
        {
            skips.push(lca);
        }""", """if let Some(lca) = lca {
            if !contains_loc(&skips, lca) {
                skips.push(lca);
            }
        }""", 1, "R28 (let-chain -> nested if; Vec::contains -> verified helper)"),
        ("""skips.sort_by_key(|loc| loc.max_cut);
        skips.dedup();""", 'sort_dedup(&mut skips);', 1, "R2' (sort_by_key + dedup)"),
    ],
    inserts=[
        ('before', 'if self.has_nearby_rich_anchor(walk_start)? || n < MIN_SKIP_GAP {', """proof {
            lemma_dom_refl(walk_start);
            // whatever dominates walk_start satisfies A4 for the new segment
            assert forall|e: Location| #![trigger dominates(e, walk_start)] dominates(e, walk_start) implies
                new_anc(e, prior) && forall|a: Location| #![trigger new_anc(a, prior)] new_anc(a, prior) && a.max_cut <= e.max_cut ==> anc_eq(a, e) by {
                match prior {
                    Prior::Single(l) => {}
                    Prior::Merge(l, r) => {
                        lemma_anc_eq_trans(e, walk_start, l);
                        if e != walk_start { ax_anc(e, walk_start); }
                        assert forall|a: Location| #![trigger new_anc(a, prior)] new_anc(a, prior) && a.max_cut <= e.max_cut implies anc_eq(a, e) by {
                            assert(anc_eq(a, walk_start));
                        }
                    }
                    Prior::None => {}
                }
            }
        }"""),
    ])

POST = r'''
/// R25 helper: `heads.split_first()` first element
fn first_of(heads: &[Location]) -> (r: Option<Location>)
    ensures heads@.len() == 0 ==> r is None, heads@.len() > 0 ==> r == Some(heads@[0])
{ if heads.len() == 0 { None } else { Some(heads[0]) } }
'''


def build():
    return build_unit(PRELUDE + POST, [('impl Segment', [PREVIOUS, FIRST_LOC]), (None, [LCA_PAIR, LCA_N]), ('impl LinearStorage', [WALK, BUILD])])
