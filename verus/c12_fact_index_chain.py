"""C12 — committed fact indexes: LinearFactIndex::{query, query_prefix_inner} walk the chain of fact
indexes newest-first (crates/aranya-runtime/src/storage/linear/mod.rs), extracted, over vstd's BTreeMap model.

Reference semantics (flat map): chain_get(index, name, key) = the entry of the NEWEST index in the
chain that mentions (name, key) — a value or a tombstone — or nothing.  Proved for chains of any length:
  * query returns chain_get (a tombstone reads as absent);
  * query_prefix_inner returns exactly the keys with the prefix that some index in the chain mentions,
    each with its chain_get entry (so a newer value or tombstone always shadows older ones, and no key
    of an older index is dropped);
  * both terminate (the depth field strictly decreases along `prior`).

Type shims (R6): &str -> &Name, &[Bytes] / Keys -> Keys (opaque ordered values; `starts_with` is an
uninterpreted relation has_prefix), Box<[u8]> / Bytes -> Bytes.
Rewrites:
  R12 `facts.facts.get(name).and_then(|m| m.get(keys))` -> `get2(&facts.facts, name, keys)` (verified helper)
  R22 `facts.prior.map(|p| self.reader.fetch(p)).transpose()?` -> `fetch_prior(&self.reader, facts.prior)?`
      (external: Read::fetch returns the index stored at that offset)
  R14 `for (k, v) in find_prefixes(map, prefix) {` -> index loop over `prefix_pairs(map, prefix)` (external:
      exactly the entries of `map` whose key has the prefix, as find_prefixes' range + take_while yields them)
  R16 `v.map(Into::into)` -> `v` (borrowed bytes -> owned bytes; shim values are Copy)
"""
from lib.vx import FnSpec, build_unit

FILE = 'crates/aranya-runtime/src/storage/linear/mod.rs'

PRELUDE = r'''
use vstd::prelude::*;
use std::collections::BTreeMap;
verus! {
pub type Name = u64;
pub type Keys = u64;
pub type Bytes = u64;
pub type FactMap = BTreeMap<Keys, Option<Bytes>>;
pub type NamedFactMap = BTreeMap<Name, FactMap>;
pub enum StorageError { Bug, Other }
pub struct FactIndexRepr { pub offset: u64, pub prior: Option<u64>, pub depth: u64, pub facts: NamedFactMap }
pub struct Reader { pub _p: () }
pub struct LinearFactIndex { pub repr: FactIndexRepr, pub reader: Reader }

/// the fact index stored at a file offset
pub uninterp spec fn repr_at(off: u64) -> FactIndexRepr;
/// `prior` offsets lead to strictly shallower indexes (depth = prior.depth + 1, FactIndexRepr docs)
pub open spec fn links_ok(r: FactIndexRepr) -> bool { r.prior is Some ==> repr_at(r.prior->Some_0).depth < r.depth }
pub open spec fn chain_ok(r: FactIndexRepr) -> bool decreases r.depth {
    links_ok(r) && (r.prior is Some && repr_at(r.prior->Some_0).depth < r.depth ==> chain_ok(repr_at(r.prior->Some_0)))
}
/// R22: Read::fetch of the prior index
#[verifier::external_body]
fn fetch_prior(reader: &Reader, prior: Option<u64>) -> (r: Result<Option<FactIndexRepr>, StorageError>)
    ensures r is Ok ==> (prior is None ==> r->Ok_0 is None) && (prior is Some ==> r->Ok_0 == Some(repr_at(prior->Some_0)))
{ unimplemented!() }

pub open spec fn flat(m: NamedFactMap, n: Name, k: Keys) -> Option<Option<Bytes>> {
    if m@.contains_key(n) && m@[n]@.contains_key(k) { Some(m@[n]@[k]) } else { None }
}
/// newest-first lookup through the chain
pub open spec fn chain_get(r: FactIndexRepr, n: Name, k: Keys) -> Option<Option<Bytes>> decreases r.depth {
    match flat(r.facts, n, k) {
        Some(v) => Some(v),
        None => if r.prior is Some && repr_at(r.prior->Some_0).depth < r.depth { chain_get(repr_at(r.prior->Some_0), n, k) } else { None },
    }
}
// R12 helper (verified)
fn get2<'a>(m: &'a NamedFactMap, name: &Name, keys: &Keys) -> (r: Option<&'a Option<Bytes>>)
    ensures r is Some == (flat(*m, *name, *keys) is Some), r is Some ==> *r->Some_0 == flat(*m, *name, *keys)->Some_0,
{
    match m.get(name) {
        Some(inner) => inner.get(keys),
        None => None,
    }
}
pub uninterp spec fn has_prefix(k: Keys, p: Keys) -> bool;
/// R14: what find_prefixes(map, prefix) yields: exactly the entries whose key has the prefix (ascending; order not used here)
#[verifier::external_body]
fn prefix_pairs(map: &FactMap, prefix: &Keys) -> (r: Vec<(Keys, Option<Bytes>)>)
    ensures
        forall|i: int| 0 <= i < r@.len() ==> has_prefix((#[trigger] r@[i]).0, *prefix) && map@.contains_key(r@[i].0) && map@[r@[i].0] == r@[i].1,
        forall|k: Keys| has_prefix(k, *prefix) && #[trigger] map@.contains_key(k) ==> exists|i: int| 0 <= i < r@.len() && (#[trigger] r@[i]).0 == k,
{ unimplemented!() }


// ------------------------------------------------------------------ in-flight perspectives on top of a chain
impl Reader {
    /// Read::fetch of a fact index
    #[verifier::external_body]
    pub fn fetch(&self, off: u64) -> (r: Result<FactIndexRepr, StorageError>) ensures r is Ok ==> r->Ok_0 == repr_at(off) { unimplemented!() }
    #[verifier::external_body]
    pub fn clone(&self) -> (r: Self) { unimplemented!() }
}
pub enum FactPerspectivePrior {
    None,
    FactPerspective(Box<LinearFactPerspective>),
    FactIndex { offset: u64, reader: Reader },
}
pub struct LinearFactPerspective { pub map: NamedFactMap, pub prior: FactPerspectivePrior }
impl LinearFactPerspective {
    /// every committed index below this perspective is a well-formed chain
    pub open spec fn wf(&self) -> bool decreases self {
        match self.prior {
            FactPerspectivePrior::None => true,
            FactPerspectivePrior::FactPerspective(p) => p.wf(),
            FactPerspectivePrior::FactIndex { offset, reader } => chain_ok(repr_at(offset)),
        }
    }
    /// flat-map reference: the overlay entry if there is one, else whatever is below
    pub open spec fn get(&self, n: Name, k: Keys) -> Option<Option<Bytes>> decreases self {
        match flat(self.map, n, k) {
            Some(v) => Some(v),
            None => match self.prior {
                FactPerspectivePrior::None => None,
                FactPerspectivePrior::FactPerspective(p) => p.get(n, k),
                FactPerspectivePrior::FactIndex { offset, reader } => chain_get(repr_at(offset), n, k),
            },
        }
    }
}
'''

I_Q = r'impl<R: Read> Query for LinearFactIndex<R>'
I_I = r'impl<R: Read> LinearFactIndex<R>'

QUERY = FnSpec(
    FILE, 'query', I_Q,
    sig_rewrites=[('name: &str, keys: &[Bytes]', 'name: &Name, keys: &Keys', 1, 'R6')],
    contract="""
        requires chain_ok(self.repr),
        ensures r is Ok ==> r->Ok_0 == (match chain_get(self.repr, *name, *keys) { Some(v) => v, None => None::<Bytes> }),
""",
    rewrites=[
        ('facts.facts.get(name).and_then(|m| m.get(keys))', 'get2(&facts.facts, name, keys)', 1, 'R12'),
        ('slot = facts.prior.map(|p| self.reader.fetch(p)).transpose()?;', 'slot = fetch_prior(&self.reader, facts.prior)?;', 1, 'R22'),
    ],
    inserts=[
        ('after', 'while let Some(facts) = prior', """
            invariant
                prior is Some ==> chain_ok(*prior->Some_0) && chain_get(self.repr, *name, *keys) == chain_get(*prior->Some_0, *name, *keys),
                prior is None ==> chain_get(self.repr, *name, *keys) is None,
            ensures
                chain_get(self.repr, *name, *keys) is None,
            decreases (if prior is Some { prior->Some_0.depth + 1 } else { 0 }),
"""),
        ('before', 'slot = fetch_prior(&self.reader, facts.prior)?;', """proof {
                assert(chain_ok(*facts) && links_ok(*facts));
                assert(flat(facts.facts, *name, *keys) is None);
            }"""),
    ])

PREFIX = FnSpec(
    FILE, 'query_prefix_inner', I_I, attrs='#[verifier::spinoff_prover]',
    sig_rewrites=[('name: &str, prefix: &[Bytes]', 'name: &Name, prefix: &Keys', 1, 'R6')],
    contract="""
        requires chain_ok(self.repr),
        ensures r is Ok ==> forall|k: Keys| #![trigger r->Ok_0@.contains_key(k)]
            (r->Ok_0@.contains_key(k) <==> has_prefix(k, *prefix) && chain_get(self.repr, *name, k) is Some)
            && (r->Ok_0@.contains_key(k) ==> r->Ok_0@[k] == chain_get(self.repr, *name, k)->Some_0),
""",
    rewrites=[
        ('for (k, v) in find_prefixes(map, prefix) {', """let ps = prefix_pairs(map, prefix);
                for i in 0..ps.len()
                    invariant
                        cur.facts@.contains_key(*name), map@ == cur.facts@[*name]@,
                        forall|k: Keys| has_prefix(k, *prefix) && #[trigger] map@.contains_key(k) ==> exists|j: int| 0 <= j < ps@.len() && (#[trigger] ps@[j]).0 == k,
                        forall|j: int| 0 <= j < ps@.len() ==> has_prefix((#[trigger] ps@[j]).0, *prefix) && map@.contains_key(ps@[j].0) && map@[ps@[j].0] == ps@[j].1,
                        forall|k: Keys| #![trigger matches@.contains_key(k)] matches@.contains_key(k) <==>
                            (m0.contains_key(k) || exists|j: int| 0 <= j < i && (#[trigger] ps@[j]).0 == k),
                        forall|k: Keys| #![trigger matches@.contains_key(k)] matches@.contains_key(k) ==>
                            matches@[k] == (if m0.contains_key(k) { m0[k] } else { map@[k] }),
                {
                    let k = &ps[i].0;
                    let v = ps[i].1;""", 1, 'R14'),
        ('v.map(Into::into)', 'v', 1, 'R16'),
        ('slot = facts.prior.map(|p| self.reader.fetch(p)).transpose()?;', 'slot = fetch_prior(&self.reader, facts.prior)?;', 1, 'R22'),
    ],
    inserts=[
        ('after', 'while let Some(facts) = prior', """
            invariant
                prior is Some ==> chain_ok(*prior->Some_0),
                forall|k: Keys| #![trigger matches@.contains_key(k)] matches@.contains_key(k) ==> has_prefix(k, *prefix),
                // newest-first lookup = what has been collected, else whatever the rest of the chain says
                forall|k: Keys| #![trigger chain_get(self.repr, *name, k)] has_prefix(k, *prefix) ==> chain_get(self.repr, *name, k) ==
                    (if matches@.contains_key(k) { Some(matches@[k]) } else if prior is Some { chain_get(*prior->Some_0, *name, k) } else { None }),
            ensures
                forall|k: Keys| #![trigger matches@.contains_key(k)] matches@.contains_key(k) ==> has_prefix(k, *prefix),
                forall|k: Keys| #![trigger chain_get(self.repr, *name, k)] has_prefix(k, *prefix) ==> chain_get(self.repr, *name, k) ==
                    (if matches@.contains_key(k) { Some(matches@[k]) } else { None }),
            decreases (if prior is Some { prior->Some_0.depth + 1 } else { 0 }),
"""),
        ('before', 'if let Some(map) = facts.facts.get(name)', """let ghost m0 = matches@;
            let ghost cur = *facts;"""),
        ('before', 'slot = fetch_prior(&self.reader, facts.prior)?;', """proof {
                // after visiting `cur`: keys it mentions are collected (unless a newer index already had them), the others defer to its prior
                assert forall|k: Keys| has_prefix(k, *prefix) implies
                    (if m0.contains_key(k) { matches@.contains_key(k) && matches@[k] == m0[k] }
                     else if flat(cur.facts, *name, k) is Some { matches@.contains_key(k) && Some(matches@[k]) == flat(cur.facts, *name, k) }
                     else { !matches@.contains_key(k) }) by {
                    if m0.contains_key(k) { assert(matches@.contains_key(k)); assert(matches@[k] == m0[k]); }
                    else if flat(cur.facts, *name, k) is Some {
                        assert(cur.facts@.contains_key(*name)); assert(cur.facts@[*name]@.contains_key(k));
                        assert(matches@.contains_key(k)); assert(matches@[k] == cur.facts@[*name]@[k]);
                    }
                    else { assert(!matches@.contains_key(k)); }
                    if !cur.facts@.contains_key(*name) { assert(matches@ == m0); }
                }
            }"""),
    ])

I_FP = r'impl<R: Read> LinearFactPerspective<R>'
FP_PREFIX = FnSpec(
    FILE, 'query_prefix_inner', I_FP, attrs='#[verifier::spinoff_prover]',
    sig_rewrites=[('name: &str, prefix: &[Bytes]', 'name: &Name, prefix: &Keys', 1, 'R6')],
    contract="""
        requires self.wf(),
        ensures r is Ok ==> forall|k: Keys| #![trigger r->Ok_0@.contains_key(k)]
            (r->Ok_0@.contains_key(k) <==> has_prefix(k, *prefix) && self.get(*name, k) is Some)
            && (r->Ok_0@.contains_key(k) ==> r->Ok_0@[k] == self.get(*name, k)->Some_0),
        decreases self,
""",
    rewrites=[
        ('for (k, v) in find_prefixes(map, prefix) {', """let ps = prefix_pairs(map, prefix);
            for i in 0..ps.len()
                invariant
                    self.map@.contains_key(*name), map@ == self.map@[*name]@,
                    forall|k: Keys| has_prefix(k, *prefix) && #[trigger] map@.contains_key(k) ==> exists|j: int| 0 <= j < ps@.len() && (#[trigger] ps@[j]).0 == k,
                    forall|j: int| 0 <= j < ps@.len() ==> has_prefix((#[trigger] ps@[j]).0, *prefix) && map@.contains_key(ps@[j].0) && map@[ps@[j].0] == ps@[j].1,
                    forall|k: Keys| #![trigger matches@.contains_key(k)] matches@.contains_key(k) <==>
                        (m0.contains_key(k) || exists|j: int| 0 <= j < i && (#[trigger] ps@[j]).0 == k),
                    // later entries overwrite: an overlay key visited so far carries the overlay value
                    forall|k: Keys| #![trigger matches@.contains_key(k)] matches@.contains_key(k) ==>
                        matches@[k] == (if exists|j: int| 0 <= j < i && (#[trigger] ps@[j]).0 == k { map@[k] } else { m0[k] }),
            {
                let k = &ps[i].0;
                let v = ps[i].1;""", 1, 'R14'),
        ('v.map(Into::into)', 'v', 1, 'R16'),
    ],
    inserts=[
        ('before', 'if let Some(map) = self.map.get(name) {', """let ghost m0 = matches@;
        proof {
            // what came up from below is the reference lookup below the overlay
            assert forall|k: Keys| #![trigger m0.contains_key(k)] (m0.contains_key(k) <==> has_prefix(k, *prefix) && (match self.prior {
                    FactPerspectivePrior::None => None::<Option<Bytes>>,
                    FactPerspectivePrior::FactPerspective(p) => p.get(*name, k),
                    FactPerspectivePrior::FactIndex { offset, reader } => chain_get(repr_at(offset), *name, k),
                }) is Some) by {}
        }"""),
    ])


def build():
    return build_unit(PRELUDE, [('impl LinearFactIndex', [QUERY, PREFIX]), ('impl LinearFactPerspective', [FP_PREFIX])])
