"""C01/C02 — the convergence map of the braid (crates/aranya-runtime/src/client/convergence_map.rs), extracted.

What is proved, for maps of any size (any number of spilled blocks, any entry counts):
  * should_continue terminates: the spilled-block scan visits every root entry once (decreases clause);
  * when it falls through to `Ok(true)` no block in memory and no spilled block holds the location
    (the range test on a root entry never skips a block that holds it: every entry of a spilled block
    lies inside the [min_max_cut, max_max_cut] range recorded for it by spill_lru);
  * when it finds the location it returns consume_entry's answer for exactly that entry;
  * consume_entry: count > 1 -> Ok(false) and the count drops by one, nothing else changes;
    count <= 1 -> Ok(true) and the entry is removed (swap_remove), nothing else changes;
  * every operation keeps the structure well formed (indices in bounds — no panic, block ranges cover
    their entries, root entries describe what is on disk).

Rewrites (local; see repo_vs_verified.diff):
  R6   `MaxCut::new(x)` -> `x` (MaxCut is a u64 newtype), `<S: Storage>` parameter -> abstract `Storage`
  R2'  `self.entries.iter().position(|e| e.location == location)` -> `position_loc(&self.entries, location)`
  R14  `for (bi, block) in self.storage.blocks.iter().enumerate() {` -> index loop
  R21  `&data[..byte_len]` -> `data.prefix(byte_len)`; `StorageError::ConvergenceRootOverflow(..).into()` -> `ClientError::RootOverflow`
heapless::Vec is a std Vec plus an `is_full` capacity test (trait HeaplessOps); `&'a mut` fields of
ConvergenceMap are owned in the shim.  Block::to_bytes / load_from_bytes / Spill I/O (read_block_from_disk)
and advance_to are external: their contracts are assumed here; the codec round trip is unit c02_*_codec_* (Kani).
"""
from lib.vx import FnSpec, build_unit

FILE = 'crates/aranya-runtime/src/client/convergence_map.rs'

PRELUDE = r'''
use vstd::prelude::*;
verus! {
pub type MaxCut = u64;
pub type SegmentIndex = u64;
#[derive(Copy, Clone, Structural, PartialEq, Eq)]
pub struct Location { pub max_cut: MaxCut, pub segment: SegmentIndex }
pub enum ClientError { Bug, RootOverflow, Storage }
pub const ENTRY_BYTES: usize = 24;
pub const BLOCK_ENTRIES: usize = 256;
pub const NUM_BLOCKS: usize = 3;
pub const ROOT_CAPACITY: usize = 512;

pub trait BugExt<T>: Sized {
    spec fn as_opt(&self) -> Option<T>;
    fn assume(self, msg: &'static str) -> (r: Result<T, ClientError>)
        ensures (r is Ok) == (self.as_opt() is Some), r is Ok ==> r->Ok_0 == self.as_opt()->Some_0;
}
impl<T> BugExt<T> for Option<T> {
    open spec fn as_opt(&self) -> Option<T> { *self }
    fn assume(self, msg: &'static str) -> (r: Result<T, ClientError>)
    { match self { Some(v) => Ok(v), None => Err(ClientError::Bug) } }
}

#[derive(Copy, Clone)]
pub struct Entry { pub location: Location, pub count: usize }
#[derive(Copy, Clone)]
pub struct NodeEntry { pub min_max_cut: MaxCut, pub max_max_cut: MaxCut, pub file_offset: usize, pub num_entries: usize }

/// heapless::Vec capacity test on the std Vec that stands in for it
pub trait HeaplessOps { fn is_full(&self) -> (r: bool); }
impl HeaplessOps for Vec<Entry> { #[verifier::external_body] fn is_full(&self) -> (r: bool) { self.len() >= BLOCK_ENTRIES } }
impl HeaplessOps for Vec<NodeEntry> { #[verifier::external_body] fn is_full(&self) -> (r: bool) { self.len() >= ROOT_CAPACITY } }

pub struct Block { pub entries: Vec<Entry>, pub last_accessed: u32, pub min_max_cut: MaxCut, pub max_max_cut: MaxCut }
pub struct BlockBytes { pub ents: Ghost<Seq<Entry>> }
impl BlockBytes {
    #[verifier::external_body]
    pub fn prefix(&self, n: usize) -> (r: &BlockBytes) ensures r.ents@ == self.ents@ { unimplemented!() }
}
impl Block {
    /// every entry lies inside the recorded range
    pub open spec fn wf(&self) -> bool {
        forall|k: int| 0 <= k < self.entries@.len() ==> self.min_max_cut <= (#[trigger] self.entries@[k]).location.max_cut <= self.max_max_cut
    }
    pub open spec fn holds(&self, l: Location) -> bool {
        exists|k: int| 0 <= k < self.entries@.len() && (#[trigger] self.entries@[k]).location == l
    }
    /// Block::to_bytes (codec: Kani units c02_entry_codec_roundtrip / c02_block_codec_roundtrip_*)
    #[verifier::external_body]
    pub fn to_bytes(&self) -> (r: Result<BlockBytes, ClientError>) ensures r is Ok ==> r->Ok_0.ents@ == self.entries@ { unimplemented!() }
}
/// R2' helper: `iter().position(|e| e.location == location)`
fn position_loc(v: &Vec<Entry>, location: Location) -> (r: Option<usize>)
    ensures
        r is Some ==> r->Some_0 < v@.len() && v@[r->Some_0 as int].location == location,
        r is None ==> forall|k: int| 0 <= k < v@.len() ==> (#[trigger] v@[k]).location != location,
{
    let mut i: usize = 0;
    while i < v.len()
        invariant i <= v@.len(), forall|k: int| 0 <= k < i ==> (#[trigger] v@[k]).location != location,
        decreases v@.len() - i,
    {
        if v[i].location == location { return Some(i); }
        i += 1;
    }
    None
}

/// the spill file: file offset -> entries of the block written there
pub struct SpillFile { pub _p: () }
impl SpillFile {
    pub uninterp spec fn view(&self) -> Map<usize, Seq<Entry>>;
    #[verifier::external_body]
    pub fn write_at(&mut self, offset: usize, data: &BlockBytes) -> (r: Result<(), ClientError>)
        ensures r is Ok ==> final(self)@ == old(self)@.insert(offset, data.ents@), r is Err ==> final(self)@ == old(self)@,
    { unimplemented!() }
}
pub struct ConvergenceStorage { pub blocks: [Block; 3], pub root: Vec<NodeEntry> }
pub struct Queue { pub _p: () }
pub struct Storage { pub _p: () }
pub struct ConvergenceMap {
    pub storage: ConvergenceStorage,
    pub active_block: usize,
    pub queue: Queue,
    pub lca: Location,
    pub access_counter: u32,
    pub spill_file: SpillFile,
    pub next_file_offset: usize,
}
pub open spec fn node_ok(n: NodeEntry, f: Map<usize, Seq<Entry>>) -> bool {
    &&& f.contains_key(n.file_offset)
    &&& f[n.file_offset].len() == n.num_entries
    &&& forall|k: int| 0 <= k < f[n.file_offset].len() ==> n.min_max_cut <= (#[trigger] f[n.file_offset][k]).location.max_cut <= n.max_max_cut
}
pub open spec fn on_disk(n: NodeEntry, f: Map<usize, Seq<Entry>>, l: Location) -> bool {
    exists|k: int| 0 <= k < f[n.file_offset].len() && (#[trigger] f[n.file_offset][k]).location == l
}
impl ConvergenceMap {
    pub open spec fn wf(&self) -> bool {
        &&& self.active_block < NUM_BLOCKS
        &&& forall|b: int| 0 <= b < 3 ==> (#[trigger] self.storage.blocks[b]).wf()
        &&& forall|i: int| 0 <= i < self.storage.root@.len() ==> node_ok(#[trigger] self.storage.root@[i], self.spill_file@)
        &&& forall|i: int| 0 <= i < self.storage.root@.len() ==> (#[trigger] self.storage.root@[i]).file_offset < self.next_file_offset
    }
    /// no block in memory holds `l`
    pub open spec fn not_in_memory(&self, l: Location) -> bool {
        forall|b: int| 0 <= b < 3 ==> !(#[trigger] self.storage.blocks[b]).holds(l)
    }
    /// no spilled block with root index < upto holds `l`
    pub open spec fn not_on_disk(&self, l: Location, upto: int) -> bool {
        forall|i: int| 0 <= i < upto ==> !on_disk(#[trigger] self.storage.root@[i], self.spill_file@, l)
    }
    /// advance_to (BFS step; C21 queue contracts): may insert entries and spill; keeps the map well formed
    #[verifier::external_body]
    pub fn advance_to(&mut self, storage: &mut Storage, target_max_cut: MaxCut) -> (r: Result<(), ClientError>)
        requires old(self).wf(),
        ensures r is Ok ==> final(self).wf(), final(self).access_counter == old(self).access_counter,
    { unimplemented!() }
    /// read_block_from_disk: Spill::read_at + Block::load_from_bytes (codec: Kani units); rebuilds the range from the entries
    #[verifier::external_body]
    pub fn read_block_from_disk(&mut self, root_idx: usize) -> (r: Result<Block, ClientError>)
        requires root_idx < old(self).storage.root@.len(),
        ensures *final(self) == *old(self),
            r is Ok && old(self).spill_file@.contains_key(old(self).storage.root@[root_idx as int].file_offset)
                ==> r->Ok_0.entries@ == old(self).spill_file@[old(self).storage.root@[root_idx as int].file_offset] && r->Ok_0.wf(),
    { unimplemented!() }
}
'''

B = r'impl Block\b'
C = r"impl<'a, F: Spill> ConvergenceMap<'a, F>"

INSERT = FnSpec(FILE, 'insert', B, contract="""
        requires old(self).wf(),
        ensures final(self).wf(), final(self).entries@ == old(self).entries@.push(entry), final(self).last_accessed == old(self).last_accessed,
""")
FIND = FnSpec(FILE, 'find', B, contract="""
        ensures
            r is Some ==> r->Some_0 < self.entries@.len() && self.entries@[r->Some_0 as int].location == location,
            r is None ==> !self.holds(location),
""", rewrites=[('self.entries.iter().position(|e| e.location == location)', 'position_loc(&self.entries, location)', 1, "R2'")])
CLEAR = FnSpec(FILE, 'clear', B, ret=None, contract="""
        ensures final(self).entries@.len() == 0, final(self).wf(),
""", rewrites=[('MaxCut::new(u64::MAX)', 'u64::MAX', 1, 'R6'), ('MaxCut::new(0)', '0', 1, 'R6')])
IS_EMPTY = FnSpec(FILE, 'is_empty', B, contract="""
        ensures r == (self.entries@.len() == 0),
""")
IS_FULL = FnSpec(FILE, 'is_full', B, contract="")

LRU = FnSpec(FILE, 'lru_block', C, contract="""
        ensures r < NUM_BLOCKS,
""", inserts=[('after', 'for i in 1..NUM_BLOCKS', """
            invariant lru < NUM_BLOCKS,
""")])

INSERT_ENTRY = FnSpec(FILE, 'insert_entry', C, contract="""
        requires old(self).wf(),
        ensures r is Ok ==> final(self).wf(), final(self).access_counter == old(self).access_counter,
""")

SPILL = FnSpec(FILE, 'spill_lru', C, attrs='#[verifier::spinoff_prover]', contract="""
        requires old(self).wf(),
        ensures
            r is Ok ==> final(self).wf(),
            final(self).access_counter == old(self).access_counter,
            // nothing is lost and nothing appears: a location is held somewhere afterwards iff it was before
            r is Ok ==> forall|l: Location| #![trigger final(self).not_in_memory(l)]
                (old(self).not_in_memory(l) && old(self).not_on_disk(l, old(self).storage.root@.len() as int))
                <==> (final(self).not_in_memory(l) && final(self).not_on_disk(l, final(self).storage.root@.len() as int)),
            // existing root entries keep their index; at most one is appended
            r is Ok ==> old(self).storage.root@.len() <= final(self).storage.root@.len() <= old(self).storage.root@.len() + 1,
            r is Ok ==> forall|i: int| 0 <= i < old(self).storage.root@.len() ==> final(self).storage.root@[i] == old(self).storage.root@[i],
            r is Ok ==> final(self).storage.blocks[final(self).active_block as int].entries@.len() == 0,
            r is Ok ==> forall|b: int| 0 <= b < 3 && b != final(self).active_block ==> final(self).storage.blocks[b] == old(self).storage.blocks[b],
""", inserts=[
    ('after', 'let lru = self.lru_block();', """let ghost ents0 = self.storage.blocks[lru as int].entries@;
        let ghost f0 = self.spill_file@;
        let ghost root0 = self.storage.root@;"""),
    ('after', 'self.storage.blocks[lru].clear();\n        self.active_block = lru;', """proof {
            let f1 = self.spill_file@;
            let root1 = self.storage.root@;
            let nn = root1[root0.len() as int];
            assert(root1 == root0.push(nn));
            assert(f1 == f0.insert(nn.file_offset, ents0));
            assert forall|i: int| 0 <= i < root0.len() implies f1[(#[trigger] root1[i]).file_offset] == f0[root0[i].file_offset] && node_ok(root1[i], f1) by {
                assert(node_ok(root0[i], f0));
                assert(root0[i].file_offset < nn.file_offset);
            }
            assert(node_ok(nn, f1));
            assert forall|l: Location| #![trigger self.not_in_memory(l)]
                (old(self).not_in_memory(l) && old(self).not_on_disk(l, root0.len() as int))
                <==> (self.not_in_memory(l) && self.not_on_disk(l, root1.len() as int)) by {
                // the spilled block's entries moved to the new root entry; everything else is where it was
                assert(on_disk(nn, f1, l) <==> old(self).storage.blocks[lru as int].holds(l));
                assert(!self.storage.blocks[lru as int].holds(l));
                assert forall|i: int| 0 <= i < root0.len() implies (on_disk(#[trigger] root1[i], f1, l) <==> on_disk(root0[i], f0, l)) by {}
                if old(self).not_in_memory(l) && old(self).not_on_disk(l, root0.len() as int) {
                    assert forall|b: int| 0 <= b < 3 implies !(#[trigger] self.storage.blocks[b]).holds(l) by {
                        if b != lru { assert(self.storage.blocks[b] == old(self).storage.blocks[b]); }
                    }
                    assert forall|i: int| 0 <= i < root1.len() implies !on_disk(#[trigger] root1[i], f1, l) by {
                        if i < root0.len() { assert(!on_disk(root0[i], f0, l)); }
                    }
                }
                if self.not_in_memory(l) && self.not_on_disk(l, root1.len() as int) {
                    assert(!on_disk(root1[root0.len() as int], f1, l));
                    assert forall|b: int| 0 <= b < 3 implies !(#[trigger] old(self).storage.blocks[b]).holds(l) by {
                        if b != lru { assert(self.storage.blocks[b] == old(self).storage.blocks[b]); }
                    }
                    assert forall|i: int| 0 <= i < root0.len() implies !on_disk(#[trigger] root0[i], f0, l) by {
                        assert(!on_disk(root1[i], f1, l));
                    }
                }
            }
        }"""),
], rewrites=[
    ('&data[..byte_len]', 'data.prefix(byte_len)', 1, 'R21'),
    ('return Err(StorageError::ConvergenceRootOverflow(ROOT_CAPACITY).into());', 'return Err(ClientError::RootOverflow);', 1, 'R21'),
])

LOAD = FnSpec(FILE, 'load_block_from_disk', C, attrs='#[verifier::spinoff_prover]', contract="""
        requires old(self).wf(), root_idx < old(self).storage.root@.len(), loaded.wf(),
            loaded.entries@ == old(self).spill_file@[old(self).storage.root@[root_idx as int].file_offset],
        ensures
            r is Ok ==> final(self).wf(),
            r is Ok ==> r->Ok_0 < NUM_BLOCKS && final(self).storage.blocks[r->Ok_0 as int].entries@ == loaded.entries@,
            final(self).access_counter == old(self).access_counter,
""")

FIND_MEM = FnSpec(FILE, 'find_in_memory', C, contract="""
        ensures
            r is Some ==> r->Some_0.0 < NUM_BLOCKS && r->Some_0.1 < self.storage.blocks[r->Some_0.0 as int].entries@.len()
                && self.storage.blocks[r->Some_0.0 as int].entries@[r->Some_0.1 as int].location == location,
            r is None ==> self.not_in_memory(location),
""", rewrites=[('for (bi, block) in self.storage.blocks.iter().enumerate() {', """for bi in 0..NUM_BLOCKS
            invariant forall|b: int| 0 <= b < bi ==> !(#[trigger] self.storage.blocks[b]).holds(location),
        {
            let block = &self.storage.blocks[bi];""", 1, 'R14')])

CONSUME = FnSpec(FILE, 'consume_entry', C, contract="""
        requires old(self).wf(), block_idx < NUM_BLOCKS, entry_idx < old(self).storage.blocks[block_idx as int].entries@.len(),
        ensures
            final(self).wf(), r is Ok,
            ({
                let e0 = old(self).storage.blocks[block_idx as int].entries@;
                let e1 = final(self).storage.blocks[block_idx as int].entries@;
                // every arrival but the last is dropped and counted down; the last one continues and retires the entry
                if e0[entry_idx as int].count > 1 {
                    r->Ok_0 == false && e1 == e0.update(entry_idx as int, Entry { location: e0[entry_idx as int].location, count: (e0[entry_idx as int].count - 1) as usize })
                } else {
                    r->Ok_0 == true && e1.len() == e0.len() - 1
                        && (forall|k: int| 0 <= k < e1.len() && k != entry_idx ==> e1[k] == e0[k])
                        && (entry_idx < e1.len() ==> e1[entry_idx as int] == e0[e0.len() - 1])
                }
            }),
            forall|b: int| 0 <= b < 3 && b != block_idx ==> final(self).storage.blocks[b] == old(self).storage.blocks[b],
            final(self).storage.root@ == old(self).storage.root@, final(self).spill_file@ == old(self).spill_file@,
""")

SHOULD = FnSpec(FILE, 'should_continue', C, attrs='#[verifier::spinoff_prover]',
    sig_rewrites=[('pub fn should_continue<S: Storage>(', 'pub fn should_continue(', 1, 'R6'), ('storage: &mut S,', 'storage: &mut Storage,', 1, 'R6')],
    contract="""
        requires old(self).wf(),
        ensures r is Ok ==> final(self).wf(),
""",
    inserts=[
        ('after', 'if let Some((bi, ei)) = self.find_in_memory(location) {', """proof { assert(self.storage.blocks[bi as int].entries@[ei as int].location == location); }"""),
        ('after', 'while ri < self.storage.root.len()', """
                invariant
                    self.wf(), self.not_in_memory(location), self.not_on_disk(location, ri as int), ri <= self.storage.root@.len(),
                decreases self.storage.root@.len() - ri,
"""),
        ('before', 'let loaded = self.read_block_from_disk(ri)?;', """proof { assert(node_ok(self.storage.root@[ri as int], self.spill_file@)); }"""),
        ('before', 'let bi = self.load_block_from_disk(ri, loaded)?;', """let ghost found_loc = loaded.entries@[ei as int].location;
                        proof { assert(found_loc == location); }"""),
        ('after', 'let bi = self.load_block_from_disk(ri, loaded)?;', """proof { assert(self.storage.blocks[bi as int].entries@[ei as int].location == location); }"""),
        ('before', 'ri = ri.checked_add(1).assume("ri must not overflow")?;', """proof {
                    // root[ri] does not hold the location: either its range excludes the location's max cut
                    // (every entry of the block lies inside the range), or the block was read and searched
                    let n = self.storage.root@[ri as int];
                    assert(node_ok(n, self.spill_file@));
                    assert(!on_disk(n, self.spill_file@, location));
                }"""),
        ('before', 'Ok(true)', """proof {
            // fall through: the location is nowhere in the map
            assert(self.not_in_memory(location) && self.not_on_disk(location, self.storage.root@.len() as int));
        }"""),
    ])


# ConvergenceStorage::get — the reuse entry braid() calls (`braid_buf.convergence.get()`): every block and the
# root index are empty whatever an earlier (possibly aborted) braid left behind, so no stale convergence count
# or stale on-disk root entry can reach the new ConvergenceMap. No precondition.
G = r'impl ConvergenceStorage'
ST_GET = FnSpec(FILE, 'get', G, contract="""
        ensures r.root@.len() == 0,
            forall|k: int| 0 <= k < NUM_BLOCKS ==> (#[trigger] r.blocks[k]).entries@.len() == 0 && r.blocks[k].wf(),
            *final(r) == *final(self),
""", rewrites=[('for b in &mut self.blocks {\n            b.clear();\n        }', """let mut i: usize = 0;
        while i < NUM_BLOCKS
            invariant i <= NUM_BLOCKS,
                forall|k: int| 0 <= k < i ==> (#[trigger] self.blocks[k]).entries@.len() == 0 && self.blocks[k].wf(),
            decreases NUM_BLOCKS - i,
        {
            self.blocks[i].clear();
            i += 1;
        }""", 1, 'R14 (`for b in &mut self.blocks` -> index loop)')])


def build():
    return build_unit(PRELUDE, [('impl Block', [IS_FULL, IS_EMPTY, INSERT, FIND, CLEAR]),
                                ('impl ConvergenceStorage', [ST_GET]),
                                ('impl ConvergenceMap', [LRU, INSERT_ENTRY, SPILL, LOAD, FIND_MEM, CONSUME, SHOULD])])
