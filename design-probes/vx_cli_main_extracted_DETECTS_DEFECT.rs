use vstd::prelude::*;
verus! {

// ---- prelude: opaque external state and uninterpreted outcomes ----
pub struct Args { pub verbose: bool, pub no_validate: bool, pub stub_ffi: bool }
#[verifier::external_body] pub struct OutPath { _p: () }
#[verifier::external_body] pub struct PolicyStr { _p: () }
#[verifier::external_body] pub struct Policy { _p: () }
#[verifier::external_body] pub struct ParseError { _p: () }
#[verifier::external_body] pub struct CompileError { _p: () }
#[verifier::external_body] pub struct Module { _p: () }
#[verifier::external_body] pub struct Compiler { _p: () }
#[derive(PartialEq, Eq)] pub enum ExitCode { SUCCESS, FAILURE }

pub uninterp spec fn validation_failed(m: &Module) -> bool;

#[verifier::external_body] fn args_parse() -> Args { unimplemented!() }
#[verifier::external_body] fn out_path_of(a: &Args) -> OutPath { unimplemented!() }
#[verifier::external_body] fn read_input(a: &Args) -> PolicyStr { unimplemented!() }
#[verifier::external_body] fn parse_policy_document(s: &PolicyStr) -> Result<Policy, ParseError> { unimplemented!() }
#[verifier::external_body] fn compiler_new(ast: &Policy, stub_ffi: bool) -> Compiler { unimplemented!() }
#[verifier::external_body] fn compile(c: Compiler) -> Result<Module, CompileError> { unimplemented!() }
#[verifier::external_body] fn validate(m: &Module) -> (r: bool) ensures r == validation_failed(m) { unimplemented!() }
// writing the module is allowed only for a validated (or validation-disabled) module
#[verifier::external_body] fn write_module(p: OutPath, m: &Module, Ghost(no_validate): Ghost<bool>)
    requires no_validate || !validation_failed(m)
{ unimplemented!() }

// ---- extracted `main` (control flow verbatim; call sites rewritten per the table) ----
pub fn cli_main() -> ExitCode
{
    let args = args_parse();

    let out_path = out_path_of(&args);

    if args.verbose {
    }

    let policy_str = read_input(&args);
    let ast = match parse_policy_document(&policy_str) {
        Ok(a) => a,
        Err(e) => {
            return ExitCode::FAILURE;
        }
    };
    let compiler = compiler_new(&ast, args.stub_ffi);
    let module = match compile(compiler) {
        Ok(m) => m,
        Err(e) => {
            return ExitCode::FAILURE;
        }
    };

    if !args.no_validate && !validate(&module) {
        return ExitCode::FAILURE;
    }

    if args.stub_ffi {
        return ExitCode::SUCCESS;
    }

    write_module(out_path, &module, Ghost(args.no_validate));
    ExitCode::SUCCESS
}
}
fn main() {}
