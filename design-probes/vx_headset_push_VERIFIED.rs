use vstd::prelude::*;
verus! {

// R6: LocatedAddress re-declared; derived Ord abstracted as an uninterpreted strict total order.
#[derive(Copy, Clone, PartialEq, Eq)]
pub struct LocatedAddress { pub id: [u8; 32], pub segment: u64, pub max_cut: u64 }

pub uninterp spec fn la_lt(a: LocatedAddress, b: LocatedAddress) -> bool;

pub broadcast proof fn la_lt_total(a: LocatedAddress, b: LocatedAddress)
    ensures #[trigger] la_lt(a, b) || a == b || la_lt(b, a), !(la_lt(a, b) && la_lt(b, a)), !la_lt(a, a)
{ admit(); }
pub broadcast proof fn la_lt_trans(a: LocatedAddress, b: LocatedAddress, c: LocatedAddress)
    requires #[trigger] la_lt(a, b), #[trigger] la_lt(b, c) ensures la_lt(a, c)
{ admit(); }

pub open spec fn sorted(s: Seq<LocatedAddress>) -> bool {
    forall|i: int, j: int| 0 <= i < j < s.len() ==> la_lt(s[i], s[j])
}

// R7: std documented semantics of binary_search on a sorted slice.
#[verifier::external_body]
fn binary_search(v: &Vec<LocatedAddress>, x: &LocatedAddress) -> (r: Result<usize, usize>)
    requires sorted(v@),
    ensures
        r is Ok ==> r->Ok_0 < v@.len() && v@[r->Ok_0 as int] == *x,
        r is Err ==> r->Err_0 <= v@.len()
            && (forall|k: int| 0 <= k < r->Err_0 ==> la_lt(v@[k], *x))
            && (forall|k: int| r->Err_0 <= k < v@.len() ==> la_lt(*x, v@[k])),
{ v.binary_search_by(|_p| core::cmp::Ordering::Equal) }

pub struct HeadSet { pub heads: Vec<LocatedAddress> }

impl HeadSet {
    pub fn push(&mut self, head: LocatedAddress)
        requires sorted(old(self).heads@),
        ensures sorted(final(self).heads@),
            final(self).heads@.contains(head),
            forall|y: LocatedAddress| y != head ==> final(self).heads@.contains(y) == old(self).heads@.contains(y),
            final(self).heads@.len() == old(self).heads@.len() + if old(self).heads@.contains(head) { 0int } else { 1int },
    {
        broadcast use la_lt_total, la_lt_trans;
        if let Err(idx) = binary_search(&self.heads, &head) {
            self.heads.insert(idx, head);
            proof {
                let o = old(self).heads@;
                let f = final(self).heads@;
                assert(f == o.insert(idx as int, head));
                assert(f[idx as int] == head);
                // head was not present before: everything left is < head, everything right is > head
                assert(!o.contains(head)) by {
                    if o.contains(head) {
                        let k = choose|k: int| 0 <= k < o.len() && o[k] == head;
                        if k < idx { assert(la_lt(o[k], head)); } else { assert(la_lt(head, o[k])); }
                    }
                }
                assert forall|y: LocatedAddress| y != head implies f.contains(y) == o.contains(y) by {
                    if o.contains(y) {
                        let k = choose|k: int| 0 <= k < o.len() && o[k] == y;
                        if k < idx { assert(f[k] == y); } else { assert(f[k + 1] == y); }
                    }
                    if f.contains(y) {
                        let k = choose|k: int| 0 <= k < f.len() && f[k] == y;
                        if k < idx { assert(o[k] == y); } else { assert(k != idx as int); assert(o[k - 1] == y); }
                    }
                }
                // sortedness of the inserted sequence
                assert forall|i: int, j: int| 0 <= i < j < f.len() implies la_lt(f[i], f[j]) by {
                    if j < idx { } else if i > idx { assert(la_lt(o[i-1], o[j-1])); }
                    else if i == idx { assert(la_lt(head, o[j-1])); }
                    else if j == idx { assert(la_lt(o[i], head)); }
                    else { assert(la_lt(o[i], o[j-1])); }
                }
            }
        } else {
            proof {
                let o = old(self).heads@;
                // Ok(i): already present
                assert(o.contains(head));
            }
        }
    }
}
}
fn main() {}
