use vstd::prelude::*;
use vstd::multiset::Multiset;
verus! {

#[derive(Copy, Clone, PartialEq, Eq)]
pub struct Location { pub max_cut: u64, pub segment: u64 }
pub enum StorageError { Bug }

pub assume_specification<T> [<[T]>::swap] (s: &mut [T], a: usize, b: usize)
    requires a < old(s)@.len(), b < old(s)@.len(),
    ensures final(s)@ == old(s)@.update(a as int, old(s)@[b as int]).update(b as int, old(s)@[a as int]);

fn assume_some(x: Option<usize>) -> (r: Result<usize, StorageError>)
    ensures (r is Ok) == (x is Some), r is Ok ==> r->Ok_0 == x->Some_0
{ match x { Some(v) => Ok(v), None => Err(StorageError::Bug) } }

proof fn lemma_update_last_drop<T>(s: Seq<T>, i: int)
    requires 0 <= i < s.len(),
    ensures s.update(i, s.last()).drop_last().to_multiset() == s.to_multiset().remove(s[i]),
{
    broadcast use vstd::seq_lib::group_seq_properties, vstd::seq_lib::group_to_multiset_ensures;
    let t = s.update(i, s.last());
    vstd::seq_lib::to_multiset_update(s, i, s.last());
    assert(t.drop_last().push(t.last()) =~= t);
    vstd::seq_lib::to_multiset_build(t.drop_last(), t.last());
    let d = t.drop_last().to_multiset();
    let a = s.to_multiset();
    assert(d =~= d.insert(t.last()).remove(t.last()));
    assert(a.count(s[i]) > 0) by { assert(s.to_multiset().contains(s[i])); }
    assert forall|v: T| d.count(v) == a.remove(s[i]).count(v) by {
        assert(d.insert(t.last()).count(v) == a.insert(s.last()).remove(s[i]).count(v));
    }
    assert(d =~= a.remove(s[i]));
}


pub open spec fn loc_le(a: Location, b: Location) -> bool {
    a.max_cut < b.max_cut || (a.max_cut == b.max_cut && a.segment <= b.segment)
}
fn loc_cmp_le(a: Location, b: Location) -> (r: bool) ensures r == loc_le(a, b) {
    a.max_cut < b.max_cut || (a.max_cut == b.max_cut && a.segment <= b.segment)
}
// R3 helper: std `max_by_key(|l| *l)` returns the LAST maximal element
fn argmax_last(v: &Vec<Location>) -> (r: Option<usize>)
    ensures
        r is None <==> v@.len() == 0,
        r is Some ==> r->Some_0 < v@.len()
            && (forall|k: int| 0 <= k < v@.len() ==> loc_le(v@[k], v@[r->Some_0 as int]))
            && (forall|k: int| r->Some_0 < k < v@.len() ==> (#[trigger] v@[k]) != v@[r->Some_0 as int]),
{
    if v.len() == 0 { return None; }
    let mut best: usize = 0;
    let mut i: usize = 1;
    while i < v.len()
        invariant 1 <= i <= v@.len(), best < i,
            forall|k: int| 0 <= k < i ==> loc_le(v@[k], v@[best as int]),
            forall|k: int| best < k < i ==> (#[trigger] v@[k]) != v@[best as int],
        decreases v@.len() - i,
    {
        if loc_cmp_le(v[best], v[i]) { best = i; }
        i += 1;
    }
    Some(best)
}

pub struct TraversalQueue { pub entries: Vec<Location>, pub partition: usize }

impl TraversalQueue {
    pub open spec fn wf(&self) -> bool { self.partition <= self.entries@.len() }
    pub open spec fn useq(&self) -> Seq<Location> { self.entries@.subrange(0, self.partition as int) }
    pub open spec fn cseq(&self) -> Seq<Location> { self.entries@.subrange(self.partition as int, self.entries@.len() as int) }
    pub open spec fn u(&self) -> Multiset<Location> { self.useq().to_multiset() }
    pub open spec fn c(&self) -> Multiset<Location> { self.cseq().to_multiset() }

    fn remove_uncovered(&mut self, i: usize) -> (r: Result<Location, StorageError>)
        requires old(self).wf(), i < old(self).partition,
        ensures final(self).wf(), r is Ok,
            r->Ok_0 == old(self).entries@[i as int],
            final(self).partition == old(self).partition - 1,
            final(self).u() == old(self).u().remove(r->Ok_0),
            final(self).c() == old(self).c(),
            old(self).u().count(r->Ok_0) > 0,
    {
        self.partition = assume_some(self
            .partition
            .checked_sub(1))?;
        self.entries.swap(i, self.partition);
        let r = self.entries.swap_remove(self.partition);
        proof {
            let o = old(self).entries@;
            let p = old(self).partition as int;
            let n = o.len() as int;
            let ou = old(self).useq();
            let oc = old(self).cseq();
            // uncovered part: ou with slot i overwritten by its last element, last dropped
            assert(final(self).useq() =~= ou.update(i as int, ou.last()).drop_last());
            lemma_update_last_drop(ou, i as int);
            assert(ou.to_multiset().count(ou[i as int]) > 0) by { broadcast use vstd::seq_lib::group_to_multiset_ensures; assert(ou.to_multiset().contains(ou[i as int])); }
            // covered part: oc with slot 0..: after swap_remove(p-1) the old last covered entry moves to p-1
            // as a multiset the covered part is unchanged
            let fc = final(self).cseq();
            if n == p {
                assert(fc =~= oc);
            } else {
                // fc = [o[n-1]] ++ o[p .. n-1)
                assert(fc =~= seq![oc.last()] + oc.drop_last());
                assert(oc =~= oc.drop_last().push(oc.last()));
                vstd::seq_lib::to_multiset_build(oc.drop_last(), oc.last());
                vstd::seq_lib::lemma_multiset_commutative(seq![oc.last()], oc.drop_last());
                broadcast use vstd::seq_lib::group_seq_properties, vstd::seq_lib::group_to_multiset_ensures;
                assert((seq![oc.last()]).to_multiset() =~= Multiset::singleton(oc.last())) by {
                    vstd::seq_lib::to_multiset_build(Seq::<Location>::empty(), oc.last());
                    assert(Seq::<Location>::empty().push(oc.last()) =~= seq![oc.last()]);
                }
                assert(fc.to_multiset() =~= oc.to_multiset());
            }
        }
        Ok(r)
    }

    pub fn pop_covered(&mut self) -> (r: Result<Option<(Location, bool)>, StorageError>)
        requires old(self).wf(),
        ensures final(self).wf(), r is Ok,
            r->Ok_0 is None <==> old(self).entries@.len() == 0,
            r->Ok_0 is Some ==> ({
                let (x, cov) = r->Ok_0->Some_0;
                &&& (forall|k: int| 0 <= k < old(self).entries@.len() ==> loc_le(old(self).entries@[k], x))
                &&& (cov ==> final(self).c() == old(self).c().remove(x) && final(self).u() == old(self).u() && old(self).c().count(x) > 0)
                &&& (!cov ==> final(self).u() == old(self).u().remove(x) && final(self).c() == old(self).c() && old(self).u().count(x) > 0)
            }),
    {
        let Some(i) = argmax_last(&self.entries) else {
            return Ok(None);
        };
        if i < self.partition {
            Ok(Some((self.remove_uncovered(i)?, false)))
        } else {
            // Removing from covered region: swap_remove is fine.
            let loc = self.entries.swap_remove(i);
            proof {
                let oc = old(self).cseq();
                let j = i as int - old(self).partition as int;
                assert(final(self).cseq() =~= oc.update(j, oc.last()).drop_last());
                lemma_update_last_drop(oc, j);
                assert(final(self).useq() =~= old(self).useq());
                assert(oc.to_multiset().count(oc[j]) > 0) by { broadcast use vstd::seq_lib::group_to_multiset_ensures; assert(oc.to_multiset().contains(oc[j])); }
            }
            Ok(Some((loc, true)))
        }
    }
}
}
fn main() {}
