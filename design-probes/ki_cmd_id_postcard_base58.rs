// PROBE (throw-away), appended to aranya-runtime/src/command.rs in a scratch copy. Not part of the machinery.
#[cfg(kani)]
mod verif_kani {
    use super::*;

    #[kani::proof]
    #[kani::unwind(40)]
    fn cmd_id_postcard_roundtrip() {
        let bytes: [u8; 32] = kani::any();
        let id = CmdId::from_bytes(bytes);
        let mut buf = [0u8; 40];
        let used = match postcard::to_slice(&id, &mut buf) { Ok(u) => u.len(), Err(_) => { assert!(false); return; } };
        assert!(used == 33);
        let back: Result<CmdId, _> = postcard::from_bytes(&buf[..used]);
        assert!(matches!(back, Ok(x) if x == id));
        // wrong length prefix is rejected
        let mut bad = buf; bad[0] = 31;
        let r2: Result<CmdId, _> = postcard::from_bytes(&bad[..32]);
        assert!(r2.is_err());
    }

    #[kani::proof]
    #[kani::unwind(50)]
    fn cmd_id_base58_roundtrip() {
        use spideroak_base58::ToBase58 as _;
        let bytes: [u8; 32] = kani::any();
        let id = CmdId::from_bytes(bytes);
        let s = id.to_base58();
        let back = CmdId::decode(&*s);
        assert!(matches!(back, Ok(x) if x == id));
    }
}
