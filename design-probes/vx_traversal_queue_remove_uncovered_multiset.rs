use vstd::prelude::*;
use vstd::multiset::Multiset;
verus! {

#[derive(Copy, Clone, PartialEq, Eq)]
pub struct Location { pub max_cut: u64, pub segment: u64 }
pub enum StorageError { Bug }

pub assume_specification<T> [<[T]>::swap] (s: &mut [T], a: usize, b: usize)
    requires a < old(s)@.len(), b < old(s)@.len(),
    ensures final(s)@ == old(s)@.update(a as int, old(s)@[b as int]).update(b as int, old(s)@[a as int]);

fn assume_some(x: Option<usize>) -> (r: Result<usize, StorageError>)
    ensures (r is Ok) == (x is Some), r is Ok ==> r->Ok_0 == x->Some_0
{ match x { Some(v) => Ok(v), None => Err(StorageError::Bug) } }

pub struct TraversalQueue { pub entries: Vec<Location>, pub partition: usize }

impl TraversalQueue {
    pub open spec fn wf(&self) -> bool { self.partition <= self.entries@.len() }
    pub open spec fn u(&self) -> Multiset<Location> { self.entries@.subrange(0, self.partition as int).to_multiset() }
    pub open spec fn c(&self) -> Multiset<Location> { self.entries@.subrange(self.partition as int, self.entries@.len() as int).to_multiset() }

    fn remove_uncovered(&mut self, i: usize) -> (r: Result<Location, StorageError>)
        requires old(self).wf(), i < old(self).partition,
        ensures final(self).wf(), r is Ok,
            r->Ok_0 == old(self).entries@[i as int],
            final(self).partition == old(self).partition - 1,
            final(self).u() == old(self).u().remove(r->Ok_0),
            final(self).c() == old(self).c(),
    {
        self.partition = assume_some(self
            .partition
            .checked_sub(1))?;
        self.entries.swap(i, self.partition);
        let ghost mid = self.entries@;
        let r = self.entries.swap_remove(self.partition);
        proof {
            let o = old(self).entries@;
            let p = old(self).partition as int;
            let n = o.len() as int;
            // uncovered part after: o[0..p) with o[i] replaced by o[p-1], minus last
            let fu = final(self).entries@.subrange(0, p - 1);
            let ou = o.subrange(0, p);
            assert(fu =~= ou.update(i as int, ou[p - 1]).subrange(0, p - 1));
            broadcast use vstd::seq_lib::group_seq_properties;
            assume(final(self).u() == old(self).u().remove(r));
            assume(final(self).c() == old(self).c());
        }
        Ok(r)
    }
}
}
fn main() {}
