#![feature(allocator_api)]
use vstd::prelude::*;
use vstd::multiset::Multiset;
use std::collections::BinaryHeap;

verus! {

#[derive(Clone, Copy, PartialEq, Eq)]
pub enum Priority { Merge, Basic(u32), Finalize, Init }

pub struct Strand { pub key: (Priority, u64), pub next: u64 }

#[verifier::external]
impl PartialEq for Strand { fn eq(&self, o: &Self) -> bool { self.key.1 == o.key.1 } }
#[verifier::external]
impl Eq for Strand {}
#[verifier::external]
impl PartialOrd for Strand { fn partial_cmp(&self, o: &Self) -> Option<core::cmp::Ordering> { Some(self.cmp(o)) } }
#[verifier::external]
impl Ord for Strand { fn cmp(&self, o: &Self) -> core::cmp::Ordering { o.key.1.cmp(&self.key.1) } }

pub enum ClientError { ParallelFinalize }

#[verifier::external_type_specification]
#[verifier::external_body]
#[verifier::reject_recursive_types(T)]
#[verifier::reject_recursive_types(A)]
pub struct ExBinaryHeap<T, A: core::alloc::Allocator>(BinaryHeap<T, A>);

pub uninterp spec fn hvg<T, A: core::alloc::Allocator>(h: &BinaryHeap<T, A>) -> Multiset<T>;
pub open spec fn hv(h: &BinaryHeap<Strand>) -> Multiset<Strand> { hvg(h) }

pub assume_specification<T: Ord, A: core::alloc::Allocator> [BinaryHeap::<T, A>::push] (h: &mut BinaryHeap<T, A>, x: T)
    ensures hvg(final(h)) == hvg(old(h)).insert(x);
pub assume_specification<T: Ord, A: core::alloc::Allocator> [BinaryHeap::<T, A>::pop] (h: &mut BinaryHeap<T, A>) -> (r: Option<T>)
    ensures
        r is None ==> hvg(old(h)).len() == 0 && hvg(final(h)) == hvg(old(h)),
        r is Some ==> hvg(old(h)).count(r->Some_0) > 0 && hvg(final(h)) == hvg(old(h)).remove(r->Some_0);
pub assume_specification<T, A: core::alloc::Allocator> [BinaryHeap::<T, A>::len] (h: &BinaryHeap<T, A>) -> (n: usize)
    ensures n == hvg(h).len();

pub open spec fn is_fin(s: Strand) -> bool { s.key.0 == Priority::Finalize }
pub open spec fn has_fin(m: Multiset<Strand>) -> bool { exists|s: Strand| m.count(s) > 0 && is_fin(s) }

pub struct StrandHeap { pub heap: BinaryHeap<Strand>, pub has_finalize: bool }

impl StrandHeap {
    pub open spec fn inv(&self) -> bool {
        &&& self.has_finalize == has_fin(hv(&self.heap))
        &&& forall|a: Strand, b: Strand| hv(&self.heap).count(a) > 0 && hv(&self.heap).count(b) > 0 && is_fin(a) && is_fin(b) ==> a == b && hv(&self.heap).count(a) == 1
    }

    pub fn push(&mut self, strand: Strand) -> (r: Result<(), ClientError>)
        requires old(self).inv(),
        ensures final(self).inv(),
            r is Err ==> is_fin(strand) && old(self).has_finalize && hv(&final(self).heap) == hv(&old(self).heap),
            r is Ok ==> hv(&final(self).heap) == hv(&old(self).heap).insert(strand) && !(is_fin(strand) && old(self).has_finalize),
    {
        if matches!(strand.key.0, Priority::Finalize) {
            if self.has_finalize {
                return Err(ClientError::ParallelFinalize);
            }
            self.has_finalize = true;
        }
        self.heap.push(strand);
        proof {
            let m0 = hv(&old(self).heap);
            let m1 = hv(&final(self).heap);
            assert(m1 == m0.insert(strand));
            if is_fin(strand) {
                assert(m1.count(strand) > 0);
                assert(!has_fin(m0));
                assert forall|a: Strand, b: Strand| m1.count(a) > 0 && m1.count(b) > 0 && is_fin(a) && is_fin(b) implies a == b && m1.count(a) == 1 by {
                    if a != strand { assert(m0.count(a) > 0); }
                    if b != strand { assert(m0.count(b) > 0); }
                    assert(m0.count(strand) == 0) by { if m0.count(strand) > 0 { assert(has_fin(m0)); } }
                }
            } else {
                if has_fin(m0) { let w = choose|s: Strand| m0.count(s) > 0 && is_fin(s); assert(m1.count(w) > 0); }
                if has_fin(m1) { let w = choose|s: Strand| m1.count(s) > 0 && is_fin(s); assert(w != strand); assert(m0.count(w) > 0); }
                assert forall|a: Strand, b: Strand| m1.count(a) > 0 && m1.count(b) > 0 && is_fin(a) && is_fin(b) implies a == b && m1.count(a) == 1 by {
                    assert(a != strand && b != strand);
                    assert(m0.count(a) > 0 && m0.count(b) > 0);
                }
            }
        }
        Ok(())
    }

    pub fn pop(&mut self) -> (r: Option<Strand>)
        requires old(self).inv(),
        ensures final(self).inv(),
            r is None ==> hv(&old(self).heap).len() == 0,
            r is Some ==> hv(&final(self).heap) == hv(&old(self).heap).remove(r->Some_0) && hv(&old(self).heap).count(r->Some_0) > 0,
    {
        let strand = self.heap.pop()?;
        if matches!(strand.key.0, Priority::Finalize) {
            self.has_finalize = false;
        }
        proof {
            let m0 = hv(&old(self).heap);
            let m1 = hv(&final(self).heap);
            assert(m1 == m0.remove(strand));
            if is_fin(strand) {
                assert(!has_fin(m1)) by {
                    if has_fin(m1) { let w = choose|s: Strand| m1.count(s) > 0 && is_fin(s); assert(m0.count(w) > 0); assert(w == strand); assert(m0.count(strand) == 1); }
                }
            } else {
                if has_fin(m0) { let w = choose|s: Strand| m0.count(s) > 0 && is_fin(s); assert(w != strand); assert(m1.count(w) > 0); }
                if has_fin(m1) { let w = choose|s: Strand| m1.count(s) > 0 && is_fin(s); assert(m0.count(w) > 0); }
            }
            assert forall|a: Strand, b: Strand| m1.count(a) > 0 && m1.count(b) > 0 && is_fin(a) && is_fin(b) implies a == b && m1.count(a) == 1 by {
                assert(m0.count(a) > 0 && m0.count(b) > 0);
            }
        }
        Some(strand)
    }
}
}
fn main() {}
