// PROBE (throw-away), appended to aranya-runtime/src/sync/responder.rs in a scratch copy. Not part of the machinery.
#[cfg(kani)]
mod verif_kani {
    use super::*;
    use crate::{
        Bytes, Checkpoint, CmdId, Fact, FactIndex, FactPerspective, HeadSet, HeadSetOffset, Keys, Perspective,
        PolicyId, Priority, Query, QueryMut, Revertable, SegmentIndex,
        storage::Segment,
    };
    use alloc::string::String;

    struct MCmd;
    impl crate::Command for MCmd {
        fn priority(&self) -> Priority { Priority::Basic(0) }
        fn id(&self) -> CmdId { CmdId::default() }
        fn parent(&self) -> Prior<Address> { Prior::None }
        fn policy(&self) -> Option<&[u8]> { None }
        fn bytes(&self) -> &[u8] { &[] }
    }
    struct MFI;
    impl Query for MFI {
        fn query(&self, _: &str, _: &[Bytes]) -> Result<Option<Bytes>, StorageError> { Ok(None) }
        type QueryIterator = core::iter::Empty<Result<Fact, StorageError>>;
        fn query_prefix(&self, _: &str, _: &[Bytes]) -> Result<Self::QueryIterator, StorageError> { Ok(core::iter::empty()) }
    }
    impl FactIndex for MFI {}
    struct MP;
    impl Query for MP {
        fn query(&self, _: &str, _: &[Bytes]) -> Result<Option<Bytes>, StorageError> { Ok(None) }
        type QueryIterator = core::iter::Empty<Result<Fact, StorageError>>;
        fn query_prefix(&self, _: &str, _: &[Bytes]) -> Result<Self::QueryIterator, StorageError> { Ok(core::iter::empty()) }
    }
    impl QueryMut for MP {
        fn insert(&mut self, _: String, _: Keys, _: Bytes) -> Result<(), StorageError> { Ok(()) }
        fn delete(&mut self, _: String, _: Keys) -> Result<(), StorageError> { Ok(()) }
    }
    impl FactPerspective for MP {}
    impl Perspective for MP {
        fn policy(&self) -> PolicyId { PolicyId::new(0) }
        fn add_command(&mut self, _c: &impl crate::Command) -> Result<usize, StorageError> { Ok(0) }
        fn includes(&self, _: CmdId) -> bool { false }
        fn head_address(&self) -> Result<Prior<Address>, buggy::Bug> { Ok(Prior::None) }
    }
    impl Revertable for MP {
        fn checkpoint(&self) -> Checkpoint { Checkpoint { index: 0 } }
        fn revert(&mut self, _: Checkpoint) -> Result<(), StorageError> { Ok(()) }
    }
    struct MSeg;
    impl Segment for MSeg {
        type FactIndex = MFI;
        type Command<'a> = MCmd;
        fn index(&self) -> SegmentIndex { SegmentIndex::new(0) }
        fn head_id(&self) -> CmdId { CmdId::default() }
        fn policy(&self) -> PolicyId { PolicyId::new(0) }
        fn prior(&self) -> Prior<Location> { Prior::None }
        fn get_command(&self, _: Location) -> Option<MCmd> { None }
        fn facts(&self) -> Result<MFI, StorageError> { Ok(MFI) }
        fn shortest_max_cut(&self) -> MaxCut { MaxCut::new(0) }
        fn longest_max_cut(&self) -> Result<MaxCut, StorageError> { Ok(MaxCut::new(0)) }
        fn skip_list(&self) -> &[Location] { &[] }
    }

    /// Havoc storage: `anc[i][j]` is an arbitrary strict partial order over 4 segment numbers.
    struct MStorage { heads: HeadSet, anc: [[bool; 4]; 4], found: Option<u8> }
    impl Storage for MStorage {
        type Perspective = MP;
        type FactPerspective = MP;
        type Segment = MSeg;
        type FactIndex = MFI;
        fn get_location(&self, a: Address, _: &mut TraversalBuffer) -> Result<Option<Location>, StorageError> {
            Ok(self.found.map(|s| Location::new(SegmentIndex::new(s as u64), a.max_cut)))
        }
        fn is_ancestor(&self, x: Location, y: Location, _: &mut TraversalBuffer) -> Result<bool, StorageError> {
            Ok(self.anc[x.segment.get() as usize][y.segment.get() as usize])
        }
        fn get_linear_perspective(&self, _: Location) -> Result<MP, StorageError> { Ok(MP) }
        fn get_fact_perspective(&self, _: Location) -> Result<MP, StorageError> { Ok(MP) }
        fn new_merge_perspective(&self, _: Location, _: Location, _: Location, _: PolicyId, _: MFI) -> Result<MP, StorageError> { Ok(MP) }
        fn get_segment(&self, _: Location) -> Result<MSeg, StorageError> { Ok(MSeg) }
        fn get_heads(&self) -> Result<&HeadSet, StorageError> { Ok(&self.heads) }
        fn heads_offset(&self) -> Result<HeadSetOffset, StorageError> { Ok(HeadSetOffset::new(0)) }
        fn fact_cache(&self) -> Result<MFI, StorageError> { Ok(MFI) }
        fn commit_heads(&mut self, _: HeadSet, _: MFI) -> Result<(), StorageError> { Ok(()) }
        fn write(&mut self, _: MP) -> Result<MSeg, StorageError> { Ok(MSeg) }
        fn write_facts(&mut self, _: MP) -> Result<MFI, StorageError> { Ok(MFI) }
    }

    struct MSP { st: MStorage }
    impl StorageProvider for MSP {
        type Perspective = MP;
        type Segment = MSeg;
        type Storage = MStorage;
        fn new_perspective(&mut self, _: PolicyId) -> MP { MP }
        fn new_storage(&mut self, _: MP) -> Result<(GraphId, &mut MStorage), StorageError> { Err(StorageError::IoError) }
        fn get_storage(&mut self, _: GraphId) -> Result<&mut MStorage, StorageError> { Ok(&mut self.st) }
        fn remove_storage(&mut self, _: GraphId) -> Result<(), StorageError> { Ok(()) }
        fn list_graph_ids(&mut self) -> Result<impl Iterator<Item = Result<GraphId, StorageError>>, StorageError> { Ok(core::iter::empty()) }
    }

    /// C17: with nothing left to send, get_next writes SyncEnd{max_index = message_index}, goes Idle,
    /// and does not advance the index.
    #[kani::proof]
    #[kani::unwind(34)]
    fn get_next_end_of_session() {
        let mut r = SyncResponder::new();
        r.session_id = Some(kani::any());
        r.graph_id = Some(GraphId::default());
        r.state = SyncResponderState::Send;
        let idx: usize = kani::any();
        r.message_index = idx;
        r.next_send = 0; // to_send is empty
        let mut sp = MSP { st: MStorage { heads: HeadSet::default(), anc: [[false; 4]; 4], found: None } };
        let mut buf = [0u8; 64];
        let blen: usize = kani::any();
        kani::assume(blen <= 64);
        let res = r.get_next(&mut buf[..blen], &mut sp);
        assert!(r.message_index == idx);
        assert!(r.next_send == 0);
        assert!(matches!(r.state, SyncResponderState::Idle));
        if let Ok(n) = res { assert!(n <= blen); kani::cover!(n > 0, "wrote SyncEnd"); }
        core::mem::forget(res);
    }

    fn id(i: u8) -> CmdId { let mut b = [0u8; 32]; b[0] = i; CmdId::from_bytes(b) }

    #[kani::proof]
    #[kani::unwind(34)]
    fn peer_cache_add_len2() {
        // arbitrary strict partial order on segments 0..4
        let anc: [[bool; 4]; 4] = kani::any();
        let mut i = 0;
        while i < 4 { kani::assume(!anc[i][i]); let mut j = 0; while j < 4 { if anc[i][j] { kani::assume(!anc[j][i]); let mut k = 0; while k < 4 { if anc[j][k] { kani::assume(anc[i][k]); } k += 1; } } j += 1; } i += 1; }
        let found: Option<u8> = if kani::any() { Some(0) } else { None };
        let st = MStorage { heads: HeadSet::default(), anc, found };
        // cache with two entries in segments 1 and 2 forming an antichain
        kani::assume(!anc[1][2] && !anc[2][1]);
        let mut cache = PeerCache::new();
        let _ = cache.heads.push(LocatedAddress { id: id(1), segment: SegmentIndex::new(1), max_cut: MaxCut::new(5) });
        let _ = cache.heads.push(LocatedAddress { id: id(2), segment: SegmentIndex::new(2), max_cut: MaxCut::new(5) });
        let mut buf = TraversalBuffer::new();
        let addr = Address { id: id(9), max_cut: MaxCut::new(7) };
        let r = cache.add_command(&st, addr, &mut buf);
        assert!(r.is_ok());
        let has = |c: &PeerCache, s: u64| c.heads.iter().any(|h| h.segment.get() == s);
        if found.is_none() {
            assert!(cache.heads.len() == 2 && has(&cache, 1) && has(&cache, 2));
        } else {
            // entries removed are exactly the proper ancestors of new (segment 0)
            assert!(has(&cache, 1) == !anc[1][0]);
            assert!(has(&cache, 2) == !anc[2][0]);
            // new added iff it is not an ancestor of an existing entry
            assert!(has(&cache, 0) == !(anc[0][1] || anc[0][2]));
            assert!(cache.heads.len() <= PEER_HEAD_MAX);
        }
    }
}
