// PROBE (throw-away), appended to aranya-fast-channels/src/client.rs in a scratch copy. Not part of the machinery.
#[cfg(kani)]
mod verif_kani {
    extern crate alloc;
    use super::*;
    use aranya_crypto::default::DefaultCipherSuite as CS;

    /// Havoc state: never invokes the closure (no key can be fabricated);
    /// returns any of the errors the trait allows.
    struct HState;
    impl AfcState for HState {
        type CipherSuite = CS;
        type SealCtx = ();
        type OpenCtx = ();
        fn setup_seal_ctx(&self, id: LocalChannelId) -> Result<(), Error> { Err(Error::NotFound(id)) }
        fn setup_open_ctx(&self, id: LocalChannelId) -> Result<(), Error> { Err(Error::NotFound(id)) }
        fn seal<F, T>(&self, _ctx: &mut (), _f: F) -> Result<Result<T, Error>, Error>
        where F: FnOnce(&mut SealKey<CS>, LabelId) -> Result<T, Error> {
            if kani::any() { Err(Error::KeyExpired) } else { Ok(Err(Error::Authentication)) }
        }
        fn open<F, T>(&self, _ctx: &mut (), _f: F) -> Result<Result<T, Error>, Error>
        where F: FnOnce(&OpenKey<CS>, LabelId) -> Result<T, Error> {
            Ok(Err(Error::Authentication))
        }
        fn exists(&self, _id: LocalChannelId) -> Result<bool, Error> { Ok(false) }
    }

    fn check_open_in_place<const LEN: usize>() {
        let c = Client::new(HState);
        let arr: [u8; LEN] = kani::any();
        let mut data: alloc::vec::Vec<u8> = alloc::vec::Vec::with_capacity(LEN);
        data.extend_from_slice(&arr);
        let r = c.open_in_place(&mut (), &mut data);
        assert!(r.is_err());
        if LEN >= 8 && LEN < 8 + 16 { assert!(matches!(r, Err(Error::Authentication))); }
        core::mem::forget(r);
    }

    #[kani::proof]
    #[kani::unwind(42)]
    fn open_in_place_len_10() { check_open_in_place::<10>(); }

    #[kani::proof]
    #[kani::unwind(42)]
    fn open_in_place_len_3() { check_open_in_place::<3>(); }

    #[kani::proof]
    #[kani::unwind(42)]
    fn open_in_place_len_30() { check_open_in_place::<30>(); }
}
