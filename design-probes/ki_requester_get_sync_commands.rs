// PROBE (throw-away), appended to aranya-runtime/src/sync/requester.rs in a scratch copy. Not part of the machinery.
#[cfg(kani)]
mod verif_kani {
    use super::*;
    use crate::{CmdId, MaxCut, Prior, command::Priority, sync::wire::CommandMeta};

    fn meta(i: u8) -> CommandMeta {
        let mut b = [0u8; 32];
        b[0] = i;
        CommandMeta {
            id: CmdId::from_bytes(b),
            priority: Priority::Basic(0),
            parent: Prior::None,
            policy_length: kani::any(),
            length: kani::any(),
        }
    }

    fn any_state() -> SyncRequesterState {
        match kani::any::<u8>() % 8 {
            0 => SyncRequesterState::New, 1 => SyncRequesterState::Start, 2 => SyncRequesterState::Waiting,
            3 => SyncRequesterState::Idle, 4 => SyncRequesterState::Closed, 5 => SyncRequesterState::Resync,
            6 => SyncRequesterState::PartialSync, _ => SyncRequesterState::Reset,
        }
    }

    fn check<const NCMD: usize>() {
        let sid: u128 = kani::any();
        let mut rq = SyncRequester {
            session_id: sid,
            graph_id: GraphId::default(),
            state: any_state(),
            max_bytes: 0,
            next_message_index: kani::any(),
        };
        kani::assume(rq.next_message_index < u64::MAX);
        let old_idx = rq.next_message_index;
        let old_state = rq.state.clone();
        let mut commands: Vec<CommandMeta, COMMAND_RESPONSE_MAX> = Vec::new();
        let mut i = 0;
        while i < NCMD { let _ = commands.push(meta(i as u8)); i += 1; }
        let msg_sid: u128 = kani::any();
        let response_index: u64 = kani::any();
        let message = SyncResponseMessage::SyncResponse { session_id: msg_sid, response_index, commands };
        let buf: [u8; 12] = kani::any();
        let rlen: usize = kani::any();
        kani::assume(rlen <= 12);
        let remaining = &buf[..rlen];
        let r = rq.get_sync_commands(message, remaining);
        if msg_sid != sid {
            assert!(matches!(r, Err(SyncError::SessionMismatch)));
            assert!(rq.state == old_state && rq.next_message_index == old_idx);
        } else if let Ok(Some(cmds)) = &r {
            assert!(matches!(old_state, SyncRequesterState::Start | SyncRequesterState::Waiting));
            assert!(response_index == old_idx);
            assert!(old_idx < u64::MAX && rq.next_message_index == old_idx + 1);
            assert!(cmds.len() == NCMD);
            // slices are inside `remaining`, consecutive, in order
            let base = remaining.as_ptr() as usize;
            let mut off = 0usize;
            let mut k = 0;
            while k < NCMD {
                let c = &cmds[k];
                if let Some(p) = c.policy { assert!(p.as_ptr() as usize == base + off); off += p.len(); }
                assert!(c.data.as_ptr() as usize == base + off);
                off += c.data.len();
                k += 1;
            }
            assert!(off <= rlen);
            kani::cover!(NCMD > 0 && off > 0, "accepted non-empty payloads");
        }
        core::mem::forget(r);
    }

    #[kani::proof]
    #[kani::unwind(5)]
    fn get_sync_commands_2() { check::<2>(); }
}
