use vstd::prelude::*;
use vstd::multiset::Multiset;
verus! {
// key lemma for swap + swap_remove reasoning
proof fn lemma_update_last_drop<T>(s: Seq<T>, i: int)
    requires 0 <= i < s.len(),
    ensures s.update(i, s.last()).drop_last().to_multiset() == s.to_multiset().remove(s[i]),
{
    broadcast use vstd::seq_lib::group_seq_properties, vstd::seq_lib::group_to_multiset_ensures;
    let t = s.update(i, s.last());
    // t = s with s[i] overwritten by last; t.to_multiset = s.to_multiset - {s[i]} + {last}
    vstd::seq_lib::to_multiset_update(s, i, s.last());
    assert(t.to_multiset() == s.to_multiset().insert(s.last()).remove(s[i]));
    // dropping the last element removes one copy of last
    assert(t.last() == s.last());
    assert(t.drop_last().push(t.last()) =~= t);
    vstd::seq_lib::to_multiset_build(t.drop_last(), t.last());
    assert(t.to_multiset() == t.drop_last().to_multiset().insert(t.last()));
    let d = t.drop_last().to_multiset();
    let a = s.to_multiset();
    assert(d =~= d.insert(t.last()).remove(t.last()));
    assert(a.count(s[i]) > 0) by { assert(s.to_multiset().contains(s[i])); }
    assert(d.insert(t.last()) == a.insert(s.last()).remove(s[i]));
    assert forall|v: T| d.count(v) == a.remove(s[i]).count(v) by {
        assert(d.insert(t.last()).count(v) == a.insert(s.last()).remove(s[i]).count(v));
    }
    assert(d =~= a.remove(s[i]));
}
}
fn main() {}
