use vstd::prelude::*;
use vstd::multiset::Multiset;
verus! {

#[derive(Copy, Clone, PartialEq, Eq)]
pub struct Location { pub max_cut: u64, pub segment: u64 }
pub enum StorageError { Bug }

pub assume_specification<T> [<[T]>::swap] (s: &mut [T], a: usize, b: usize)
    requires a < old(s)@.len(), b < old(s)@.len(),
    ensures final(s)@ == old(s)@.update(a as int, old(s)@[b as int]).update(b as int, old(s)@[a as int]);

fn assume_some(x: Option<usize>) -> (r: Result<usize, StorageError>)
    ensures (r is Ok) == (x is Some), r is Ok ==> r->Ok_0 == x->Some_0
{ match x { Some(v) => Ok(v), None => Err(StorageError::Bug) } }

proof fn lemma_update_last_drop<T>(s: Seq<T>, i: int)
    requires 0 <= i < s.len(),
    ensures s.update(i, s.last()).drop_last().to_multiset() == s.to_multiset().remove(s[i]),
{
    broadcast use vstd::seq_lib::group_seq_properties, vstd::seq_lib::group_to_multiset_ensures;
    let t = s.update(i, s.last());
    vstd::seq_lib::to_multiset_update(s, i, s.last());
    assert(t.drop_last().push(t.last()) =~= t);
    vstd::seq_lib::to_multiset_build(t.drop_last(), t.last());
    let d = t.drop_last().to_multiset();
    let a = s.to_multiset();
    assert(d =~= d.insert(t.last()).remove(t.last()));
    assert(a.count(s[i]) > 0) by { assert(s.to_multiset().contains(s[i])); }
    assert forall|v: T| d.count(v) == a.remove(s[i]).count(v) by {
        assert(d.insert(t.last()).count(v) == a.insert(s.last()).remove(s[i]).count(v));
    }
    assert(d =~= a.remove(s[i]));
}


pub open spec fn loc_le(a: Location, b: Location) -> bool {
    a.max_cut < b.max_cut || (a.max_cut == b.max_cut && a.segment <= b.segment)
}
fn loc_cmp_le(a: Location, b: Location) -> (r: bool) ensures r == loc_le(a, b) {
    a.max_cut < b.max_cut || (a.max_cut == b.max_cut && a.segment <= b.segment)
}
// R3 helper: std `max_by_key(|l| *l)` returns the LAST maximal element
fn argmax_last(v: &Vec<Location>) -> (r: Option<usize>)
    ensures
        r is None <==> v@.len() == 0,
        r is Some ==> r->Some_0 < v@.len()
            && (forall|k: int| 0 <= k < v@.len() ==> loc_le(v@[k], v@[r->Some_0 as int]))
            && (forall|k: int| r->Some_0 < k < v@.len() ==> (#[trigger] v@[k]) != v@[r->Some_0 as int]),
{
    if v.len() == 0 { return None; }
    let mut best: usize = 0;
    let mut i: usize = 1;
    while i < v.len()
        invariant 1 <= i <= v@.len(), best < i,
            forall|k: int| 0 <= k < i ==> loc_le(v@[k], v@[best as int]),
            forall|k: int| best < k < i ==> (#[trigger] v@[k]) != v@[best as int],
        decreases v@.len() - i,
    {
        if loc_cmp_le(v[best], v[i]) { best = i; }
        i += 1;
    }
    Some(best)
}

// R2 helper: std `position` semantics (first index satisfying the predicate)
fn position_same_segment(v: &Vec<Location>, loc: Location) -> (r: Option<usize>)
    ensures
        r is Some ==> r->Some_0 < v@.len() && v@[r->Some_0 as int].segment == loc.segment
            && forall|k: int| 0 <= k < r->Some_0 ==> (#[trigger] v@[k]).segment != loc.segment,
        r is None ==> forall|k: int| 0 <= k < v@.len() ==> (#[trigger] v@[k]).segment != loc.segment,
{
    let mut i: usize = 0;
    while i < v.len()
        invariant i <= v@.len(), forall|k: int| 0 <= k < i ==> (#[trigger] v@[k]).segment != loc.segment,
        decreases v@.len() - i,
    {
        if v[i].segment == loc.segment { return Some(i); }
        i += 1;
    }
    None
}

proof fn lemma_count_pos<T>(s: Seq<T>, i: int)
    requires 0 <= i < s.len(),
    ensures s.to_multiset().count(s[i]) > 0,
{
    broadcast use vstd::seq_lib::group_to_multiset_ensures;
    assert(s.to_multiset().contains(s[i]));
}

proof fn lemma_remove_insert<T>(m: Multiset<T>, x: T)
    requires m.count(x) > 0,
    ensures m.remove(x).insert(x) =~= m,
{
}

proof fn lemma_update_ms<T>(s: Seq<T>, i: int, x: T)
    requires 0 <= i < s.len(),
    ensures s.update(i, x).to_multiset() =~= s.to_multiset().remove(s[i]).insert(x),
{
    vstd::seq_lib::to_multiset_update(s, i, x);
    lemma_count_pos(s, i);
    let a = s.to_multiset();
    assert forall|v: T| a.insert(x).remove(s[i]).count(v) == a.remove(s[i]).insert(x).count(v) by {}
}

proof fn lemma_push_ms<T>(s: Seq<T>, x: T)
    ensures s.push(x).to_multiset() =~= s.to_multiset().insert(x),
{
    vstd::seq_lib::to_multiset_build(s, x);
}

proof fn lemma_cons_ms<T>(x: T, s: Seq<T>)
    ensures (seq![x] + s).to_multiset() =~= s.to_multiset().insert(x),
{
    broadcast use vstd::seq_lib::group_seq_properties, vstd::seq_lib::group_to_multiset_ensures;
    vstd::seq_lib::lemma_multiset_commutative(seq![x], s);
    vstd::seq_lib::to_multiset_build(Seq::<T>::empty(), x);
    assert(Seq::<T>::empty().push(x) =~= seq![x]);
    assert((seq![x]).to_multiset() =~= Multiset::<T>::empty().insert(x));
    assert(seq![x].to_multiset().add(s.to_multiset()) =~= s.to_multiset().insert(x));
}

proof fn lemma_update_first_drop<T>(s: Seq<T>, j: int)
    requires 0 <= j < s.len(),
    ensures s.update(j, s[0]).drop_first().to_multiset() =~= s.to_multiset().remove(s[j]),
{
    let t = s.update(j, s[0]);
    lemma_update_ms(s, j, s[0]);
    assert(t =~= seq![t[0]] + t.drop_first());
    lemma_cons_ms(t[0], t.drop_first());
    assert(t[0] == s[0]);
    let d = t.drop_first().to_multiset();
    let a = s.to_multiset();
    lemma_count_pos(s, j);
    assert forall|v: T| d.count(v) == a.remove(s[j]).count(v) by {
        assert(d.insert(s[0]).count(v) == a.remove(s[j]).insert(s[0]).count(v));
    }
}

pub struct TraversalQueue { pub entries: Vec<Location>, pub partition: usize }

impl TraversalQueue {
    pub open spec fn wf(&self) -> bool { self.partition <= self.entries@.len() }
    pub open spec fn useq(&self) -> Seq<Location> { self.entries@.subrange(0, self.partition as int) }
    pub open spec fn cseq(&self) -> Seq<Location> { self.entries@.subrange(self.partition as int, self.entries@.len() as int) }
    pub open spec fn u(&self) -> Multiset<Location> { self.useq().to_multiset() }
    pub open spec fn c(&self) -> Multiset<Location> { self.cseq().to_multiset() }

    fn remove_uncovered(&mut self, i: usize) -> (r: Result<Location, StorageError>)
        requires old(self).wf(), i < old(self).partition,
        ensures final(self).wf(), r is Ok,
            r->Ok_0 == old(self).entries@[i as int],
            final(self).partition == old(self).partition - 1,
            final(self).u() == old(self).u().remove(r->Ok_0),
            final(self).c() == old(self).c(),
            old(self).u().count(r->Ok_0) > 0,
    {
        self.partition = assume_some(self
            .partition
            .checked_sub(1))?;
        self.entries.swap(i, self.partition);
        let r = self.entries.swap_remove(self.partition);
        proof {
            let o = old(self).entries@;
            let p = old(self).partition as int;
            let n = o.len() as int;
            let ou = old(self).useq();
            let oc = old(self).cseq();
            // uncovered part: ou with slot i overwritten by its last element, last dropped
            assert(final(self).useq() =~= ou.update(i as int, ou.last()).drop_last());
            lemma_update_last_drop(ou, i as int);
            assert(ou.to_multiset().count(ou[i as int]) > 0) by { broadcast use vstd::seq_lib::group_to_multiset_ensures; assert(ou.to_multiset().contains(ou[i as int])); }
            // covered part: oc with slot 0..: after swap_remove(p-1) the old last covered entry moves to p-1
            // as a multiset the covered part is unchanged
            let fc = final(self).cseq();
            if n == p {
                assert(fc =~= oc);
            } else {
                // fc = [o[n-1]] ++ o[p .. n-1)
                assert(fc =~= seq![oc.last()] + oc.drop_last());
                assert(oc =~= oc.drop_last().push(oc.last()));
                vstd::seq_lib::to_multiset_build(oc.drop_last(), oc.last());
                vstd::seq_lib::lemma_multiset_commutative(seq![oc.last()], oc.drop_last());
                broadcast use vstd::seq_lib::group_seq_properties, vstd::seq_lib::group_to_multiset_ensures;
                assert((seq![oc.last()]).to_multiset() =~= Multiset::singleton(oc.last())) by {
                    vstd::seq_lib::to_multiset_build(Seq::<Location>::empty(), oc.last());
                    assert(Seq::<Location>::empty().push(oc.last()) =~= seq![oc.last()]);
                }
                assert(fc.to_multiset() =~= oc.to_multiset());
            }
        }
        Ok(r)
    }

    pub fn pop_covered(&mut self) -> (r: Result<Option<(Location, bool)>, StorageError>)
        requires old(self).wf(),
        ensures final(self).wf(), r is Ok,
            r->Ok_0 is None <==> old(self).entries@.len() == 0,
            r->Ok_0 is Some ==> ({
                let (x, cov) = r->Ok_0->Some_0;
                &&& (forall|k: int| 0 <= k < old(self).entries@.len() ==> loc_le(old(self).entries@[k], x))
                &&& (cov ==> final(self).c() == old(self).c().remove(x) && final(self).u() == old(self).u() && old(self).c().count(x) > 0)
                &&& (!cov ==> final(self).u() == old(self).u().remove(x) && final(self).c() == old(self).c() && old(self).u().count(x) > 0)
            }),
    {
        let Some(i) = argmax_last(&self.entries) else {
            return Ok(None);
        };
        if i < self.partition {
            Ok(Some((self.remove_uncovered(i)?, false)))
        } else {
            // Removing from covered region: swap_remove is fine.
            let loc = self.entries.swap_remove(i);
            proof {
                let oc = old(self).cseq();
                let j = i as int - old(self).partition as int;
                assert(final(self).cseq() =~= oc.update(j, oc.last()).drop_last());
                lemma_update_last_drop(oc, j);
                assert(final(self).useq() =~= old(self).useq());
                assert(oc.to_multiset().count(oc[j]) > 0) by { broadcast use vstd::seq_lib::group_to_multiset_ensures; assert(oc.to_multiset().contains(oc[j])); }
            }
            Ok(Some((loc, true)))
        }
    }

    pub fn push_covered(&mut self, loc: Location, covered: bool) -> (r: Result<(), StorageError>)
        requires old(self).wf(), old(self).entries@.len() < usize::MAX,
        ensures final(self).wf(), r is Ok,
            // not present: inserted into the partition selected by `covered`
            (forall|k: int| 0 <= k < old(self).entries@.len() ==> old(self).entries@[k].segment != loc.segment) ==> (
                final(self).u() == (if covered { old(self).u() } else { old(self).u().insert(loc) })
                && final(self).c() == (if covered { old(self).c().insert(loc) } else { old(self).c() })),
            // present (first match at i): documented merge rule
            forall|i: int| #![trigger old(self).entries@[i]]
                0 <= i < old(self).entries@.len() && old(self).entries@[i].segment == loc.segment
                && (forall|k: int| 0 <= k < i ==> old(self).entries@[k].segment != loc.segment) ==> ({
                    let e = old(self).entries@[i];
                    let was = i >= old(self).partition;
                    let e2 = if loc.max_cut > e.max_cut { Location { max_cut: loc.max_cut, segment: e.segment } } else { e };
                    let now = if loc.max_cut > e.max_cut { covered } else if loc.max_cut == e.max_cut { was || covered } else { was };
                    let u0 = if was { old(self).u() } else { old(self).u().remove(e) };
                    let c0 = if was { old(self).c().remove(e) } else { old(self).c() };
                    &&& final(self).u() == (if now { u0 } else { u0.insert(e2) })
                    &&& final(self).c() == (if now { c0.insert(e2) } else { c0 })
                }),
    {
        if let Some(i) = position_same_segment(&self.entries, loc) {
            let was_covered = i >= self.partition;
            let new_covered = if loc.max_cut > self.entries[i].max_cut {
                self.entries[i].max_cut = loc.max_cut;
                covered
            } else if loc.max_cut == self.entries[i].max_cut {
                was_covered || covered
            } else {
                proof {
                    let o = old(self).entries@;
                    let e = o[i as int];
                    if i >= old(self).partition {
                        lemma_count_pos(old(self).cseq(), i as int - old(self).partition as int);
                        lemma_remove_insert(old(self).c(), e);
                    } else {
                        lemma_count_pos(old(self).useq(), i as int);
                        lemma_remove_insert(old(self).u(), e);
                    }
                    assert forall|i2: int| 0 <= i2 < o.len() && o[i2].segment == loc.segment
                        && (forall|k: int| 0 <= k < i2 ==> o[k].segment != loc.segment) implies i2 == i as int by {
                        if i2 < i as int { assert(o[i2].segment != loc.segment); }
                        if (i as int) < i2 { assert(o[i as int].segment != loc.segment); }
                    }
                }
                return Ok(());
            };
            let ghost mid = self.entries@;
            if !was_covered && new_covered {
                self.partition = assume_some(self
                    .partition
                    .checked_sub(1))?;
                self.entries.swap(i, self.partition);
            } else if was_covered && !new_covered {
                self.entries.swap(i, self.partition);
                self.partition = assume_some(self
                    .partition
                    .checked_add(1))?;
            }
            proof {
                let o = old(self).entries@;
                let p = old(self).partition as int;
                let i0 = i as int;
                let e = o[i0];
                let e2 = mid[i0];
                let ou = old(self).useq();
                let oc = old(self).cseq();
                assert(mid =~= o.update(i0, e2));
                // the quantified first match is i0
                assert forall|i2: int| 0 <= i2 < o.len() && o[i2].segment == loc.segment
                    && (forall|k: int| 0 <= k < i2 ==> o[k].segment != loc.segment) implies i2 == i0 by {
                    if i2 < i0 { assert(o[i2].segment != loc.segment); }
                    if i0 < i2 { assert(o[i0].segment != loc.segment); }
                }
                let mu = mid.subrange(0, p);
                let mc = mid.subrange(p, mid.len() as int);
                if !was_covered {
                    assert(mu =~= ou.update(i0, e2));
                    assert(mc =~= oc);
                    lemma_update_ms(ou, i0, e2);
                    lemma_count_pos(ou, i0);
                } else {
                    assert(mu =~= ou);
                    assert(mc =~= oc.update(i0 - p, e2));
                    lemma_update_ms(oc, i0 - p, e2);
                    lemma_count_pos(oc, i0 - p);
                }
                if !was_covered && new_covered {
                    // partition p-1, swap(i0, p-1)
                    assert(final(self).useq() =~= mu.update(i0, mu.last()).drop_last());
                    lemma_update_last_drop(mu, i0);
                    assert(final(self).cseq() =~= seq![e2] + mc);
                    lemma_cons_ms(e2, mc);
                    assert(mu[i0] == e2);
                    let a = ou.to_multiset();
                    assert(a.remove(e).insert(e2).remove(e2) =~= a.remove(e));
                } else if was_covered && !new_covered {
                    // swap(i0, p), partition p+1
                    let j = i0 - p;
                    assert(final(self).useq() =~= mu.push(e2));
                    lemma_push_ms(mu, e2);
                    assert(final(self).cseq() =~= mc.update(j, mc[0]).drop_first());
                    lemma_update_first_drop(mc, j);
                    assert(mc[j] == e2);
                    let a = oc.to_multiset();
                    assert(a.remove(e).insert(e2).remove(e2) =~= a.remove(e));
                } else {
                    assert(final(self).useq() =~= mu);
                    assert(final(self).cseq() =~= mc);
                }
            }
            return Ok(());
        }
        self.entries.push(loc);
        if !covered {
            let last = assume_some(self
                .entries
                .len()
                .checked_sub(1))?;
            self.entries.swap(self.partition, last);
            self.partition = assume_some(self
                .partition
                .checked_add(1))?;
        }
        proof {
            let o = old(self).entries@;
            let p = old(self).partition as int;
            let ou = old(self).useq();
            let oc = old(self).cseq();
            if covered {
                assert(final(self).useq() =~= ou);
                assert(final(self).cseq() =~= oc.push(loc));
                lemma_push_ms(oc, loc);
            } else {
                // entries = o ++ [loc], then swap(p, last): loc goes to p, old o[p] (if any) goes to the end
                assert(final(self).useq() =~= ou.push(loc));
                lemma_push_ms(ou, loc);
                if oc.len() == 0 {
                    assert(final(self).cseq() =~= oc);
                } else {
                    assert(final(self).cseq() =~= oc.drop_first().push(oc[0]));
                    lemma_push_ms(oc.drop_first(), oc[0]);
                    assert(oc =~= seq![oc[0]] + oc.drop_first());
                    lemma_cons_ms(oc[0], oc.drop_first());
                }
            }
        }
        Ok(())
    }
}
}
fn main() {}
