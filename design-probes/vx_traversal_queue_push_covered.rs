use vstd::prelude::*;
verus! {

#[derive(Copy, Clone, PartialEq, Eq)]
pub struct MaxCut(pub u64);
#[derive(Copy, Clone, PartialEq, Eq)]
pub struct SegmentIndex(pub u64);
#[derive(Copy, Clone, PartialEq, Eq)]
pub struct Location { pub max_cut: MaxCut, pub segment: SegmentIndex }

impl Location {
    pub fn same_segment(self, other: Self) -> (r: bool)
        ensures r == (self.segment == other.segment)
    { self.segment.0 == other.segment.0 }
}

// trusted: derived PartialOrd on MaxCut(u64) compares the u64
pub fn mc_gt(a: MaxCut, b: MaxCut) -> (r: bool) ensures r == (a.0 > b.0) { a.0 > b.0 }
pub fn mc_eq(a: MaxCut, b: MaxCut) -> (r: bool) ensures r == (a.0 == b.0) { a.0 == b.0 }

pub enum StorageError { Bug }

pub assume_specification<T> [<[T]>::swap] (s: &mut [T], a: usize, b: usize)
    requires a < old(s)@.len(), b < old(s)@.len(),
    ensures final(s)@ == old(s)@.update(a as int, old(s)@[b as int]).update(b as int, old(s)@[a as int]);

fn assume_some(x: Option<usize>) -> (r: Result<usize, StorageError>)
    ensures (r is Ok) == (x is Some), r is Ok ==> r->Ok_0 == x->Some_0
{ match x { Some(v) => Ok(v), None => Err(StorageError::Bug) } }

pub struct TraversalQueue { pub entries: Vec<Location>, pub partition: usize }

pub open spec fn seg_at(s: Seq<Location>, seg: SegmentIndex) -> int
    decreases s.len()
{ if s.len() == 0 { -1 } else if s[0].segment == seg { 0 } else { let r = seg_at(s.subrange(1, s.len() as int), seg); if r < 0 { -1 } else { r + 1 } } }

pub open spec fn uniq(s: Seq<Location>) -> bool {
    forall|i: int, j: int| 0 <= i < j < s.len() ==> s[i].segment != s[j].segment
}

// R2 helper: verified std `position` semantics
fn position_same_segment(v: &Vec<Location>, loc: Location) -> (r: Option<usize>)
    ensures
        r is Some ==> r->Some_0 < v@.len() && v@[r->Some_0 as int].segment == loc.segment
            && forall|k: int| 0 <= k < r->Some_0 ==> v@[k].segment != loc.segment,
        r is None ==> forall|k: int| 0 <= k < v@.len() ==> v@[k].segment != loc.segment,
{
    let mut i: usize = 0;
    while i < v.len()
        invariant i <= v@.len(), forall|k: int| 0 <= k < i ==> v@[k].segment != loc.segment,
        decreases v@.len() - i,
    {
        if v[i].same_segment(loc) { return Some(i); }
        i += 1;
    }
    None
}

impl TraversalQueue {
    pub open spec fn wf(&self) -> bool { self.partition <= self.entries@.len() && uniq(self.entries@) }
    pub open spec fn lookup(&self, seg: SegmentIndex) -> Option<(MaxCut, bool)> {
        if exists|i: int| 0 <= i < self.entries@.len() && self.entries@[i].segment == seg {
            let i = choose|i: int| 0 <= i < self.entries@.len() && self.entries@[i].segment == seg;
            Some((self.entries@[i].max_cut, i >= self.partition))
        } else { None }
    }

    pub fn push_covered(&mut self, loc: Location, covered: bool) -> (r: Result<(), StorageError>)
        requires old(self).wf(), old(self).entries@.len() < usize::MAX,
        ensures final(self).wf(), r is Ok,
            forall|s: SegmentIndex| s != loc.segment ==> final(self).lookup(s) == old(self).lookup(s),
            old(self).lookup(loc.segment) is None ==> final(self).lookup(loc.segment) == Some((loc.max_cut, covered)),
    {
        if let Some(i) = position_same_segment(&self.entries, loc) {
            let was_covered = i >= self.partition;
            let new_covered = if mc_gt(loc.max_cut, self.entries[i].max_cut) {
                self.entries[i].max_cut = loc.max_cut;
                covered
            } else if mc_eq(loc.max_cut, self.entries[i].max_cut) {
                was_covered || covered
            } else {
                return Ok(());
            };
            if !was_covered && new_covered {
                self.partition = assume_some(self
                    .partition
                    .checked_sub(1))?;
                self.entries.swap(i, self.partition);
            } else if was_covered && !new_covered {
                self.entries.swap(i, self.partition);
                self.partition = assume_some(self
                    .partition
                    .checked_add(1))?;
            }
            return Ok(());
        }
        self.entries.push(loc);
        if !covered {
            let last = assume_some(self
                .entries
                .len()
                .checked_sub(1))?;
            self.entries.swap(self.partition, last);
            self.partition = assume_some(self
                .partition
                .checked_add(1))?;
        }
        Ok(())
    }

    pub fn drain_all(&mut self, mut f: impl FnMut(Location))
        requires old(self).wf(), forall|l: Location| f.requires((l,)),
    {
        let mut i: usize = 0;
        while i < self.partition
            invariant i <= self.partition <= self.entries@.len(), forall|l: Location| f.requires((l,)),
            decreases self.partition - i,
        {
            f(self.entries[i]);
            i += 1;
        }
        self.entries.clear();
        self.partition = 0;
    }
}

} // verus!
fn main() {}
