use vstd::prelude::*;
verus! {
#[derive(Copy, Clone, PartialEq, Eq)]
pub struct MaxCut(pub u64);
impl MaxCut { pub const fn new(val: u64) -> (r: Self) ensures r.0 == val { Self(val) } }
pub enum StorageError { Bug }
pub const MIN_SKIP_GAP: u64 = 10;

fn assume_some(x: Option<u64>) -> (r: Result<u64, StorageError>)
    ensures (r is Ok) == (x is Some), r is Ok ==> r->Ok_0 == x->Some_0
{ match x { Some(v) => Ok(v), None => Err(StorageError::Bug) } }

spec fn ascending(s: Seq<MaxCut>) -> bool { forall|i: int, j: int| 0 <= i < j < s.len() ==> (#[trigger] s[i]).0 < (#[trigger] s[j]).0 }
spec fn in_range(s: Seq<MaxCut>, n: u64) -> bool { forall|i: int| 0 <= i < s.len() ==> 1 <= (#[trigger] s[i]).0 < n }
spec fn below(s: Seq<MaxCut>, b: u64) -> bool { forall|i: int| 0 <= i < s.len() ==> (#[trigger] s[i]).0 < b }

fn skip_target_boundaries(n: u64) -> (r: Result<Vec<MaxCut>, StorageError>)
    ensures r is Ok,
        ascending(r->Ok_0@),
        in_range(r->Ok_0@, n),
        (r->Ok_0@.len() == 0) == (n < 2),
        r->Ok_0@.len() > 0 ==> r->Ok_0@[0].0 == n / 2,
{
    let mut targets = Vec::new();
    let mut boundary = n / 2;
    while boundary > 0
        invariant_except_break
            below(targets@, boundary),
        invariant
            boundary < n || n < 2,
            n < 2 ==> boundary == 0,
            ascending(targets@),
            in_range(targets@, n),
            targets@.len() > 0 ==> targets@[0].0 == n / 2,
            targets@.len() == 0 ==> boundary == n / 2,
        ensures
            ascending(targets@),
            in_range(targets@, n),
            (targets@.len() == 0) == (n < 2),
            targets@.len() > 0 ==> targets@[0].0 == n / 2,
        decreases n - boundary,
    {
        targets.push(MaxCut::new(boundary));
        let gap = assume_some(n
            .checked_sub(boundary)
            )?;
        if gap <= MIN_SKIP_GAP {
            break;
        }
        boundary = assume_some(boundary
            .checked_add(gap / 2)
            )?;
    }
    Ok(targets)
}
}
fn main() {}
