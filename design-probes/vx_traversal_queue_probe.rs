use vstd::prelude::*;
verus! {

#[derive(Copy, Clone, PartialEq, Eq)]
pub struct MaxCut(pub u64);
#[derive(Copy, Clone, PartialEq, Eq)]
pub struct SegmentIndex(pub u64);

#[derive(Copy, Clone, PartialEq, Eq)]
pub struct Location {
    pub max_cut: MaxCut,
    pub segment: SegmentIndex,
}

pub enum StorageError { Bug }

pub assume_specification<T> [<[T]>::swap] (s: &mut [T], a: usize, b: usize)
    requires a < old(s)@.len(), b < old(s)@.len(),
    ensures final(s)@ == old(s)@.update(a as int, old(s)@[b as int]).update(b as int, old(s)@[a as int]);


pub struct TraversalQueue {
    pub entries: Vec<Location>,
    pub partition: usize,
}

impl TraversalQueue {
    pub open spec fn wf(&self) -> bool {
        self.partition <= self.entries@.len()
    }

    fn remove_uncovered(&mut self, i: usize) -> (r: Result<Location, StorageError>)
        requires old(self).wf(), i < old(self).partition,
        ensures final(self).wf(),
            r is Ok,
            final(self).partition == old(self).partition - 1,
    {
        self.partition = match self.partition.checked_sub(1) { Some(v) => v, None => return Err(StorageError::Bug) };
        self.entries.swap(i, self.partition);
        Ok(self.entries.swap_remove(self.partition))
    }

    pub fn push_duplicate(&mut self, loc: Location) -> (r: Result<(), StorageError>)
        requires old(self).wf(), old(self).entries@.len() < usize::MAX,
        ensures final(self).wf(),
    {
        self.entries.push(loc);
        let last = match self.entries.len().checked_sub(1) { Some(v) => v, None => return Err(StorageError::Bug) };
        self.entries.swap(self.partition, last);
        self.partition = match self.partition.checked_add(1) { Some(v) => v, None => return Err(StorageError::Bug) };
        Ok(())
    }
}

} // verus!
fn main() {}
