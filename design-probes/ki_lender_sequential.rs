// PROBE (throw-away), appended to aranya-fast-channels/src/memory/lender.rs in a scratch copy. Not part of the machinery.
#[cfg(kani)]
mod verif_kani {
    use super::*;

    static mut DROPS: u32 = 0;
    struct Payload(u8);
    impl Drop for Payload { fn drop(&mut self) { unsafe { DROPS += 1; } } }

    /// All sequential orders of up to 5 operations on one Lender.
    #[kani::proof]
    #[kani::unwind(7)]
    fn lender_sequential_orders() {
        let mut lender: Option<Lender<Payload, u8>> = Some(Lender::new(Payload(7), 0u8));
        let mut loan: Option<Loan<Payload, u8>> = None;
        let mut step = 0;
        while step < 5 {
            match kani::any::<u8>() % 4 {
                0 => {
                    // lend
                    if let Some(l) = lender.as_ref() {
                        let had = loan.is_some();
                        let new = l.lend();
                        if had { assert!(new.is_none()); } else { assert!(new.is_some()); loan = new; }
                    }
                }
                1 => {
                    // access through the loan
                    if let Some(lo) = loan.as_mut() {
                        let alive = lender.is_some();
                        let got = lo.get_mut();
                        assert!(got.is_some() == alive);
                        if let Some((s, x)) = got { assert!(s.0 == 7); *x = x.wrapping_add(1); }
                    }
                }
                2 => { loan = None; }
                _ => { lender = None; }
            }
            let live = lender.is_some() || loan.is_some();
            unsafe { assert!(DROPS == if live { 0 } else { 1 }); }
            step += 1;
        }
        drop(loan);
        drop(lender);
        unsafe { assert!(DROPS == 1); }
    }
}
