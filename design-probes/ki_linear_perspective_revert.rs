// PROBE (throw-away), appended to aranya-runtime/src/storage/linear/mod.rs in a scratch copy. Not part of the machinery.
#[cfg(kani)]
mod verif_kani {
    use super::*;
    use alloc::string::ToString as _;

    #[derive(Clone)]
    struct NoRead;
    impl Read for NoRead {
        fn fetch<T>(&self, _: u64) -> Result<T, StorageError> where T: serde::de::DeserializeOwned { Err(StorageError::IoError) }
    }
    struct Cmd { id: CmdId, parent: Prior<Address> }
    impl Command for Cmd {
        fn priority(&self) -> Priority { Priority::Basic(0) }
        fn id(&self) -> CmdId { self.id }
        fn parent(&self) -> Prior<Address> { self.parent }
        fn policy(&self) -> Option<&[u8]> { None }
        fn bytes(&self) -> &[u8] { &[] }
    }
    fn k(b: u8) -> Keys { Keys::from_iter([[b]]) }
    fn v(b: u8) -> Bytes { Bytes::from([b]) }
    fn q(p: &LinearPerspective<NoRead>, key: u8) -> Option<u8> {
        match p.query("f", &k(key)) { Ok(Some(b)) => Some(b[0]), Ok(None) => None, Err(_) => { assert!(false); None } }
    }

    /// C13: a rule that wrote facts and then failed is fully undone by revert(checkpoint).
    #[kani::proof]
    #[kani::unwind(6)]
    fn revert_discards_pending_writes() {
        let mut p: LinearPerspective<NoRead> = LinearPerspective::new(Prior::None, Prior::None, PolicyId::new(0), FactPerspectivePrior::None, MaxCut::new(0), None);
        let x: u8 = kani::any();
        assert!(p.insert("f".to_string(), k(1), v(x)).is_ok());
        let mut idb = [0u8; 32]; idb[0] = 1;
        let c0 = Cmd { id: CmdId::from_bytes(idb), parent: Prior::None };
        assert!(p.add_command(&c0).is_ok());
        let cp = p.checkpoint();
        // pending writes of a rule that then fails
        let y: u8 = kani::any();
        if kani::any() { assert!(p.insert("f".to_string(), k(1), v(y)).is_ok()); }
        if kani::any() { assert!(p.delete("f".to_string(), k(1)).is_ok()); }
        if kani::any() { assert!(p.insert("f".to_string(), k(2), v(y)).is_ok()); }
        assert!(p.revert(cp).is_ok());
        assert!(q(&p, 1) == Some(x));
        assert!(q(&p, 2).is_none());
        assert!(p.commands.len() == 1 && p.current_updates.is_empty());
        core::mem::forget(p);
    }

    #[kani::proof]
    #[kani::unwind(6)]
    fn revert_one_pending_insert() {
        let mut p: LinearPerspective<NoRead> = LinearPerspective::new(Prior::None, Prior::None, PolicyId::new(0), FactPerspectivePrior::None, MaxCut::new(0), None);
        let x: u8 = kani::any();
        assert!(p.insert("f".to_string(), k(1), v(x)).is_ok());
        let mut idb = [0u8; 32]; idb[0] = 1;
        let c0 = Cmd { id: CmdId::from_bytes(idb), parent: Prior::None };
        assert!(p.add_command(&c0).is_ok());
        let cp = p.checkpoint();
        let y: u8 = kani::any();
        assert!(p.insert("f".to_string(), k(1), v(y)).is_ok());
        assert!(p.revert(cp).is_ok());
        assert!(q(&p, 1) == Some(x));
        assert!(p.commands.len() == 1 && p.current_updates.is_empty());
        core::mem::forget(p);
    }
}
