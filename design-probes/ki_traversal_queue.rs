// PROBE (throw-away): appended to crates/aranya-runtime/src/storage/mod.rs in a scratch copy.
#[cfg(kani)]
mod verif_kani {
    use super::*;

    fn any_loc() -> Location {
        let seg: u8 = kani::any();
        kani::assume(seg < 4);
        Location::new(SegmentIndex::new(seg as u64), MaxCut::new(kani::any::<u64>()))
    }

    fn queue_of<const LEN: usize>() -> TraversalQueue {
        let mut entries = Vec::with_capacity(LEN + 1);
        let arr: [Location; LEN] = core::array::from_fn(|_| any_loc());
        entries.extend_from_slice(&arr);
        let partition: usize = kani::any();
        kani::assume(partition <= LEN);
        let q = TraversalQueue { entries, partition };
        kani::assume(distinct_segments(&q));
        q
    }

    fn distinct_segments(q: &TraversalQueue) -> bool {
        let n = q.entries.len();
        let mut i = 0;
        while i < n {
            let mut j = i + 1;
            while j < n {
                if q.entries[i].segment == q.entries[j].segment { return false; }
                j += 1;
            }
            i += 1;
        }
        true
    }

    fn find(q: &TraversalQueue, seg: SegmentIndex) -> Option<(MaxCut, bool)> {
        let mut i = 0;
        while i < q.entries.len() {
            if q.entries[i].segment == seg { return Some((q.entries[i].max_cut, i >= q.partition)); }
            i += 1;
        }
        None
    }

    fn check_push_covered<const LEN: usize>() {
        let mut q = queue_of::<LEN>();
        let loc = any_loc();
        let covered: bool = kani::any();
        let before = find(&q, loc.segment);
        let old_len = q.entries.len();
        let other_seg = SegmentIndex::new((loc.segment.get() + 1) % 4);
        let other_before = find(&q, other_seg);
        let r = q.push_covered(loc, covered);
        assert!(r.is_ok());
        assert!(q.partition <= q.entries.len());
        assert!(distinct_segments(&q));
        let after = find(&q, loc.segment);
        match before {
            None => { assert!(after == Some((loc.max_cut, covered))); assert!(q.entries.len() == old_len + 1); }
            Some((mc, cov)) => {
                assert!(q.entries.len() == old_len);
                if loc.max_cut > mc { assert!(after == Some((loc.max_cut, covered))); }
                else if loc.max_cut == mc { assert!(after == Some((mc, cov || covered))); }
                else { assert!(after == Some((mc, cov))); }
            }
        }
        assert!(find(&q, other_seg) == other_before);
    }

    #[kani::proof]
    #[kani::unwind(6)]
    fn push_covered_contract_3() { check_push_covered::<3>(); }
}
