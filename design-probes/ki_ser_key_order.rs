// PROBE (throw-away), appended to aranya-runtime/src/vm_policy/io.rs in a scratch copy. Not part of the machinery.
#[cfg(kani)]
mod verif_kani {
    use super::*;
    use aranya_policy_vm::ident;

    #[kani::proof]
    #[kani::unwind(40)]
    fn ser_key_int_order_and_roundtrip() {
        let a: i64 = kani::any();
        let b: i64 = kani::any();
        let ka = ser_key(&FactKey { identifier: ident!("k"), value: HashableValue::Int(a) });
        let kb = ser_key(&FactKey { identifier: ident!("k"), value: HashableValue::Int(b) });
        assert!(ka.len() == kb.len());
        assert!((a < b) == (ka[..] < kb[..]));
        assert!((a == b) == (ka[..] == kb[..]));
        let back = deser_key(&ka);
        assert!(matches!(&back, Ok(FactKey { value: HashableValue::Int(x), .. }) if *x == a));
        core::mem::forget(back); core::mem::forget(ka); core::mem::forget(kb);
    }
}
