// PROBE (throw-away), appended to aranya-capi-core/src/cstr.rs in a scratch copy. Not part of the machinery.
#[cfg(kani)]
mod verif_kani {
    use super::*;

    #[kani::proof_for_contract(CStrWriter::write)]
    fn write_contract() {
        const CAP: usize = 16;
        const M: usize = 8;
        let mut arr: [MaybeUninit<c_char>; CAP] = [MaybeUninit::new(0x55); CAP];
        let cap: usize = kani::any();
        kani::assume(cap <= CAP);
        let mut nw: usize = kani::any();
        let frag: [u8; M] = [b'a'; M];
        let flen: usize = kani::any();
        kani::assume(flen <= M);
        let mut w = CStrWriter { dst: &mut arr[..cap], nw: &mut nw };
        let s = unsafe { core::str::from_utf8_unchecked(&frag[..flen]) };
        w.write(s);
    }
}

// In-place attributes that were put on the real `CStrWriter::write` for this probe:
//    #[cfg_attr(kani, kani::requires(self.dst.len() <= 16 && s.len() <= 8))]
//    #[cfg_attr(kani, kani::modifies(self.nw))]
//    #[cfg_attr(kani, kani::modifies(self.dst))]
//    #[cfg_attr(kani, kani::ensures(|_| *self.nw == old(*self.nw).saturating_add(s.len())))]
// Run: cargo kani -Z function-contracts --harness write_contract   -> SUCCESSFUL, 101 s
