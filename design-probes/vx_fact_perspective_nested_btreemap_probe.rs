use vstd::prelude::*;
use std::collections::BTreeMap;
verus! {

pub type Name = u64;   // stand-in probe: String key
pub type Keys = u64;   // stand-in probe: Keys key
pub type Bytes = u64;

pub struct LinearFactPerspective { pub map: BTreeMap<Name, BTreeMap<Keys, Option<Bytes>>>, pub prior_is_none: bool }

// R8 helper, verified against vstd's BTreeMap model
fn entry_or_default<'a>(m: &'a mut BTreeMap<Name, BTreeMap<Keys, Option<Bytes>>>, k: Name) -> (r: &'a mut BTreeMap<Keys, Option<Bytes>>)
    ensures
        old(m)@.contains_key(k) ==> *r == old(m)@[k],
        !old(m)@.contains_key(k) ==> r@ == Map::<Keys, Option<Bytes>>::empty(),
{
    if !m.contains_key(&k) { m.insert(k, BTreeMap::new()); }
    m.get_mut(&k).unwrap()
}

impl LinearFactPerspective {
    pub open spec fn flat(&self, n: Name, k: Keys) -> Option<Option<Bytes>> {
        if self.map@.contains_key(n) && self.map@[n]@.contains_key(k) { Some(self.map@[n]@[k]) } else { None }
    }

    fn insert(&mut self, name: Name, keys: Keys, value: Bytes)
        ensures final(self).flat(name, keys) == Some(Some(value)),
    {
        entry_or_default(&mut self.map, name).insert(keys, Some(value));
    }
}
}
fn main() {}
