// PROBE (throw-away), appended to aranya-policy-vm/src/lib.rs in a scratch copy. Not part of the machinery.
#[cfg(kani)]
mod verif_kani {
    extern crate alloc;
    use alloc::vec;
    use crate::*;
    use aranya_crypto::policy::CmdId;

    struct NoIo;
    impl<S: Stack> MachineIO<S> for NoIo {
        type QueryIterator = core::iter::Empty<Result<(FactKeyList, FactValueList), MachineIOError>>;
        fn fact_insert(&mut self, _n: Identifier, _k: impl IntoIterator<Item = FactKey>, _v: impl IntoIterator<Item = FactValue>) -> Result<(), MachineIOError> { Err(MachineIOError::Internal) }
        fn fact_delete(&mut self, _n: Identifier, _k: impl IntoIterator<Item = FactKey>) -> Result<(), MachineIOError> { Err(MachineIOError::Internal) }
        fn fact_query(&self, _n: Identifier, _k: impl IntoIterator<Item = FactKey>) -> Result<Self::QueryIterator, MachineIOError> { Err(MachineIOError::Internal) }
        fn effect(&mut self, _n: Identifier, _f: impl IntoIterator<Item = KVPair>, _c: CmdId, _r: bool) {}
        fn call(&self, _m: usize, _p: usize, _s: &mut S, _c: &CommandContext) -> Result<(), MachineError> { Err(MachineError::new(MachineErrorType::Unknown(alloc::string::String::new()))) }
    }

    fn any_value() -> Value {
        match kani::any::<u8>() % 4 {
            0 => Value::Int(kani::any()),
            1 => Value::Bool(kani::any()),
            2 => Value::NONE,
            _ => Value::Unit,
        }
    }

    fn nofmt(_args: core::fmt::Arguments<'_>) -> alloc::string::String { alloc::string::String::new() }

    #[kani::proof]
    #[kani::unwind(4)]
    #[kani::stub(alloc::fmt::format, nofmt)]
    fn step_add() {
        let machine = Machine::new(vec![Instruction::Add]);
        let mut io = NoIo;
        let ctx = CommandContext::Action(ActionContext { name: ident!("a"), head_id: CmdId::default() });
        let mut rs = machine.create_run_state(&mut io, ctx);
        let a: i64 = kani::any();
        let b: i64 = kani::any();
        let _ = rs.stack.push_value(Value::Int(a));
        let _ = rs.stack.push_value(Value::Int(b));
        let r = rs.step();
        assert!(r.is_ok());
        let top = rs.stack.pop_value();
        match a.checked_add(b) {
            Some(c) => assert!(top == Ok(Value::Option(Some(alloc::boxed::Box::new(Value::Int(c)))))),
            None => assert!(top == Ok(Value::NONE)),
        }
    }

    #[kani::proof]
    #[kani::unwind(4)]
    #[kani::stub(alloc::fmt::format, nofmt)]
    fn step_add2() {
        let machine = Machine::new(vec![Instruction::Add]);
        let mut io = NoIo;
        let ctx = CommandContext::Action(ActionContext { name: ident!("a"), head_id: CmdId::default() });
        let mut rs = machine.create_run_state(&mut io, ctx);
        let a: i64 = kani::any();
        let b: i64 = kani::any();
        let _ = rs.stack.push_value(Value::Int(a));
        let _ = rs.stack.push_value(Value::Int(b));
        let r = rs.step();
        let ok = r.is_ok();
        core::mem::forget(r);
        assert!(ok);
        let top = rs.stack.pop_value();
        let good = match (&top, a.checked_add(b)) {
            (Ok(Value::Option(Some(bx))), Some(c)) => matches!(**bx, Value::Int(x) if x == c),
            (Ok(Value::Option(None)), None) => true,
            _ => false,
        };
        core::mem::forget(top);
        core::mem::forget(rs);
        core::mem::forget(machine);
        assert!(good);
    }

    #[kani::proof]
    #[kani::unwind(4)]
    #[kani::stub(alloc::fmt::format, nofmt)]
    fn step_jump_sym() {
        let t: usize = kani::any();
        let machine = Machine::new(vec![Instruction::Jump(Target::Resolved(t))]);
        let mut io = NoIo;
        let ctx = CommandContext::Action(ActionContext { name: ident!("a"), head_id: CmdId::default() });
        let mut rs = machine.create_run_state(&mut io, ctx);
        let r = rs.step();
        let ok = r.is_ok();
        core::mem::forget(r);
        assert!(ok);
        assert!(rs.pc() == t);
        let r2 = rs.step(); // pc may now be out of range: must be an error, not a panic
        let e2 = r2.is_err();
        core::mem::forget(r2);
        if t != 0 { assert!(e2); }
        core::mem::forget(rs);
        core::mem::forget(machine);
    }

    #[kani::proof]
    #[kani::unwind(4)]
    #[kani::stub(alloc::fmt::format, nofmt)]
    fn step_next() {
        let machine = Machine::new(vec![Instruction::Next]);
        let mut io = NoIo;
        let ctx = CommandContext::Action(ActionContext { name: ident!("a"), head_id: CmdId::default() });
        let mut rs = machine.create_run_state(&mut io, ctx);
        let _ = rs.step();
    }
}
