// PROBE (throw-away), appended to aranya-runtime/src/client/transaction.rs in a scratch copy. Not part of the machinery.
// Ghost state lives in ONE static struct (see DESIGN section 1: separate 1-byte statics aliased).
#[cfg(kani)]
mod verif_kani {
    use alloc::string::String;
    use super::*;
    use crate::{
        Bytes, Checkpoint, Fact, FactIndex, FactPerspective, Keys, MaxCut, Perspective, Policy,
        Priority, Query, QueryMut, Revertable, Segment, SegmentIndex,
        policy::ActionPlacement,
    };

    // ---- ghost event log ----
    #[derive(Copy, Clone, PartialEq, Eq)]
    enum Ev { Begin, Commit, Rollback, Checkpoint, Revert, AddCommand, CallRule, Write, CommitHeads }
    struct Ghost { log: [u8; 8], n: usize, next_id: u8 }
    static mut G: Ghost = Ghost { log: [255; 8], n: 0, next_id: 1 };
    fn code(e: Ev) -> u8 { match e { Ev::Begin => 0, Ev::Commit => 1, Ev::Rollback => 2, Ev::Checkpoint => 3, Ev::Revert => 4, Ev::AddCommand => 5, Ev::CallRule => 6, Ev::Write => 7, Ev::CommitHeads => 8 } }
    fn log(e: Ev) { unsafe { let g = &mut *core::ptr::addr_of_mut!(G); if g.n < 8 { g.log[g.n] = code(e); } g.n += 1; } }
    fn at(i: usize) -> Option<Ev> { unsafe { let g = &*core::ptr::addr_of!(G); if i < 8 { match g.log[i] { 0 => Some(Ev::Begin), 1 => Some(Ev::Commit), 2 => Some(Ev::Rollback), 3 => Some(Ev::Checkpoint), 4 => Some(Ev::Revert), 5 => Some(Ev::AddCommand), 6 => Some(Ev::CallRule), 7 => Some(Ev::Write), 8 => Some(Ev::CommitHeads), _ => None } } else { None } } }
    fn n() -> usize { unsafe { (*core::ptr::addr_of!(G)).n } }

    fn any_serr() -> StorageError { if kani::any() { StorageError::IoError } else { StorageError::NoSuchStorage } }
    fn any_perr() -> PolicyError { match kani::any::<u8>() % 3 { 0 => PolicyError::Rejected, 1 => PolicyError::Panic, _ => PolicyError::InternalError } }
    fn any_loc() -> Location { Location::new(SegmentIndex::new(kani::any()), MaxCut::new(kani::any())) }
    fn any_id() -> CmdId { let mut b = [0u8; 32]; unsafe { let g = &mut *core::ptr::addr_of_mut!(G); b[0] = g.next_id; g.next_id += 1; } CmdId::from_bytes(b) }

    struct MCmd { id: CmdId, parent: Prior<Address>, has_policy: bool }
    impl Command for MCmd {
        fn priority(&self) -> Priority { Priority::Basic(0) }
        fn id(&self) -> CmdId { self.id }
        fn parent(&self) -> Prior<Address> { self.parent }
        fn policy(&self) -> Option<&[u8]> { if self.has_policy { Some(&[1]) } else { None } }
        fn bytes(&self) -> &[u8] { &[] }
    }

    struct MFI;
    impl Query for MFI {
        fn query(&self, _: &str, _: &[Bytes]) -> Result<Option<Bytes>, StorageError> { Err(any_serr()) }
        type QueryIterator = core::iter::Empty<Result<Fact, StorageError>>;
        fn query_prefix(&self, _: &str, _: &[Bytes]) -> Result<Self::QueryIterator, StorageError> { Err(any_serr()) }
    }
    impl FactIndex for MFI {}

    struct MPersp { revert_fails: bool, add_fails: bool }
    impl Query for MPersp {
        fn query(&self, _: &str, _: &[Bytes]) -> Result<Option<Bytes>, StorageError> { Err(any_serr()) }
        type QueryIterator = core::iter::Empty<Result<Fact, StorageError>>;
        fn query_prefix(&self, _: &str, _: &[Bytes]) -> Result<Self::QueryIterator, StorageError> { Err(any_serr()) }
    }
    impl QueryMut for MPersp {
        fn insert(&mut self, _: String, _: Keys, _: Bytes) -> Result<(), StorageError> { Ok(()) }
        fn delete(&mut self, _: String, _: Keys) -> Result<(), StorageError> { Ok(()) }
    }
    impl FactPerspective for MPersp {}
    impl Perspective for MPersp {
        fn policy(&self) -> PolicyId { PolicyId::new(0) }
        fn add_command(&mut self, _c: &impl Command) -> Result<usize, StorageError> {
            log(Ev::AddCommand);
            if self.add_fails { Err(StorageError::PerspectiveHeadMismatch) } else { Ok(1) }
        }
        fn includes(&self, _: CmdId) -> bool { kani::any() }
        fn head_address(&self) -> Result<Prior<Address>, buggy::Bug> { Ok(Prior::None) }
    }
    impl Revertable for MPersp {
        fn checkpoint(&self) -> Checkpoint { log(Ev::Checkpoint); Checkpoint { index: 0 } }
        fn revert(&mut self, _: Checkpoint) -> Result<(), StorageError> {
            log(Ev::Revert);
            if self.revert_fails { Err(any_serr()) } else { Ok(()) }
        }
    }

    struct MSeg;
    impl Segment for MSeg {
        type FactIndex = MFI;
        type Command<'a> = MCmd;
        fn index(&self) -> SegmentIndex { SegmentIndex::new(kani::any()) }
        fn head_id(&self) -> CmdId { any_id() }
        fn policy(&self) -> PolicyId { PolicyId::new(0) }
        fn prior(&self) -> Prior<Location> { Prior::None }
        fn get_command(&self, _: Location) -> Option<MCmd> { None }
        fn facts(&self) -> Result<MFI, StorageError> { Ok(MFI) }
        fn shortest_max_cut(&self) -> MaxCut { MaxCut::new(0) }
        fn longest_max_cut(&self) -> Result<MaxCut, StorageError> { Ok(MaxCut::new(kani::any())) }
        fn skip_list(&self) -> &[Location] { &[] }
    }

    struct MStorage { heads: HeadSet, loc_mode: u8 }
    impl Storage for MStorage {
        type Perspective = MPersp;
        type FactPerspective = MPersp;
        type Segment = MSeg;
        type FactIndex = MFI;
        fn get_location(&self, _: Address, _: &mut TraversalBuffer) -> Result<Option<Location>, StorageError> {
            match self.loc_mode { 0 => Ok(None), 1 => Ok(Some(any_loc())), 2 => Err(any_serr()),
                _ => if kani::any() { Err(any_serr()) } else if kani::any() { Ok(None) } else { Ok(Some(any_loc())) } }
        }
        fn get_location_from(&self, _: Location, _: Address, _: &mut TraversalBuffer) -> Result<Option<Location>, StorageError> {
            if kani::any() { Err(any_serr()) } else if kani::any() { Ok(None) } else { Ok(Some(any_loc())) }
        }
        fn get_linear_perspective(&self, _: Location) -> Result<MPersp, StorageError> {
            if kani::any() { Err(any_serr()) } else { Ok(MPersp { revert_fails: kani::any(), add_fails: kani::any() }) }
        }
        fn get_fact_perspective(&self, _: Location) -> Result<MPersp, StorageError> { Err(any_serr()) }
        fn new_merge_perspective(&self, _: Location, _: Location, _: Location, _: PolicyId, _: MFI) -> Result<MPersp, StorageError> { Err(any_serr()) }
        fn get_segment(&self, _: Location) -> Result<MSeg, StorageError> { if kani::any() { Err(any_serr()) } else { Ok(MSeg) } }
        fn get_heads(&self) -> Result<&HeadSet, StorageError> { Ok(&self.heads) }
        fn heads_offset(&self) -> Result<HeadSetOffset, StorageError> { Ok(HeadSetOffset::new(kani::any())) }
        fn fact_cache(&self) -> Result<MFI, StorageError> { Ok(MFI) }
        fn commit_heads(&mut self, _: HeadSet, _: MFI) -> Result<(), StorageError> { log(Ev::CommitHeads); Ok(()) }
        fn write(&mut self, _: MPersp) -> Result<MSeg, StorageError> { log(Ev::Write); if kani::any() { Err(any_serr()) } else { Ok(MSeg) } }
        fn write_facts(&mut self, _: MPersp) -> Result<MFI, StorageError> { Ok(MFI) }
    }

    struct MSP { storage: MStorage, missing: bool }
    impl StorageProvider for MSP {
        type Perspective = MPersp;
        type Segment = MSeg;
        type Storage = MStorage;
        fn new_perspective(&mut self, _: PolicyId) -> MPersp { MPersp { revert_fails: false, add_fails: false } }
        fn new_storage(&mut self, _: MPersp) -> Result<(GraphId, &mut MStorage), StorageError> { log(Ev::Write); if kani::any() { Err(any_serr()) } else { Ok((GraphId::default(), &mut self.storage)) } }
        fn get_storage(&mut self, _: GraphId) -> Result<&mut MStorage, StorageError> { if self.missing { Err(StorageError::NoSuchStorage) } else { Ok(&mut self.storage) } }
        fn remove_storage(&mut self, _: GraphId) -> Result<(), StorageError> { Ok(()) }
        fn list_graph_ids(&mut self) -> Result<impl Iterator<Item = Result<GraphId, StorageError>>, StorageError> {
            Ok(core::iter::empty())
        }
    }

    struct MPolicy { rule_result_ok: bool, action_ok: bool }
    impl Policy for MPolicy {
        type Action<'a> = ();
        type Effect = ();
        type Command<'a> = MCmd;
        fn serial(&self) -> u32 { 0 }
        fn call_rule(&self, _c: &impl Command, _f: &mut impl FactPerspective, _s: &mut impl Sink<()>, _p: CommandPlacement) -> Result<(), PolicyError> {
            log(Ev::CallRule);
            if self.rule_result_ok { Ok(()) } else { Err(any_perr()) }
        }
        fn call_action(&self, _a: (), _f: &mut impl Perspective, _s: &mut impl Sink<()>, _p: ActionPlacement) -> Result<(), PolicyError> { log(Ev::CallRule); if self.action_ok { Ok(()) } else { Err(any_perr()) } }
        fn merge<'a>(&self, _t: &'a mut [u8], _ids: MergeIds) -> Result<MCmd, PolicyError> { Err(any_perr()) }
    }
    struct MPS { policy: MPolicy, get_fails: bool }
    impl PolicyStore for MPS {
        type Policy = MPolicy;
        type Effect = ();
        fn add_policy(&mut self, _: &[u8]) -> Result<PolicyId, PolicyError> { Ok(PolicyId::new(0)) }
        fn get_policy(&self, _: PolicyId) -> Result<&MPolicy, PolicyError> { if self.get_fails { Err(PolicyError::InternalError) } else { Ok(&self.policy) } }
    }
    struct MSink;
    impl Sink<()> for MSink {
        fn begin(&mut self) { log(Ev::Begin); }
        fn consume(&mut self, _: ()) {}
        fn rollback(&mut self) { log(Ev::Rollback) }
        fn commit(&mut self) { log(Ev::Commit) }
    }

    fn stub_evaluate_braid<S, PS, F, MS>(
        _storage: &mut S,
        _heads: &[Location],
        _sink: &mut impl Sink<PS::Effect>,
        _policy: &PS::Policy,
        _traversal: &mut TraversalBuffer,
        _braid_buf: &mut BraidBuffer<S::Segment>,
        _make_spill: &MS,
    ) -> Result<(S::FactIndex, Location), ClientError>
    where
        S: Storage,
        PS: PolicyStore,
        F: Spill,
        MS: Fn() -> Result<F, StorageError>,
    {
        log(Ev::CallRule); // reuse as "Braid" marker
        Err(ClientError::ParallelFinalize)
    }

    struct NoSpill;
    impl Spill for NoSpill {
        fn write_at(&mut self, _: usize, _: &[u8]) -> Result<(), StorageError> { Ok(()) }
        fn read_at(&mut self, _: usize, _: &mut [u8]) -> Result<(), StorageError> { Ok(()) }
    }

    /// C08/C05: commit — stale offset or braid error => no CommitHeads.
    #[kani::proof]
    #[kani::unwind(34)]
    #[kani::stub(evaluate_braid, stub_evaluate_braid)]
    fn commit_trace_two_heads() {
        let mut trx: Transaction<MSP, MPS> = Transaction::new(GraphId::default());
        let captured: u64 = kani::any();
        let has_offset: bool = kani::any();
        trx.original_heads_offset = if has_offset { Some(HeadSetOffset::new(captured)) } else { None };
        trx.heads.insert(any_id(), Location::new(SegmentIndex::new(1), MaxCut::new(1)));
        trx.heads.insert(any_id(), Location::new(SegmentIndex::new(2), MaxCut::new(1)));
        let mut sp = MSP { storage: MStorage { heads: HeadSet::default(), loc_mode: 3 }, missing: false };
        let mut ps = MPS { policy: MPolicy { rule_result_ok: true, action_ok: false }, get_fails: false };
        let mut sink = MSink;
        let mut bufs: RuntimeBuffers<MSeg> = RuntimeBuffers::new();
        let mk = || -> Result<NoSpill, StorageError> { Ok(NoSpill) };
        let r = trx.commit::<NoSpill, _>(&mut sp, &mut ps, &mut sink, &mut bufs, &mk);
        // multi-head => braid stub fails => never CommitHeads
        let mut i = 0;
        while i < 8 { assert!(at(i) != Some(Ev::CommitHeads)); i += 1; }
        if !has_offset { assert!(matches!(r, Ok(false))); assert!(n() == 0); }
        core::mem::forget(r);
    }

    /// C08: commit with one tip — offset check precedes everything.
    #[kani::proof]
    #[kani::unwind(34)]
    #[kani::stub(evaluate_braid, stub_evaluate_braid)]
    fn commit_trace_one_head() {
        let mut trx: Transaction<MSP, MPS> = Transaction::new(GraphId::default());
        let has_offset: bool = kani::any();
        trx.original_heads_offset = if has_offset { Some(HeadSetOffset::new(7)) } else { None };
        trx.heads.insert(any_id(), Location::new(SegmentIndex::new(1), MaxCut::new(1)));
        let mut sp = MSP { storage: MStorage { heads: HeadSet::default(), loc_mode: 3 }, missing: false };
        let mut ps = MPS { policy: MPolicy { rule_result_ok: true, action_ok: false }, get_fails: false };
        let mut sink = MSink;
        let mut bufs: RuntimeBuffers<MSeg> = RuntimeBuffers::new();
        let mk = || -> Result<NoSpill, StorageError> { Ok(NoSpill) };
        let r = trx.commit::<NoSpill, _>(&mut sp, &mut ps, &mut sink, &mut bufs, &mk);
        if !has_offset { assert!(matches!(r, Ok(false))); assert!(n() == 0); }
        else if matches!(r, Err(ClientError::ConcurrentTransaction)) { assert!(n() == 0); }
        else if matches!(r, Ok(true)) { assert!(n() == 1 && at(0) == Some(Ev::CommitHeads)); kani::cover!(true, "committed"); }
        core::mem::forget(r);
    }

    fn stub_collapse_heads<S, PS, F, MS>(
        _storage: &mut S,
        _policy_store: &mut PS,
        _heads: HeadSet,
        _buffers: &mut RuntimeBuffers<S::Segment>,
        _make_spill: &MS,
    ) -> Result<Location, ClientError>
    where
        S: Storage,
        PS: PolicyStore,
        F: Spill,
        MS: Fn() -> Result<F, StorageError>,
    {
        if kani::any() { Err(ClientError::ParallelFinalize) } else { Ok(Location::new(SegmentIndex::new(1), MaxCut::new(1))) }
    }

    /// C07: action atomicity trace contract.
    #[kani::proof]
    #[kani::unwind(34)]
    #[kani::stub(collapse_heads, stub_collapse_heads)]
    fn action_trace() {
        let ok: bool = kani::any();
        let sp = MSP { storage: MStorage { heads: HeadSet::default(), loc_mode: 3 }, missing: false };
        let ps = MPS { policy: MPolicy { rule_result_ok: true, action_ok: ok }, get_fails: kani::any() };
        let mut client = crate::ClientState::new(ps, sp);
        let mut sink = MSink;
        let mut bufs: RuntimeBuffers<MSeg> = RuntimeBuffers::new();
        let mk = || -> Result<NoSpill, StorageError> { Ok(NoSpill) };
        let r = client.action::<NoSpill, _>(GraphId::default(), &mut sink, (), &mut bufs, mk);
        let mut commits = 0; let mut chead = 0; let mut rollbacks = 0; let mut i = 0;
        let mut pos_commit_heads = 99; let mut pos_sink_commit = 99;
        while i < 8 {
            if at(i) == Some(Ev::Commit) { commits += 1; pos_sink_commit = i; }
            if at(i) == Some(Ev::CommitHeads) { chead += 1; pos_commit_heads = i; }
            if at(i) == Some(Ev::Rollback) { rollbacks += 1; }
            i += 1;
        }
        if r.is_ok() { assert!(at(0) == Some(Ev::Begin), "ok: first is begin"); assert!(at(1) == Some(Ev::CallRule), "ok: second is call"); assert!(at(2) == Some(Ev::Write), "ok: third write"); assert!(at(3) == Some(Ev::CommitHeads), "ok: 4th commitheads"); assert!(at(4) == Some(Ev::Commit), "ok: 5th commit"); }
        kani::cover!(r.is_ok() && commits == 0, "ok0"); kani::cover!(r.is_ok() && commits == 2, "ok2"); kani::cover!(r.is_err() && commits == 1, "err1"); kani::cover!(r.is_err() && commits == 1 && chead == 0 && n() == 4, "err1-n4"); kani::cover!(r.is_err() && commits == 1 && at(0) == Some(Ev::Commit), "err1-first"); kani::cover!(r.is_err() && commits == 1 && at(0) == Some(Ev::Commit) && n() == 1, "only-commit"); kani::cover!(r.is_err() && at(0) == Some(Ev::Commit) && at(1) == Some(Ev::Begin), "commit-then-begin"); kani::cover!(at(0) == Some(Ev::Begin), "begin-first"); kani::cover!(r.is_ok() && n() == 5, "ok-n5"); kani::cover!(r.is_ok() && n() == 6, "ok-n6"); kani::cover!(r.is_ok() && at(0) == Some(Ev::Commit), "ok-c0"); kani::cover!(r.is_ok() && at(1) == Some(Ev::Commit), "ok-c1"); kani::cover!(r.is_ok() && at(2) == Some(Ev::Commit), "ok-c2"); kani::cover!(r.is_ok() && at(3) == Some(Ev::Commit), "ok-c3"); kani::cover!(r.is_ok() && at(4) == Some(Ev::Commit), "ok-c4"); kani::cover!(r.is_ok() && at(5) == Some(Ev::Commit), "ok-c5");
        if r.is_err() { assert!(chead == 0, "err: no commit_heads"); assert!(commits == 0, "err: no sink commit"); }
        else { assert!(chead == 1, "ok: one commit_heads"); assert!(commits == 1, "ok: one sink commit"); assert!(rollbacks == 0, "ok: no rollback"); assert!(pos_commit_heads < pos_sink_commit, "ok: heads before sink commit"); kani::cover!(true, "action ok"); }
        core::mem::forget(r);
        core::mem::forget(client);
    }

    /// C10: init accepts only a parentless command with the graph's id and a policy.
    #[kani::proof]
    #[kani::unwind(34)]
    fn init_trace() {
        let gid_bytes = { let mut b = [0u8; 32]; b[0] = 7; b };
        let graph_id = GraphId::from_bytes(gid_bytes);
        let same_id: bool = kani::any();
        let cmd_id = if same_id { CmdId::from_bytes(gid_bytes) } else { any_id() };
        let parentless: bool = kani::any();
        let parent = if parentless { Prior::None } else { Prior::Single(Address { id: any_id(), max_cut: MaxCut::new(0) }) };
        let has_policy: bool = kani::any();
        let cmd = MCmd { id: cmd_id, parent, has_policy };
        let mut trx: Transaction<MSP, MPS> = Transaction::new(graph_id);
        let mut sp = MSP { storage: MStorage { heads: HeadSet::default(), loc_mode: 3 }, missing: false };
        let rule_ok: bool = kani::any();
        let mut ps = MPS { policy: MPolicy { rule_result_ok: rule_ok, action_ok: false }, get_fails: false };
        let mut sink = MSink;
        let r = trx.init(&cmd, &mut ps, &mut sp, &mut sink);
        let ok = r.is_ok();
        core::mem::forget(r);
        if !(same_id && parentless && has_policy) {
            assert!(!ok);
            assert!(n() == 0); // nothing was touched
        } else if !rule_ok {
            assert!(!ok);
            assert!(at(0) == Some(Ev::Begin) && at(1) == Some(Ev::CallRule) && at(2) == Some(Ev::Rollback) && n() == 3);
        } else if ok {
            assert!(at(0) == Some(Ev::Begin) && at(1) == Some(Ev::CallRule) && at(2) == Some(Ev::AddCommand) && at(3) == Some(Ev::Write) && at(4) == Some(Ev::Commit));
            kani::cover!(true, "init ok");
        } else {
            // storage creation failed: sink must not have committed
            let mut i = 0; while i < 8 { assert!(at(i) != Some(Ev::Commit)); i += 1; }
        }
    }

    fn stub_synthetic_head<S, PS>(_storage: &S, _ps: &PS, _heads: &HeadSet) -> Result<Address, ClientError>
    where S: Storage, PS: PolicyStore {
        if kani::any() { Err(ClientError::InitError) } else {
            let mut b = [0u8; 32]; b[0] = kani::any();
            Ok(Address { id: CmdId::from_bytes(b), max_cut: MaxCut::new(kani::any()) })
        }
    }

    /// C19: "no sync" only if same hello head or head already present; missing graph => sync.
    #[kani::proof]
    #[kani::unwind(34)]
    #[kani::stub(synthetic_head, stub_synthetic_head)]
    fn should_sync_on_hello_contract() {
        let missing: bool = kani::any();
        let loc_mode: u8 = kani::any();
        kani::assume(loc_mode <= 2);
        let sp = MSP { storage: MStorage { heads: HeadSet::default(), loc_mode }, missing };
        let ps = MPS { policy: MPolicy { rule_result_ok: true, action_ok: false }, get_fails: false };
        let mut client = crate::ClientState::new(ps, sp);
        let mut hb = [0u8; 32]; hb[0] = kani::any();
        let head = Address { id: CmdId::from_bytes(hb), max_cut: MaxCut::new(kani::any()) };
        let mut buf = TraversalBuffer::new();
        let r = client.should_sync_on_hello(GraphId::default(), head, &mut buf);
        if missing { assert!(matches!(r, Ok(true))); }
        if matches!(r, Ok(false)) {
            assert!(!missing);
            // either hello_head == head (cannot observe the stub's value here) or the head was found
            kani::cover!(loc_mode == 0, "no-sync via equal hello head");
            kani::cover!(loc_mode == 1, "no-sync via present head");
        }
        if loc_mode == 0 && matches!(r, Ok(false)) { /* must be equal-hello-head case */ }
        if loc_mode == 1 && !missing { assert!(!matches!(r, Ok(true))); }
        core::mem::forget(r); core::mem::forget(client);
    }

    /// C06: add_single trace contract, perspective already positioned at parent.
    #[kani::proof]
    #[kani::unwind(34)]
    fn add_single_trace() {
        let parent = Address { id: any_id(), max_cut: MaxCut::new(kani::any()) };
        let cmd = MCmd { id: any_id(), parent: Prior::Single(parent), has_policy: false };
        let mut trx: Transaction<MSP, MPS> = Transaction::new(GraphId::default());
        trx.perspective = Some(MPersp { revert_fails: kani::any(), add_fails: kani::any() });
        trx.phead = Some(parent.id);
        let old_phead = trx.phead;
        let mut storage = MStorage { heads: HeadSet::default(), loc_mode: 3 };
        let rule_ok: bool = kani::any();
        let mut ps = MPS { policy: MPolicy { rule_result_ok: rule_ok, action_ok: false }, get_fails: kani::any() };
        let mut sink = MSink;
        let mut buf = TraversalBuffer::new();
        let r = trx.add_single(&mut storage, &mut ps, &mut sink, &cmd, parent, &mut buf);
        if ps.get_fails {
            assert!(r.is_err());
            assert!(n() == 0);
        } else if !rule_ok {
            assert!(r.is_err());
            assert!(at(0) == Some(Ev::Begin) && at(1) == Some(Ev::Checkpoint) && at(2) == Some(Ev::CallRule) && at(3) == Some(Ev::Revert));
            assert!(trx.phead == old_phead);
            // no AddCommand / Commit anywhere
            let mut i = 0;
            while i < 8 { assert!(at(i) != Some(Ev::AddCommand) && at(i) != Some(Ev::Commit)); i += 1; }
        } else if r.is_ok() {
            assert!(n() == 5);
            assert!(at(3) == Some(Ev::AddCommand) && at(4) == Some(Ev::Commit));
            assert!(trx.phead == Some(cmd.id));
            kani::cover!(true, "success path reached");
        }
        core::mem::forget(trx);
    }
}
