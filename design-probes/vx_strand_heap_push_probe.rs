#![feature(allocator_api)]
use vstd::prelude::*;
use vstd::multiset::Multiset;
use std::collections::BinaryHeap;

verus! {

#[derive(Clone, Copy, PartialEq, Eq)]
pub enum Priority { Merge, Basic(u32), Finalize, Init }

pub struct Strand { pub key: (Priority, u64), pub next: u64 }

#[verifier::external]
impl PartialEq for Strand { fn eq(&self, o: &Self) -> bool { self.key.1 == o.key.1 } }
#[verifier::external]
impl Eq for Strand {}
#[verifier::external]
impl PartialOrd for Strand { fn partial_cmp(&self, o: &Self) -> Option<core::cmp::Ordering> { Some(self.cmp(o)) } }
#[verifier::external]
impl Ord for Strand { fn cmp(&self, o: &Self) -> core::cmp::Ordering { o.key.1.cmp(&self.key.1) } }

pub enum ClientError { ParallelFinalize }

#[verifier::external_type_specification]
#[verifier::external_body]
#[verifier::reject_recursive_types(T)]
#[verifier::reject_recursive_types(A)]
pub struct ExBinaryHeap<T, A: core::alloc::Allocator>(BinaryHeap<T, A>);

pub uninterp spec fn hvg<T, A: core::alloc::Allocator>(h: &BinaryHeap<T, A>) -> Multiset<T>;
pub open spec fn hv(h: &BinaryHeap<Strand>) -> Multiset<Strand> { hvg(h) }

pub assume_specification<T: Ord, A: core::alloc::Allocator> [BinaryHeap::<T, A>::push] (h: &mut BinaryHeap<T, A>, x: T)
    ensures hvg(final(h)) == hvg(old(h)).insert(x);
pub assume_specification<T: Ord, A: core::alloc::Allocator> [BinaryHeap::<T, A>::pop] (h: &mut BinaryHeap<T, A>) -> (r: Option<T>)
    ensures
        r is None ==> hvg(old(h)).len() == 0 && hvg(final(h)) == hvg(old(h)),
        r is Some ==> hvg(old(h)).count(r->Some_0) > 0 && hvg(final(h)) == hvg(old(h)).remove(r->Some_0);
pub assume_specification<T, A: core::alloc::Allocator> [BinaryHeap::<T, A>::len] (h: &BinaryHeap<T, A>) -> (n: usize)
    ensures n == hvg(h).len();

pub open spec fn is_fin(s: Strand) -> bool { s.key.0 == Priority::Finalize }
pub open spec fn has_fin(m: Multiset<Strand>) -> bool { exists|s: Strand| m.count(s) > 0 && is_fin(s) }

pub struct StrandHeap { pub heap: BinaryHeap<Strand>, pub has_finalize: bool }

impl StrandHeap {
    pub open spec fn inv(&self) -> bool { self.has_finalize == has_fin(hv(&self.heap)) }

    pub fn push(&mut self, strand: Strand) -> (r: Result<(), ClientError>)
        requires old(self).inv(),
        ensures final(self).inv(),
            r is Err ==> is_fin(strand) && old(self).has_finalize && hv(&final(self).heap) == hv(&old(self).heap),
            r is Ok ==> hv(&final(self).heap) == hv(&old(self).heap).insert(strand) && !(is_fin(strand) && old(self).has_finalize),
    {
        if matches!(strand.key.0, Priority::Finalize) {
            if self.has_finalize {
                return Err(ClientError::ParallelFinalize);
            }
            self.has_finalize = true;
        }
        self.heap.push(strand);
        Ok(())
    }
}
}
fn main() {}
