// PROBE (throw-away), appended to aranya-policy-compiler/src/bin/policy-compiler/main.rs in a scratch copy. Not part of the machinery.
#[cfg(kani)]
mod verif_kani {
    use super::*;
    use aranya_policy_lang::lang::ParseError;
    use aranya_policy_module::{Module, ModuleData, ModuleV0};

    static mut NO_VALIDATE: bool = false;
    static mut STUB_FFI: bool = false;
    static mut PARSE_OK: bool = false;
    static mut COMPILE_OK: bool = false;
    static mut VALIDATION_FAILED: bool = false;
    static mut VALIDATE_CALLED: bool = false;
    static mut WROTE: bool = false;

    fn stub_from_matches(_m: &mut clap::ArgMatches) -> Result<Args, clap::Error> { Ok(stub_args()) }
    fn stub_command() -> clap::Command { clap::Command::default() }
    fn stub_get_matches(_c: clap::Command) -> clap::ArgMatches { clap::ArgMatches::default() }
    fn stub_args() -> Args {
        let a = Args { file: PathBuf::new(), out: Some(PathBuf::new()), verbose: false, no_validate: kani::any(), stub_ffi: kani::any() };
        unsafe { NO_VALIDATE = a.no_validate; STUB_FFI = a.stub_ffi; }
        a
    }
    fn stub_read<P: AsRef<std::path::Path>>(_p: P) -> std::io::Result<String> { Ok(String::new()) }
    fn stub_parse(_d: &str) -> Result<aranya_policy_ast::Policy, ParseError> {
        let ok: bool = kani::any();
        unsafe { PARSE_OK = ok; }
        if ok { Ok(aranya_policy_ast::Policy::new(aranya_policy_ast::Version::V2, "")) }
        else { Err(ParseError { kind: Box::new(aranya_policy_lang::lang::ParseErrorKind::Unknown), message: String::new(), span: None, source: None }) }
    }
    fn stub_validate(_m: &Module) -> bool {
        let failed: bool = kani::any();
        unsafe { VALIDATION_FAILED = failed; VALIDATE_CALLED = true; }
        failed
    }
    fn stub_compile<'a>(_c: Compiler<'a>) -> Result<Module, aranya_policy_compiler::CompileError> where 'a: 'a {
        unsafe { COMPILE_OK = true; }
        Ok(Module { data: ModuleData::V0(ModuleV0 {
            progmem: Box::new([]), labels: Default::default(), action_defs: Vec::new(), command_defs: Vec::new(),
            fact_defs: Vec::new(), struct_defs: Vec::new(), enum_defs: Vec::new(), codemap: None, globals: Default::default(),
        }) })
    }
    fn stub_create<P: AsRef<std::path::Path>>(_p: P) -> std::io::Result<File> {
        // writing the module is allowed only for a policy that parsed, compiled and (unless disabled) validated
        unsafe { assert!(PARSE_OK && COMPILE_OK && (NO_VALIDATE || (VALIDATE_CALLED && !VALIDATION_FAILED))); }
        kani::assume(false);
        unreachable!()
    }
    fn noprint(_a: core::fmt::Arguments<'_>) {}

    #[kani::proof]
    #[kani::unwind(3)]
    #[kani::stub(<Args as clap::FromArgMatches>::from_arg_matches_mut, stub_from_matches)]
    #[kani::stub(<Args as clap::CommandFactory>::command, stub_command)]
    #[kani::stub(clap::Command::get_matches, stub_get_matches)]
    #[kani::stub(std::fs::read_to_string, stub_read)]
    #[kani::stub(aranya_policy_lang::lang::parse_policy_document, stub_parse)]
    #[kani::stub(aranya_policy_compiler::validate::validate, stub_validate)]
    #[kani::stub(std::io::_print, noprint)]
    #[kani::stub(aranya_policy_compiler::Compiler::compile, stub_compile)]
    #[kani::stub(std::fs::File::create, stub_create)]
    fn main_contract() {
        let code = main();
        // File::create stub returns Err -> `.expect` panics; model 'wrote' by the flag instead

        let success = unsafe { core::mem::transmute::<ExitCode, u8>(code) } == 0;
        unsafe {
            if success { assert!(PARSE_OK); }
            if !NO_VALIDATE && VALIDATE_CALLED && VALIDATION_FAILED { assert!(!success); }
        }
    }
}
