use vstd::prelude::*;
use std::collections::BTreeMap;
verus! {
fn t(m: &mut BTreeMap<u64, u64>, k: u64, v: u64)
    ensures final(m)@ == old(m)@.insert(k, v)
{
    m.insert(k, v);
}
fn g(m: &BTreeMap<u64, u64>, k: u64) -> (r: Option<u64>)
    ensures r == (if m@.contains_key(k) { Some(m@[k]) } else { None })
{
    match m.get(&k) { Some(v) => Some(*v), None => None }
}
fn r(m: &mut BTreeMap<u64, u64>, k: u64)
    ensures final(m)@ == old(m)@.remove(k)
{
    m.remove(&k);
}
}
fn main() {}
