// PROBE (throw-away), appended to aranya-runtime/src/storage/linear/libc/imp.rs in a scratch copy. Not part of the machinery.
#[cfg(kani)]
mod verif_kani {
    use super::*;

    #[kani::proof]
    fn other_root_involution() {
        assert!(other_root(ROOT_A) == ROOT_B && other_root(ROOT_B) == ROOT_A);
        let s: i64 = kani::any();
        assert!(other_root(s) == ROOT_A || other_root(s) == ROOT_B);
        assert!(other_root(s) != s);
    }

    fn any_root() -> Root {
        Root {
            generation: kani::any(),
            heads: if kani::any() { Some(kani::any()) } else { None },
            fact_cache: if kani::any() { Some(kani::any()) } else { None },
            free_offset: kani::any(),
            checksum: kani::any(),
        }
    }

    /// validate accepts exactly the roots whose checksum field equals calc_checksum().
    #[kani::proof]
    #[kani::unwind(12)]
    fn root_validate_contract() {
        let r = any_root();
        let want = r.checksum == r.calc_checksum();
        let (g, h, f, o, c) = (r.generation, r.heads, r.fact_cache, r.free_offset, r.checksum);
        match r.validate() {
            Ok(v) => { assert!(want); assert!(v.generation == g && v.heads == h && v.fact_cache == f && v.free_offset == o && v.checksum == c); }
            Err(_) => assert!(!want),
        }
    }

    #[kani::proof]
    #[kani::unwind(12)]
    fn root_checksum_only() {
        let r = any_root();
        let c1 = r.calc_checksum();
        let mut r2 = any_root();
        r2.generation = r.generation; r2.heads = r.heads; r2.fact_cache = r.fact_cache; r2.free_offset = r.free_offset;
        assert!(r2.calc_checksum() == c1); // depends only on the four fields
    }

    #[kani::proof]
    fn tracing_only() {
        tracing::warn!("invalid checksum");
    }
}
