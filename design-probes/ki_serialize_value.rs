// PROBE (throw-away), appended to aranya-policy-vm/src/serialize.rs in a scratch copy. Not part of the machinery.
#[cfg(kani)]
mod verif_kani {
    use super::*;
    use aranya_policy_module::TypeKind;

    fn ctx<'a>(sd: &'a StructDefs, ed: &'a EnumDefs, bytes: &'a [u8]) -> DeserializeCtx<'a> {
        DeserializeCtx { struct_defs: sd, enum_defs: ed, bytes }
    }

    #[kani::proof]
    #[kani::unwind(13)]
    fn deser_int_any_bytes() {
        let sd = StructDefs::new();
        let ed = EnumDefs::new();
        let buf: [u8; 11] = kani::any();
        let n: usize = kani::any();
        kani::assume(n <= 11);
        let mut c = ctx(&sd, &ed, &buf[..n]);
        let r = c.deserialize_value(&TypeKind::Int);
        match &r {
            Ok(Value::Int(_)) => { assert!(c.bytes.len() < n); }
            Ok(_) => { assert!(false); }
            Err(_) => {}
        }
        core::mem::forget(r);
    }

    #[kani::proof]
    #[kani::unwind(13)]
    fn roundtrip_int() {
        let sd = StructDefs::new();
        let ed = EnumDefs::new();
        let x: i64 = kani::any();
        let mut s = SerializeCtx { struct_defs: &sd, out: alloc::vec::Vec::with_capacity(16) };
        let v = Value::Int(x);
        let r = s.serialize_value(&v);
        assert!(r.is_ok());
        let out = core::mem::take(&mut s.out);
        let mut c = ctx(&sd, &ed, &out);
        let d = c.deserialize_value(&TypeKind::Int);
        assert!(matches!(d, Ok(Value::Int(y)) if y == x));
        assert!(c.bytes.is_empty());
        core::mem::forget(d); core::mem::forget(v); core::mem::forget(out); core::mem::forget(s);
    }

    #[kani::proof]
    #[kani::unwind(13)]
    fn deser_option_int_tags() {
        let sd = StructDefs::new();
        let ed = EnumDefs::new();
        let buf: [u8; 4] = kani::any();
        let mut c = ctx(&sd, &ed, &buf);
        let k = TypeKind::Optional(alloc::boxed::Box::new(TypeKind::Bool));
        let r = c.deserialize_value(&k);
        if buf[0] > 1 { assert!(matches!(r, Err(DeserializeError::BadInput))); }
        if buf[0] == 0 { assert!(matches!(r, Ok(Value::Option(None)))); }
        core::mem::forget(r); core::mem::forget(k);
    }
}
