// PROBE (throw-away), appended to aranya-runtime/src/client/session.rs in a scratch copy. Not part of the machinery.
#[cfg(kani)]
mod verif_kani {
    use super::*;
    use alloc::vec;

    fn keys1(k: u8) -> Keys { Keys::from_iter([[k]]) }
    fn val(v: u8) -> Bytes { Bytes::from([v]) }
    fn key_of(f: &Fact) -> u8 { f.key[0][0] }

    /// C14: sorted merge, overlay wins, tombstones suppress (prior 2, overlay 2).
    #[kani::proof]
    #[kani::unwind(8)]
    fn query_iterator_merge_2x2() {
        let (a0, a1): (u8, u8) = (kani::any(), kani::any());
        let (b0, b1): (u8, u8) = (kani::any(), kani::any());
        kani::assume(a0 < a1 && b0 < b1);
        let (t0, t1): (bool, bool) = (kani::any(), kani::any()); // overlay tombstones
        let prior = vec![Ok(Fact { key: keys1(a0), value: val(1) }), Ok(Fact { key: keys1(a1), value: val(1) })];
        let current = vec![(keys1(b0), if t0 { None } else { Some(val(2)) }), (keys1(b1), if t1 { None } else { Some(val(2)) })];
        let mut it = QueryIterator::new(prior.into_iter(), current.into_iter());
        // reference: for every key value 0..=255 decide presence and source
        let mut last: i32 = -1;
        let mut count = 0;
        loop {
            let Some(item) = it.next() else { break };
            let Ok(f) = item else { assert!(false); break };
            let k = key_of(&f) as i32;
            assert!(k > last); // strictly ascending, no duplicates
            last = k;
            let k = k as u8;
            let in_overlay = k == b0 || k == b1;
            let tomb = (k == b0 && t0) || (k == b1 && t1);
            assert!(!tomb); // deleted facts never appear
            if in_overlay { assert!(f.value[0] == 2); } else { assert!(k == a0 || k == a1); assert!(f.value[0] == 1); }
            count += 1;
            core::mem::forget(f);
            if count > 4 { assert!(false); break; }
        }
        // every live key is reported
        let live = |k: u8| -> bool { let ov = k == b0 || k == b1; if ov { !((k == b0 && t0) || (k == b1 && t1)) } else { k == a0 || k == a1 } };
        let mut expect = 0;
        if live(a0) { expect += 1; } if live(a1) { expect += 1; }
        if b0 != a0 && b0 != a1 && live(b0) { expect += 1; }
        if b1 != a0 && b1 != a1 && live(b1) { expect += 1; }
        assert!(count == expect);
        core::mem::forget(it);
    }

    #[kani::proof]
    #[kani::unwind(6)]
    fn query_iterator_merge_1x1() {
        let a0: u8 = kani::any();
        let b0: u8 = kani::any();
        let t0: bool = kani::any();
        let prior = vec![Ok(Fact { key: keys1(a0), value: val(1) })];
        let current = vec![(keys1(b0), if t0 { None } else { Some(val(2)) })];
        let mut it = QueryIterator::new(prior.into_iter(), current.into_iter());
        let first = it.next();
        let second = it.next();
        let third = it.next();
        assert!(third.is_none());
        let k1 = match &first { Some(Ok(f)) => Some((key_of(f), f.value[0])), _ => None };
        let k2 = match &second { Some(Ok(f)) => Some((key_of(f), f.value[0])), _ => None };
        if a0 == b0 { if t0 { assert!(k1.is_none()); } else { assert!(k1 == Some((b0, 2)) && k2.is_none()); } }
        else if t0 { assert!(k1 == Some((a0, 1)) && k2.is_none()); }
        else if a0 < b0 { assert!(k1 == Some((a0, 1)) && k2 == Some((b0, 2))); }
        else { assert!(k1 == Some((b0, 2)) && k2 == Some((a0, 1))); }
        core::mem::forget(first); core::mem::forget(second); core::mem::forget(it);
    }
}
