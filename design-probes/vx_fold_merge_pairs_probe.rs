use vstd::prelude::*;
use std::collections::VecDeque;
verus! {
pub enum ClientError { Bug, Other }

// fold_merge_pairs, body verbatim except: `bug!("head set was empty")` -> `return Err(ClientError::Bug)`,
// `entries.into_iter().collect()` -> parameter is already a VecDeque (R: collect of an iterator into VecDeque preserves order)
fn fold_merge_pairs<E>(
    entries: VecDeque<E>,
    mut step: impl FnMut(E, E) -> Result<E, ClientError>,
) -> (r: Result<E, ClientError>)
    requires forall|a: E, b: E| step.requires((a, b)),
    ensures entries@.len() == 0 ==> r is Err,
            entries@.len() == 1 ==> r is Ok && r->Ok_0 == entries@[0],
{
    let mut q: VecDeque<E> = entries;
    while let Some(left) = q.pop_front()
        invariant forall|a: E, b: E| step.requires((a, b)),
            q@.len() <= entries@.len(),
            entries@.len() == 1 ==> q@ == entries@ || q@.len() == 0,
        decreases q@.len(),
    {
        let Some(right) = q.pop_front() else {
            return Ok(left);
        };
        q.push_back(step(left, right)?);
    }
    Err(ClientError::Bug)
}
}
fn main() {}
