// PROBE (throw-away), appended to aranya-policy-text/src/ident.rs in a scratch copy. Not part of the machinery.
#[cfg(kani)]
mod verif_kani {
    use super::*;

    fn spec_valid(b: &[u8]) -> bool {
        if b.is_empty() { return false; }
        let mut i = 0;
        while i < b.len() {
            let c = b[i];
            let alpha = (c >= b'a' && c <= b'z') || (c >= b'A' && c <= b'Z');
            let ok = if i == 0 { alpha } else { alpha || (c >= b'0' && c <= b'9') || c == b'_' };
            if !ok { return false; }
            i += 1;
        }
        true
    }

    fn check<const LEN: usize>() {
        let arr: [u8; LEN] = kani::any();
        let mut i = 0;
        while i < LEN { kani::assume(arr[i] < 128); i += 1; }
        let s = unsafe { core::str::from_utf8_unchecked(&arr) };
        let r = Identifier::validate(s);
        assert!(r.is_ok() == spec_valid(&arr));
        let t = Text::validate(s);
        let mut has_nul = false;
        let mut j = 0;
        while j < LEN { if arr[j] == 0 { has_nul = true; } j += 1; }
        assert!(t.is_ok() == !has_nul);
        if r.is_ok() { assert!(t.is_ok()); }
        core::mem::forget(r);
        core::mem::forget(t);
    }

    #[kani::proof]
    #[kani::unwind(8)]
    fn ident_validate_len4() { check::<4>(); }

    #[kani::proof]
    #[kani::unwind(30)]
    fn repr_roundtrip_len23() {
        const LEN: usize = 23; // first heap length (MAX_INLINE = 22)
        let arr: [u8; LEN] = kani::any();
        let mut i = 0;
        while i < LEN { kani::assume(arr[i] < 128); i += 1; }
        let s = unsafe { core::str::from_utf8_unchecked(&arr) };
        let r = crate::repr::Repr::from_str(s);
        assert!(matches!(r, crate::repr::Repr::Heap(_)));
        let back = r.as_str().as_bytes();
        assert!(back.len() == LEN);
        let mut k = 0;
        while k < LEN { assert!(back[k] == arr[k]); k += 1; }
        let c = r.clone();
        drop(r);
        assert!(c.as_str().len() == LEN);
        drop(c);
    }
}
