// PROBE (throw-away), appended to aranya-runtime/src/command.rs in a scratch copy. Not part of the machinery.
#[cfg(kani)]
mod verif_kani_prio {
    use super::*;

    fn any_prio() -> Priority {
        match kani::any::<u8>() % 4 { 0 => Priority::Merge, 1 => Priority::Basic(kani::any()), 2 => Priority::Finalize, _ => Priority::Init }
    }
    fn rank(p: &Priority) -> u64 {
        match p { Priority::Merge => 0, Priority::Basic(n) => 1 + *n as u64, Priority::Finalize => 1 + (1u64 << 32), Priority::Init => 2 + (1u64 << 32) }
    }

    /// C03/C01: derived Ord on Priority is exactly Merge < Basic(n) (by n) < Finalize < Init.
    #[kani::proof]
    fn priority_order_is_rank_order() {
        let a = any_prio();
        let b = any_prio();
        assert!(a.cmp(&b) == rank(&a).cmp(&rank(&b)));
        assert!((a == b) == (rank(&a) == rank(&b)));
    }
}
