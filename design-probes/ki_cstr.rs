// PROBE (throw-away): appended to crates/aranya-capi-core/src/cstr.rs in a scratch copy.
#[cfg(kani)]
mod verif_kani {
    use super::*;

    #[kani::proof]
    fn write_step_arr() {
        const CAP: usize = 16;
        const M: usize = 8;
        let mut arr: [MaybeUninit<c_char>; CAP] = [MaybeUninit::new(0x55); CAP];
        let cap: usize = kani::any();
        kani::assume(cap <= CAP);
        let mut nw: usize = 0;
        let nw0: usize = kani::any();
        let frag: [u8; M] = [b'a'; M];
        let flen: usize = kani::any();
        kani::assume(flen <= M);
        {
            let mut w = CStrWriter::new(&mut arr[..cap], &mut nw);
            *w.nw = nw0;
            let s = unsafe { core::str::from_utf8_unchecked(&frag[..flen]) };
            w.write(s);
        }
        assert!(nw == nw0.saturating_add(flen));
    }
}
