// PROBE (throw-away), appended to aranya-runtime/src/client/braiding.rs in a scratch copy. Not part of the machinery.
#[cfg(kani)]
mod verif_kani {
    use super::strand_heap::*;
    use crate::{ClientError, CmdId, Location, MaxCut, Priority, SegmentIndex};

    fn any_prio() -> Priority {
        match kani::any::<u8>() % 4 { 0 => Priority::Merge, 1 => Priority::Basic(kani::any()), 2 => Priority::Finalize, _ => Priority::Init }
    }
    fn id(i: u8) -> CmdId { let mut b = [0u8; 32]; b[0] = i; CmdId::from_bytes(b) }
    fn loc(i: u8) -> Location { Location::new(SegmentIndex::new(i as u64), MaxCut::new(i as u64)) }

    use super::{BraidResult, BRAID_BLOCK_ENTRIES};
    use crate::{storage::Spill, StorageError};

    /// Array-backed Spill satisfying the trait contract (read returns what was written).
    struct ArrSpill { data: [u8; 96] }
    impl Spill for ArrSpill {
        fn write_at(&mut self, offset: usize, d: &[u8]) -> Result<(), StorageError> {
            if offset + d.len() > 96 { return Err(StorageError::IoError); }
            self.data[offset..offset + d.len()].copy_from_slice(d);
            Ok(())
        }
        fn read_at(&mut self, offset: usize, d: &mut [u8]) -> Result<(), StorageError> {
            if offset + d.len() > 96 { return Err(StorageError::IoError); }
            d.copy_from_slice(&self.data[offset..offset + d.len()]);
            Ok(())
        }
    }

    fn sym_loc() -> Location { Location::new(SegmentIndex::new(kani::any()), MaxCut::new(kani::any())) }

    /// C02: iteration = reverse(mem) then reverse(spilled), 2 in memory + 3 spilled.
    #[kani::proof]
    #[kani::unwind(8)]
    fn braid_iter_mem2_disk3() {
        let mut r: BraidResult<ArrSpill> = BraidResult::new(ArrSpill { data: [0; 96] });
        let d = [sym_loc(), sym_loc(), sym_loc()];
        // spill three entries through the real flush path
        let _ = r.mem.push(d[0]); let _ = r.mem.push(d[1]); let _ = r.mem.push(d[2]);
        assert!(r.flush_to_disk().is_ok());
        assert!(r.spill_len == 3 && r.mem.is_empty());
        let m = [sym_loc(), sym_loc()];
        assert!(r.push(m[0]).is_ok()); assert!(r.push(m[1]).is_ok());
        let mut it = match r.iter() { Ok(it) => it, Err(_) => { assert!(false); return; } };
        let expect = [m[1], m[0], d[2], d[1], d[0]];
        let mut k = 0;
        while k < 5 {
            match it.next() { Some(Ok(l)) => assert!(l == expect[k]), _ => assert!(false) }
            k += 1;
        }
        assert!(it.next().is_none());
    }

    struct BigSpill { data: [u8; 8192] }
    impl Spill for BigSpill {
        fn write_at(&mut self, offset: usize, d: &[u8]) -> Result<(), StorageError> {
            if offset + d.len() > 8192 { return Err(StorageError::IoError); }
            self.data[offset..offset + d.len()].copy_from_slice(d);
            Ok(())
        }
        fn read_at(&mut self, offset: usize, d: &mut [u8]) -> Result<(), StorageError> {
            if offset + d.len() > 8192 { return Err(StorageError::IoError); }
            d.copy_from_slice(&self.data[offset..offset + d.len()]);
            Ok(())
        }
    }

    /// C02 (thorough): 258 pushes through the real auto-spill path, replayed in reverse.
    #[kani::proof]
    #[kani::unwind(262)]
    fn braid_iter_auto_spill_258() {
        const N: usize = BRAID_BLOCK_ENTRIES + 2;
        let mut r: BraidResult<BigSpill> = BraidResult::new(BigSpill { data: [0; 8192] });
        let locs: [Location; N] = core::array::from_fn(|_| sym_loc());
        let mut i = 0;
        while i < N { assert!(r.push(locs[i]).is_ok()); i += 1; }
        assert!(r.spill_len == BRAID_BLOCK_ENTRIES);
        let mut it = match r.iter() { Ok(it) => it, Err(_) => { assert!(false); return; } };
        let mut k = 0;
        while k < N {
            match it.next() { Some(Ok(l)) => assert!(l == locs[N - 1 - k]), _ => assert!(false) }
            k += 1;
        }
        assert!(it.next().is_none());
    }

    fn check_push<const LEN: usize>() {
        let mut h: StrandHeap<()> = StrandHeap::new();
        let mut i: u8 = 0;
        while (i as usize) < LEN {
            let r = h.push(kani_mk((any_prio(), id(i)), loc(i), ()));
            kani::assume(r.is_ok());
            i += 1;
        }
        assert!(kani_inv(&h));
        let mut had_fin = false;
        for s in h.iter() { if s.is_finalize_for_kani() { had_fin = true; } }
        let p = any_prio();
        let is_fin = matches!(p, Priority::Finalize);
        let r = h.push(kani_mk((p, id(100)), loc(100), ()));
        assert!(kani_inv(&h));
        match r {
            Ok(()) => { assert!(!(is_fin && had_fin)); assert!(h.iter().count() == LEN + 1); }
            Err(e) => { assert!(is_fin && had_fin); assert!(matches!(e, ClientError::ParallelFinalize)); assert!(h.iter().count() == LEN); }
        }
        // pop returns the minimum key (max under the reversed order)
        core::mem::forget(h);
    }

    #[kani::proof]
    #[kani::unwind(36)]
    fn strand_heap_push_len2() { check_push::<2>(); }
}
