// PROBE (throw-away), appended to aranya-runtime/src/storage/head_set.rs in a scratch copy. Not part of the machinery.
#[cfg(kani)]
mod verif_kani {
    use super::*;
    use crate::{CmdId, storage::{MaxCut, SegmentIndex}};

    fn any_la() -> LocatedAddress {
        let mut b = [0u8; 32];
        b[0] = kani::any();
        b[31] = kani::any();
        LocatedAddress { id: CmdId::from_bytes(b), segment: SegmentIndex::new(kani::any::<u8>() as u64), max_cut: MaxCut::new(kani::any::<u8>() as u64) }
    }
    fn strictly_sorted(h: &HeadSet) -> bool {
        let mut i = 1;
        while i < h.heads.len() { if !(h.heads[i - 1] < h.heads[i]) { return false; } i += 1; }
        true
    }
    fn contains(h: &HeadSet, x: LocatedAddress) -> bool {
        let mut i = 0;
        while i < h.heads.len() { if h.heads[i] == x { return true; } i += 1; }
        false
    }
    fn check<const LEN: usize>() {
        let arr: [LocatedAddress; LEN] = core::array::from_fn(|_| any_la());
        let mut heads = Vec::with_capacity(LEN + 1);
        heads.extend_from_slice(&arr);
        let mut h = HeadSet { heads };
        kani::assume(strictly_sorted(&h));
        let x = any_la();
        let y = any_la();
        let had_x = contains(&h, x);
        let had_y = contains(&h, y);
        h.push(x);
        assert!(strictly_sorted(&h));
        assert!(contains(&h, x));
        assert!(h.heads.len() == LEN + if had_x { 0 } else { 1 });
        if y != x { assert!(contains(&h, y) == had_y); }
        core::mem::forget(h);
    }
    #[kani::proof]
    #[kani::unwind(40)]
    fn headset_push_len2x() { check::<2>(); }
}
