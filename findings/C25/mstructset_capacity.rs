//! Demonstration for the C25 finding "MStructSet / with_capacity(n) on a bytecode-controlled count".
//! Copy to crates/aranya-policy-vm/tests/ and run:
//!   cargo test -p aranya-policy-vm --offline --test mstructset_capacity
//! Before the fix: panics with "capacity overflow". After the fix: a machine error.
use core::num::NonZeroUsize;

use aranya_policy_vm::{
    ActionContext, CommandContext, Instruction, Machine, MachineIO, MachineIOError, MachineStack,
    ident,
};

struct NoIo;
impl MachineIO<MachineStack> for NoIo {
    type QueryIterator = core::iter::Empty<Result<(aranya_policy_vm::FactKeyList, aranya_policy_vm::FactValueList), MachineIOError>>;
    fn fact_insert(&mut self, _: aranya_policy_vm::Identifier, _: impl IntoIterator<Item = aranya_policy_vm::FactKey>, _: impl IntoIterator<Item = aranya_policy_vm::FactValue>) -> Result<(), MachineIOError> { Err(MachineIOError::Internal) }
    fn fact_delete(&mut self, _: aranya_policy_vm::Identifier, _: impl IntoIterator<Item = aranya_policy_vm::FactKey>) -> Result<(), MachineIOError> { Err(MachineIOError::Internal) }
    fn fact_query(&self, _: aranya_policy_vm::Identifier, _: impl IntoIterator<Item = aranya_policy_vm::FactKey>) -> Result<Self::QueryIterator, MachineIOError> { Err(MachineIOError::Internal) }
    fn effect(&mut self, _: aranya_policy_vm::Identifier, _: impl IntoIterator<Item = aranya_policy_vm::KVPair>, _: aranya_crypto::policy::CmdId, _: bool) {}
    fn call(&self, _: usize, _: usize, _: &mut MachineStack, _: &CommandContext) -> Result<(), aranya_policy_vm::MachineError> { Err(aranya_policy_vm::MachineError::new(aranya_policy_vm::MachineErrorType::Unknown(String::new()))) }
}

#[test]
fn mstructset_with_huge_count_is_an_error_not_a_panic() {
    let machine = Machine::new(vec![Instruction::MStructSet(NonZeroUsize::MAX)]);
    let mut io = NoIo;
    let ctx = CommandContext::Action(ActionContext { name: ident!("a"), head_id: Default::default() });
    let mut rs = machine.create_run_state(&mut io, ctx);
    let r = rs.step();
    assert!(r.is_err(), "hand-built MStructSet(usize::MAX) must be rejected, got {r:?}");
}
