    /// A poll that fails with `BufferTooSmall` must be retryable with a larger
    /// buffer "without losing commands" (see `get_next`).
    #[test]
    fn buffer_too_small_retry_loses_no_commands() {
        let (mut b, graph_id) = client_with_two_segments(60);
        let mut c = new_client();

        let mut sink = new_sink();
        let mut rt_buffers = RuntimeBuffers::new();
        let req_cache = PeerCache::new();
        let mut resp_cache = PeerCache::new();
        let mut requester = SyncRequester::new(graph_id, Rng);
        let mut responder = SyncResponder::new();
        let mut buffer = vec![0u8; MAX_SYNC_MESSAGE_SIZE];
        let (len, _sent) = requester
            .poll(&mut buffer, c.provider(), &req_cache.session_heads(), &mut rt_buffers.traversal.primary)
            .expect("requester poll");
        match SyncIncoming::decode(&buffer[..len]).expect("decode") {
            SyncIncoming::Poll(poll) => responder.receive(poll).expect("responder receive"),
            _ => panic!("expected a poll message"),
        }

        // First poll: a buffer that holds the response header but not the command data.
        let mut small = vec![0u8; 9 * 1024];
        let err = responder
            .poll(&mut small, b.provider(), &mut resp_cache, &mut rt_buffers.traversal)
            .expect_err("small buffer must not fit the response");
        assert!(matches!(err, SyncError::BufferTooSmall), "got {err:?}");
        assert!(responder.ready(), "responder must stay ready for the retry");

        // Retry with a large buffer and finish the session.
        let mut trx = c.transaction(graph_id);
        let mut received = 0;
        let mut rounds = 0;
        while responder.ready() {
            rounds += 1;
            assert!(rounds <= 64, "sync session did not terminate");
            let len = responder
                .poll(&mut buffer, b.provider(), &mut resp_cache, &mut rt_buffers.traversal)
                .expect("responder poll");
            if len == 0 { break; }
            let Some(cmds) = requester.receive(&buffer[..len]).expect("requester receive") else { break; };
            received += c
                .add_commands(&mut trx, &mut sink, &cmds, &mut rt_buffers, MemSpill::new)
                .expect("add_commands");
        }
        c.commit(trx, &mut sink, &mut rt_buffers, MemSpill::new).expect("commit");
        assert_eq!(received, 120, "all 120 commands must arrive after the retry");
        assert_eq!(
            c.head_address(graph_id).expect("c head"),
            b.head_address(graph_id).expect("b head"),
        );
    }
