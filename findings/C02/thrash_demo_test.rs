
#[cfg(test)]
mod thrash_tests {
    use super::*;
    use crate::{
        ClientState, MemSpill, SegmentIndex, StorageProvider as _,
        storage::linear::testing::MemStorageProvider,
        testing::protocol::{TestActions, TestPolicyStore, TestSink},
    };

    /// 4 spilled blocks whose ranges all contain the queried max cut, and a location that
    /// is not a convergence point: the spilled-block scan must terminate.
    #[test]
    fn scan_of_overlapping_spilled_blocks_terminates() {
        let mut client = ClientState::new(TestPolicyStore::new(), MemStorageProvider::default());
        let mut sink = TestSink::new();
        sink.ignore_expectations(true);
        let graph_id = client
            .new_graph(&0u64.to_be_bytes(), TestActions::Init(0), &mut sink)
            .expect("new_graph");

        let (tx, rx) = std::sync::mpsc::channel();
        std::thread::spawn(move || {
            let storage = client.provider().get_storage(graph_id).expect("storage");
            let mut cs = ConvergenceStorage::new();
            let mut q = TraversalQueue::new();
            let lca = Location::new(SegmentIndex::new(0), MaxCut::new(0));
            let mut cm =
                ConvergenceMap::new(&[], lca, &mut q, &mut cs, MemSpill::new().unwrap()).unwrap();
            for i in 0..(4 * BLOCK_ENTRIES + 1) {
                cm.insert_entry(Entry {
                    location: Location::new(SegmentIndex::new(1 + i as u64), MaxCut::new(15)),
                    count: 2,
                })
                .unwrap();
            }
            assert_eq!(cm.storage.root.len(), 4);
            let absent = Location::new(SegmentIndex::new(999_999), MaxCut::new(15));
            let r = cm.should_continue(storage, absent);
            let _ = tx.send(r.is_ok());
        });
        let got = rx.recv_timeout(std::time::Duration::from_secs(20));
        assert!(got.is_ok(), "should_continue did not return within 20 s: {got:?}");
    }
}

