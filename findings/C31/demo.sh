#!/bin/sh
# C31 demonstration against the real binary: a policy that passes validation must exit 0 and
# produce a module; one that fails validation must exit non-zero and write nothing.
set -u
cd "$(dirname "$0")"
BIN=${BIN:-/repo/target/debug/policy-compiler}
( cd /repo && cargo build -q --offline -p aranya-policy-compiler --bin policy-compiler ) || exit 2
rm -f /tmp/c31_valid.pmod /tmp/c31_invalid.pmod /tmp/c31_garbage.pmod
"$BIN" valid.md -o /tmp/c31_valid.pmod; rv=$?
"$BIN" invalid.md -o /tmp/c31_invalid.pmod; ri=$?
"$BIN" garbage.md -o /tmp/c31_garbage.pmod >/dev/null 2>&1; rg=$?
rm -f /tmp/c31_nv.pmod; "$BIN" invalid.md --no-validate -o /tmp/c31_nv.pmod >/dev/null 2>&1; rn=$?
echo "unparsable:     exit=$rg module_written=$([ -f /tmp/c31_garbage.pmod ] && echo yes || echo no)   (expected exit!=0 no)"
echo "invalid + --no-validate: exit=$rn module_written=$([ -f /tmp/c31_nv.pmod ] && echo yes || echo no)   (expected exit=0 yes)"
[ $rg -ne 0 ] && [ ! -f /tmp/c31_garbage.pmod ] && [ $rn -eq 0 ] && [ -f /tmp/c31_nv.pmod ] || { echo "C31 VIOLATED on these inputs"; exit 1; }
echo "valid policy:   exit=$rv module_written=$([ -f /tmp/c31_valid.pmod ] && echo yes || echo no)   (expected exit=0 yes)"
echo "invalid policy: exit=$ri module_written=$([ -f /tmp/c31_invalid.pmod ] && echo yes || echo no)   (expected exit!=0 no)"
[ $rv -eq 0 ] && [ -f /tmp/c31_valid.pmod ] && [ $ri -ne 0 ] && [ ! -f /tmp/c31_invalid.pmod ] && { echo "C31 holds on these inputs"; exit 0; }
echo "C31 VIOLATED on these inputs"; exit 1
