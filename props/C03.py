from lib.core import Kani, Fn
from props.C04 import LCA_UNIT
from props.C02 import CM_UNIT

PROPERTY = 'C03'
LEVEL = 'proof'
C = 'crates/aranya-runtime/src/command.rs'
B = 'crates/aranya-runtime/src/client/braiding.rs'
RT = dict(crate='aranya-runtime', features='testing,libc')
HARNESS_FILES = ['verus/c04_lca.py', 'verus/c02_convergence_map.py', 'kani/aranya-runtime/command.rs', 'kani/aranya-runtime/strand_heap.rs', 'kani/aranya-runtime/convergence_map.rs']
UNITS = [
    LCA_UNIT,
    CM_UNIT,
    Kani('command::verif_kani::c03_priority_order_is_rank_order', fns=[], contract='derive(Ord) on Priority = Merge < Basic(n) by n < Finalize < Init, all pairs (complete)', **RT),
    Kani('client::braiding::strand_heap::verif_kani::c03_strand_order_is_reversed_priority_then_id', fns=[Fn(B, 'cmp', r'impl<S> Ord for Strand<S>', mod=r'pub\(crate\) mod strand_heap')],
         contract='Strand::cmp = reversed lexicographic (priority rank, id bytes); eq <=> cmp = Equal; tie-break is the command id; a Finalize strand never pops before a concurrent Basic/Merge strand', **RT),
    Kani('command::verif_kani::c03_command_max_cut_contract', fns=[Fn(C, 'max_cut', r'impl<C: Command> CommandExt for C')],
         contract='CommandExt::max_cut: None -> 0, Single(p) -> p+1, Merge(l,r) -> max(l,r)+1 for all u64 (overflow case is a Bug, excluded); address() = (id, max_cut)', **RT),
    Kani('client::convergence_map::verif_kani::c02_block_codec_roundtrip_n2', fns=[Fn('crates/aranya-runtime/src/client/convergence_map.rs', 'insert', r'impl Block')], kind='bounded', bound='block of 2 entries',
         contract='spill independence (mechanism): a convergence block reloaded from the spill file holds the same entries and max-cut bounds that cover every entry, '
                  'so lookups of spilled convergence points use a correct range', **RT),
]
TRUSTED = ['ids vary in their first and last byte in the order harness (the comparison is a 32-byte memcmp)']
ASSUMPTIONS = ['equality of the braided fact state with the reference braid over all DAGs (LCA correctness, segment-layout independence) is history-level and is NOT decided',
               'the braid loop itself (strand pops, same-segment check) is not under contract; lca_pair / last_common_ancestor and the convergence map are (units shared with C04 / C02)']
EXPLANATION = 'The deterministic order that the reference braid is defined by (priority, then id, reversed for the heap) and the max-cut arithmetic are proved on the real types over their full domains.'
MANIFEST = {
    'text': 'Proof of mechanisms only: the braid tie-break order (Priority rank then command id, reversed for the max-heap) and the max-cut arithmetic, over their full domains on the real types; '
            'the braid\'s cut (last common ancestor) is a common ancestor of all heads and its convergence map drops every arrival but the last (Verus, unbounded). '
            'Reference-model equality over all DAGs is not decided.',
    'note': 'Mechanism contracts only (PROVED-LOCAL).',
    'technique': 'Kani contract harnesses (loop-free, full domains; CBMC) + Verus units shared with C04 (LCA) and C02 (convergence map)',
}
