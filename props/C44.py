from lib.core import Kani, Fn

PROPERTY = 'C44'
LEVEL = 'proof'
L = 'crates/aranya-fast-channels/src/memory/lender.rs'
M = 'memory::lender::verif_kani::'
HARNESS_FILES = ['kani/aranya-fast-channels/lender.rs']
K = dict(crate='aranya-fast-channels', features='std,memory')
CON = ('every sequential order of lend / access-through-loan / drop loan / drop lender: lend is Some iff no loan is live; the loan reaches the data iff the lender is alive; '
       'the shared data is dropped exactly once, only after both handles are gone; no use after free / double free (CBMC pointer checks on the unsafe BiArc code)')
UNITS = [
    Kani(M + 'c44_lender_sequential_orders_5', fns=[Fn(L, 'lend', r'impl<S, R> Lender<S, R>')], kind='bounded', bound='operation sequences of length 5 (4^5 orders, explored symbolically)', contract=CON, **K),
    Kani(M + 'c44_lender_sequential_orders_7', fns=[Fn(L, 'lend', r'impl<S, R> Lender<S, R>')], kind='bounded', bound='operation sequences of length 7', tiers=('thorough',), cap_s=1800, contract=CON, **K),
]
TRUSTED = ['atomics are executed sequentially (Kani model): Acquire/Release/AcqRel orderings are NOT checked']
ASSUMPTIONS = ['thread interleavings (the property quantifies over schedules) are NOT covered: only sequential orders; a change that only weakens a memory ordering is invisible here']
EXPLANATION = 'The handle code is loop-free; a symbolic operation sequence explores every sequential order of the four operations.'
MANIFEST = {
    'text': 'Proof for all SEQUENTIAL orders (up to 5 operations quick, 7 thorough): exclusivity of the loan, revocation when the entry is dropped, and exactly-once freeing of the shared data, '
            'with CBMC pointer checks on the unsafe two-handle arc. Cross-thread interleavings and atomic orderings are out of reach of Kani and are not claimed.',
    'note': 'Sequential only; atomics modelled sequentially; interleavings not covered.',
    'technique': 'Kani harness over symbolic operation sequences + CBMC pointer checks',
}
