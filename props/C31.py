from lib.core import Verus
from verus import c31_cli_main as cm

PROPERTY = 'C31'
LEVEL = 'proof'
HARNESS_FILES = ['verus/c31_cli_main.py']


def build():
    text, located, dropped, raws = cm.build()
    return text, located, dropped


UNITS = [
    Verus('c31_cli_main', build, min_verified=1,
          contract='main: exit SUCCESS => parsed and compiled and (no_validate or not validation_failed); '
                   'parsed, compiled, validation on and failed => exit FAILURE; write_module requires (no_validate or not validation_failed)'),
]
# concrete witnesses run against the real binary when the proof fails (gives the replay a failing input)
WITNESS_CMD = ['sh', '/verif/findings/C31/demo.sh']
TRUSTED = ['clap Args::parse, fs::read_to_string, parse_policy_document, Compiler::compile, File::create + ciborium::into_writer are external '
           '(uninterpreted results); a panic in .expect(..) is outside the contract',
           'validate(&module) returns true iff a validation trace failed (meaning taken from validate.rs, its tests and policy-runner); '
           'validate itself is not under contract']
ASSUMPTIONS = ['println! statements are deleted by the extraction (stdout only)']
EXPLANATION = ('The CLI main is extracted verbatim on every run; only call sites of external functions are rewritten (S1–S7). '
               'Verus proves the exit-status / write decision for every combination of flags and external outcomes.')
MANIFEST = {
    'text': 'Proof: the decision logic of the CLI main (the real text, extracted each run) is verified by Verus for all flag values and all outcomes '
            'of parse / compile / validate: success and module write only when parsed, compiled and (unless --no-validate) validation did not fail; '
            'failed validation forces a failure exit. The existing tests never run the binary.',
    'note': 'External steps (clap, fs, parser, compiler, validator, ciborium) are uninterpreted; validate\'s boolean meaning is an assumed dependency contract. '
            'On a proof failure fixed witness policies are run through the real binary for a concrete failing input.',
    'technique': 'Verus deductive verification of the mechanically extracted main with ghost-precondition on the write step',
}
