from props._kt import *

PROPERTY = 'C10'
LEVEL = 'proof'
UNITS = [
    CANARY,
    Kani(MT + 'c10_init_trace', fns=[Fn(T, 'init', TI)], covers=1,
         contract='init: id != graph id, or a parent, or no policy => InitError with NO event (no policy added, no rule run, no storage created); '
                  'otherwise AddPolicy.Begin.CallRule.(Err => Rollback | Ok => AddCommand.NewStorage.Commit); storage failure => no sink Commit', **RT),
    Kani(MT + 'c10_add_commands_parentless', fns=[Fn(T, 'add_commands', TI)], kind='bounded', bound='batch of one', cap_s=900, stubs=['evaluate_braid'],
         contract='existing graph: parentless command with a foreign id => InitError, nothing evaluated or stored; the graph own init => skipped (count 0)', **RT),
]
TRUSTED = KT_TRUSTED
ASSUMPTIONS = ['"graph id = id of the init command" on the storage side (LinearStorageProvider::new_storage) is not under contract yet',
               'add_commands on a missing graph (creation through init inside add_commands) is not covered: the harness c10_add_commands_creates_graph_via_init did not finish within 35 min of CBMC time and is kept unregistered']
EXPLANATION = 'Trace contracts on the real Transaction::init and the Prior::None arm of add_commands over all command shapes and callee outcomes.'
MANIFEST = {
    'text': 'Proof at function level: init rejects every first-command shape other than (own id, parentless, with policy) before touching the policy store, the rule or the provider, '
            'and a foreign parentless command in a later batch is rejected without evaluation. All eight shapes x all callee outcomes.',
    'note': 'Havoc traits. The provider-side derivation of the graph id is not covered.',
    'technique': 'Kani trace contracts over havoc trait implementations (ghost event log) + CBMC',
}
