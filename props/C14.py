import os
from props._kt import *
from lib.core import Verus, VERUS_DIR
from lib import vx
from verus import c14_session_overlay as so

PROPERTY = 'C14'
LEVEL = 'proof'
SF = 'crates/aranya-runtime/src/client/session.rs'
HARNESS_FILES = ['verus/c14_session_overlay.py', 'kani/aranya-runtime/session.rs', 'kani/aranya-runtime/mocks.rs']


def build():
    text, located, dropped, raws = so.build()
    d = os.path.join(VERUS_DIR, 'c14_session_overlay')
    os.makedirs(d, exist_ok=True)
    vx.write_diff(raws, os.path.join(d, 'repo_vs_verified.diff'))
    return text, located, dropped


UNITS = [
    Verus('c14_session_overlay', build, min_verified=10,
          contract='SessionPerspective over the nested BTreeMap overlay (vstd model), any committed facts, any overlay size: insert => the key reads the value; delete => the key reads None whatever the '
                   'committed facts or earlier session writes hold; every other key unchanged; query = overlay entry if present else committed fact; overlay == replay(fact_log) invariant; '
                   'checkpoint = log length; revert truncates the log and rebuilds exactly its replay; lemma: equal logs => equal observable facts'),
    Kani('client::session::verif_kani::c14_session_action_trace', fns=[Fn(SF, 'action', r'impl<SP: StorageProvider, PS: PolicyStore> Session<SP, PS>')],
         contract='Session::action: Err => session reverted to the checkpoint, message sink and effect sink rolled back, nothing committed; Ok => effect sink committed once; '
                  'no storage mutator is called (the client is borrowed immutably)', **RT),
]
TRUSTED = ['vstd BTreeMap model (insert/get/get_mut/remove/contains_key/clear)', 'R6 type shims: String/Keys/Bytes are opaque ordered values; Arc<BTreeMap> is the map; the perspective owns the session',
           'committed facts (base_facts.query) are an arbitrary fixed function'] + KT_TRUSTED
ASSUMPTIONS = ['prefix queries (QueryIterator / PrefixIter sorted merge with tombstones) are NOT covered: iterator adapters and Yoke are outside both verifiers\' reach '
               '(the 1x1 merge took 129 s in CBMC, 2x2 did not finish)',
               'Session::receive trace is not under contract (same shape as action)']
EXPLANATION = 'Exact-query overlay semantics and revert of the ephemeral session proved unbounded by Verus on the extracted methods; failure atomicity by a Kani trace contract.'
MANIFEST = {
    'text': 'Proof (exact queries): for any committed facts and any sequence of session writes, the extracted SessionPerspective insert/delete/query/revert satisfy the flat-map overlay model '
            '(deleted facts are never visible, other keys untouched, revert restores the checkpoint view) — unbounded, by per-operation contracts + invariant. '
            'A failed session action rolls everything back (Kani trace contract). Prefix-query merging is not covered.',
    'note': 'Function text extracted each run; sub-expression rewrites R8/R12-R15 and type shims listed in the evidence. Prefix iteration not covered.',
    'technique': 'Verus on extracted SessionPerspective methods over vstd BTreeMap specs + Kani trace contract',
}
