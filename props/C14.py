import os
from props._kt import *
from lib.core import Verus, VERUS_DIR
from lib import vx
from verus import c14_session_overlay as so
from verus import c14_prefix_merge as pm


def build_pm():
    text, located, dropped, raws = pm.build()
    d = os.path.join(VERUS_DIR, 'c14_prefix_merge')
    os.makedirs(d, exist_ok=True)
    vx.write_diff(raws, os.path.join(d, 'repo_vs_verified.diff'))
    return text, located, dropped

PROPERTY = 'C14'
LEVEL = 'proof'
SF = 'crates/aranya-runtime/src/client/session.rs'
HARNESS_FILES = ['verus/c14_session_overlay.py', 'verus/c14_prefix_merge.py', 'kani/aranya-runtime/session.rs', 'kani/aranya-runtime/mocks.rs']


def build():
    text, located, dropped, raws = so.build()
    d = os.path.join(VERUS_DIR, 'c14_session_overlay')
    os.makedirs(d, exist_ok=True)
    vx.write_diff(raws, os.path.join(d, 'repo_vs_verified.diff'))
    return text, located, dropped


UNITS = [
    Verus('c14_prefix_merge', build_pm, min_verified=6,
          contract='session prefix queries — QueryIterator::next (the merge of committed facts and session writes, extracted; sequences of any length): each call returns the first fact of '
                   'merged(rest of committed, rest of session writes) and leaves iterators whose merge is the remainder, where merged is the ascending merge in which a session entry replaces the committed '
                   'entry with the same key and a tombstone yields nothing; terminates; the Bug exit is unreachable'),
    Verus('c14_session_overlay', build, min_verified=10,
          contract='SessionPerspective over the nested BTreeMap overlay (vstd model), any committed facts, any overlay size: insert => the key reads the value; delete => the key reads None whatever the '
                   'committed facts or earlier session writes hold; every other key unchanged; query = overlay entry if present else committed fact; overlay == replay(fact_log) invariant; '
                   'checkpoint = log length; revert truncates the log and rebuilds exactly its replay; lemma: equal logs => equal observable facts'),
    Kani('client::session::verif_kani::c14_session_action_trace', fns=[Fn(SF, 'action', r'impl<SP: StorageProvider, PS: PolicyStore> Session<SP, PS>')],
         contract='Session::action: Err => session reverted to the checkpoint, message sink and effect sink rolled back, nothing committed; Ok => effect sink committed once; '
                  'no storage mutator is called (the client is borrowed immutably)', **RT),
]
TRUSTED = ['vstd BTreeMap model (insert/get/get_mut/remove/contains_key/clear)', 'R6 type shims: String/Keys/Bytes are opaque ordered values; Arc<BTreeMap> is the map; the perspective owns the session',
           'committed facts (base_facts.query) are an arbitrary fixed function'] + KT_TRUSTED
ASSUMPTIONS = ['prefix merge: the two input streams are abstract (PrefixIter / Yoke / the committed QueryIterator yield the entries under the prefix in ascending key order — assumed; '
               'the committed side is proved in C12); when the committed side yields an I/O error nothing is claimed beyond returning it',
               'Session::receive trace is not under contract (same shape as action)']
EXPLANATION = 'Exact-query overlay semantics and revert of the ephemeral session proved unbounded by Verus on the extracted methods; failure atomicity by a Kani trace contract.'
MANIFEST = {
    'text': 'Proof (exact queries): for any committed facts and any sequence of session writes, the extracted SessionPerspective insert/delete/query/revert satisfy the flat-map overlay model '
            '(deleted facts are never visible, other keys untouched, revert restores the checkpoint view) — unbounded, by per-operation contracts + invariant. '
            'Prefix queries: the merge iterator yields exactly the ascending merge with session entries replacing committed ones and deleted facts omitted (Verus, any length). A failed session action rolls everything back (Kani trace contract).',
    'note': 'Function text extracted each run; sub-expression rewrites R8/R12-R15 and type shims listed in the evidence. ',
    'technique': 'Verus on extracted SessionPerspective methods over vstd BTreeMap specs + Kani trace contract',
}
