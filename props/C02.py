from lib.core import Kani, Fn

PROPERTY = 'C02'
LEVEL = 'other'
B = 'crates/aranya-runtime/src/client/braiding.rs'
V = 'crates/aranya-runtime/src/client/convergence_map.rs'
RT = dict(crate='aranya-runtime', features='testing,libc')
MB = 'client::braiding::verif_kani::'
MV = 'client::convergence_map::verif_kani::'
HARNESS_FILES = ['kani/aranya-runtime/braiding.rs', 'kani/aranya-runtime/convergence_map.rs']
BR = [Fn(B, 'push', r'impl<F: Spill> BraidResult<F>'), Fn(B, 'flush_to_disk', r'impl<F: Spill> BraidResult<F>'),
      Fn(B, 'next', r"impl<'a, F: Spill> Iterator for BraidIter<'a, F>"), Fn(B, 'load_prev_block', r"impl<'a, F: Spill> BraidIter<'a, F>")]
UNITS = [
    Kani(MB + 'c02_braid_iter_mem2_disk3', fns=BR, kind='bounded', bound='3 entries spilled through the real flush_to_disk + 2 in memory, contents symbolic',
         contract='iterating a BraidResult yields exactly the pushed locations, each once, in reverse push order (memory first, then the spilled block), then None', **RT),
    Kani(MB + 'c02_braid_iter_read_error_fuses', fns=BR, kind='bounded', bound='1 entry in memory, failing spill read',
         contract='a failing spill read yields Some(Err) once, then the iterator is fused; never a panic or a bogus location', **RT),
    Kani(MB + 'c02_braid_iter_auto_spill_258', fns=BR, kind='bounded', bound='258 symbolic pushes through the real auto-spill path (BRAID_BLOCK_ENTRIES = 256 untouched)',
         tiers=('thorough',), cap_s=3000, contract='exact reverse replay across the in-memory / spilled boundary', **RT),
    Kani(MV + 'c02_entry_codec_roundtrip', fns=[Fn(V, 'to_bytes', r'impl Entry'), Fn(V, 'from_bytes', r'impl Entry')],
         contract='convergence Entry codec: to_bytes / from_bytes are inverse for every value and every byte string (complete)', **RT),
    Kani(MV + 'c02_block_codec_roundtrip_n2', fns=[Fn(V, 'to_bytes', r'impl Block'), Fn(V, 'load_from_bytes', r'impl Block')], kind='bounded', bound='block of 2 entries',
         contract='convergence Block codec round trip: same entries in order, min/max bounds recomputed, no Bug reachable', **RT),
    Kani(MV + 'c02_block_codec_roundtrip_n3', fns=[Fn(V, 'to_bytes', r'impl Block'), Fn(V, 'load_from_bytes', r'impl Block')], kind='bounded', bound='block of 3 entries',
         tiers=('thorough',), cap_s=1800, contract='convergence Block codec round trip', **RT),
]
TRUSTED = ['Spill contract: read_at returns what write_at stored (array-backed implementation in the harness)']
ASSUMPTIONS = ['"every non-merge command exactly once, after its ancestors" over all DAG shapes is history-level and is NOT decided: braid(), ConvergenceMap::advance_to / should_continue '
               'and consume_entry are not under contract (they drag in BinaryHeap and 3x256-entry blocks, beyond CBMC reach)']
EXPLANATION = ('Bounded stand-in: the two spill data structures that implement "exactly once" and "reverse push order" are checked on the real code — the braid result / iterator '
               '(including the real 256-entry spill boundary in the thorough tier) and the convergence-map spill codecs.')
MANIFEST = {
    'text': 'Bounded, data-structure level: the braid result replays exactly what was pushed in reverse order across the memory/spill boundary, and the convergence-map entry/block codecs round-trip. '
            'Ancestor-first / exactly-once over arbitrary DAGs is not decided.',
    'note': 'Bounded stand-in (category other). The braid loop itself is not under contract.',
    'technique': 'Kani bounded contract harnesses + CBMC',
}
