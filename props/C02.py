import os
from lib.core import Kani, Verus, Fn, VERUS_DIR
from lib import vx
from verus import c02_convergence_map as cm

PROPERTY = 'C02'
LEVEL = 'other'
B = 'crates/aranya-runtime/src/client/braiding.rs'
V = 'crates/aranya-runtime/src/client/convergence_map.rs'
RT = dict(crate='aranya-runtime', features='testing,libc')
MB = 'client::braiding::verif_kani::'
MV = 'client::convergence_map::verif_kani::'
HARNESS_FILES = ['verus/c02_convergence_map.py', 'kani/aranya-runtime/braiding.rs', 'kani/aranya-runtime/convergence_map.rs']
BR = [Fn(B, 'push', r'impl<F: Spill> BraidResult<F>'), Fn(B, 'flush_to_disk', r'impl<F: Spill> BraidResult<F>'),
      Fn(B, 'next', r"impl<'a, F: Spill> Iterator for BraidIter<'a, F>"), Fn(B, 'load_prev_block', r"impl<'a, F: Spill> BraidIter<'a, F>")]
def build_cm():
    text, located, dropped, raws = cm.build()
    d = os.path.join(VERUS_DIR, 'c02_convergence_map')
    os.makedirs(d, exist_ok=True)
    vx.write_diff(raws, os.path.join(d, 'repo_vs_verified.diff'))
    return text, located, dropped


CM_UNIT = Verus('c02_convergence_map', build_cm, min_verified=25,
                contract='ConvergenceMap (12 functions extracted: Block::{insert,find,clear,is_empty,is_full}, lru_block, insert_entry, spill_lru, load_block_from_disk, find_in_memory, consume_entry, should_continue), '
                         'for maps of any size: should_continue terminates (the spilled-block scan visits each root entry once); when it falls through to Ok(true) no block in memory or on disk holds the location '
                         '(every entry of a spilled block lies inside the range spill_lru recorded for it, and the range test is inclusive); when it finds the location it returns consume_entry\'s answer for that entry; '
                         'consume_entry: count > 1 => Ok(false) and count - 1, else Ok(true) and the entry is retired, nothing else changes; spill_lru moves a block to disk without losing or inventing a location; '
                         'all indexing is in bounds')
UNITS = [
    CM_UNIT,
    Kani(MB + 'c02_braid_iter_mem2_disk3', fns=BR, kind='bounded', bound='3 entries spilled through the real flush_to_disk + 2 in memory, contents symbolic',
         contract='iterating a BraidResult yields exactly the pushed locations, each once, in reverse push order (memory first, then the spilled block), then None', **RT),
    Kani(MB + 'c02_braid_iter_read_error_fuses', fns=BR, kind='bounded', bound='1 entry in memory, failing spill read',
         contract='a failing spill read yields Some(Err) once, then the iterator is fused; never a panic or a bogus location', **RT),
    Kani(MB + 'c02_braid_iter_auto_spill_258', fns=BR, kind='bounded', bound='258 symbolic pushes through the real auto-spill path (BRAID_BLOCK_ENTRIES = 256 untouched)',
         tiers=('thorough',), cap_s=3000, contract='exact reverse replay across the in-memory / spilled boundary', **RT),
    Kani(MV + 'c02_entry_codec_roundtrip', fns=[Fn(V, 'to_bytes', r'impl Entry'), Fn(V, 'from_bytes', r'impl Entry')],
         contract='convergence Entry codec: to_bytes / from_bytes are inverse for every value and every byte string (complete)', **RT),
    Kani(MV + 'c02_block_codec_roundtrip_n2', fns=[Fn(V, 'to_bytes', r'impl Block'), Fn(V, 'load_from_bytes', r'impl Block')], kind='bounded', bound='block of 2 entries',
         contract='convergence Block codec round trip: same entries in order, min/max bounds recomputed, no Bug reachable', **RT),
    Kani(MV + 'c02_block_codec_roundtrip_n3', fns=[Fn(V, 'to_bytes', r'impl Block'), Fn(V, 'load_from_bytes', r'impl Block')], kind='bounded', bound='block of 3 entries',
         tiers=('thorough',), cap_s=1800, contract='convergence Block codec round trip', **RT),
]
TRUSTED = ['Spill contract: read_at returns what write_at stored (array-backed implementation in the harness)']
ASSUMPTIONS = ['"every non-merge command exactly once, after its ancestors" over all DAG shapes is history-level and is NOT decided: braid() and ConvergenceMap::advance_to (the BFS that counts arrivals) are not under contract',
               'in the Verus unit, advance_to, read_block_from_disk (Spill::read_at + Block::load_from_bytes), Block::to_bytes and Spill::write_at are external with assumed contracts (the codecs are the Kani units here); '
               'heapless::Vec is modelled by a std Vec with an abstract is_full; the &mut fields of ConvergenceMap are owned in the shim']
EXPLANATION = ('Bounded stand-in: the two spill data structures that implement "exactly once" and "reverse push order" are checked on the real code — the braid result / iterator '
               '(including the real 256-entry spill boundary in the thorough tier) and the convergence-map spill codecs.')
MANIFEST = {
    'text': 'Data-structure level: the convergence map that decides "drop every arrival but the last" is proved (Verus, unbounded) to terminate, to find an entry wherever it is (memory or spilled), to count arrivals down exactly, '
            'and to spill without loss; the braid result replays exactly what was pushed in reverse order across the memory/spill boundary, and the entry/block codecs round-trip (Kani, bounded). '
            'Ancestor-first / exactly-once over arbitrary DAGs (braid loop + BFS counting) is not decided.',
    'note': 'Category other: mix of an unbounded Verus proof of the convergence map and bounded Kani stand-ins. The braid loop itself is not under contract.',
    'technique': 'Verus on the extracted ConvergenceMap + Kani bounded contract harnesses (CBMC)',
}
