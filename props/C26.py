from lib.core import Kani, Fn

PROPERTY = 'C26'
LEVEL = 'other'
S = 'crates/aranya-policy-vm/src/serialize.rs'
M = 'serialize::verif_kani::'
K = dict(crate='aranya-policy-vm')
HARNESS_FILES = ['kani/aranya-policy-vm/serialize.rs']
D = [Fn(S, 'deserialize_value', r'impl DeserializeCtx<\'_>')]
SD = D + [Fn(S, 'serialize_value', r'impl SerializeCtx<\'_>')]
UNITS = [
    Kani(M + 'c26_deser_int_any_bytes', fns=D, kind='bounded', bound='any input of <= 11 bytes', contract='Int from arbitrary bytes: never panics; Ok consumes a non-empty prefix; empty input => UnexpectedEnd', **K),
    Kani(M + 'c26_roundtrip_int', fns=SD, contract='for every i64: deserialize(serialize(x)) = x and the whole encoding is consumed (varint loops bounded by 10: complete)', **K),
    Kani(M + 'c26_bool_roundtrip_and_reject', fns=D, contract='all 256 bytes: Bool accepted iff 0/1', **K),
    Kani(M + 'c26_option_tags', fns=D, kind='bounded', bound='Optional(Bool), any input of <= 3 bytes', contract='option tag 0 -> None, 1 -> Some(inner), other -> BadInput; truncation -> UnexpectedEnd; consumed length exact', **K),
    Kani(M + 'c26_result_tags', fns=D, kind='bounded', bound='Result(Bool, Unit), any 2 bytes', contract='result tag 0 -> Ok(inner), 1 -> Err(inner), other -> BadInput', **K),
    Kani(M + 'c26_id_length_and_roundtrip', fns=SD, kind='bounded', bound='any input of <= 34 bytes', contract='Id: length byte must be 32 and 32 bytes must follow (else BadInput / UnexpectedEnd); the id is exactly those bytes and serializes back to them', **K),
    Kani(M + 'c26_enum_membership', fns=D, kind='bounded', bound='enum with 2 variants, any input of <= 11 bytes', covers=1, cap_s=900, contract='Enum: only values listed in the definition are accepted, whatever the bytes', **K),
    Kani(M + 'c26_unit_and_never', fns=D, contract='Unit consumes nothing; Never is always rejected', **K),
]
TRUSTED = ['postcard_core varint / bool codecs are compiled and executed as they are']
ASSUMPTIONS = ['NOT covered: String/Bytes (UTF-8 / NUL checks — symbolic from_utf8 does not terminate in CBMC), nested structs, deserialize_struct / TrailingData '
               '(StructDefs / field maps are BTreeMaps), and schemas beyond one level of nesting']
EXPLANATION = ('Bounded stand-in: per-kind contracts for the scalar and one-level kinds over all values / all short inputs; the recursive and map-based part of the property is not covered.')
MANIFEST = {
    'text': 'Bounded: round trip over all i64 and all 32-byte ids, exact tag / length rejection for Bool, Optional, Result, Id, Unit, Never on arbitrary short inputs, never panics. '
            'Strings, bytes, nested structs and trailing-data detection are not covered.',
    'note': 'Bounded stand-in (category other): scalar and one-level kinds only.',
    'technique': 'Kani bounded contract harnesses + CBMC',
}
