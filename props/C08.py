from props._kt import *
from props.C09 import TT_UNIT

PROPERTY = 'C08'
LEVEL = 'proof'
UNITS = [
    CANARY,
    TT_UNIT,
    Kani(MT + 'c08_add_commands_captures_stamp_once', fns=[Fn(T, 'add_commands', TI)], kind='bounded', bound='one committed head, one offered command',
         cap_s=900, stubs=['evaluate_braid'],
         contract='add_commands: on first use the committed heads are copied into the tips and the head-set stamp is captured, together, exactly once, whether or not a command is accepted; '
                  'later calls do not re-read it', **RT),
    Kani(MT + 'c08_commit_stamp_gate', fns=[Fn(T, 'commit', TI)], covers=2, cap_s=600, stubs=['evaluate_braid'],
         contract='commit, stamp gate (no tips, nothing in flight): no stamp => Ok(false); stamp != heads_offset => ConcurrentTransaction; equal => Ok(false); '
                  'in all three nothing is written and no heads are committed', **RT),
]
HARNESS_FILES = ['verus/c09_transaction_tips.py'] + HARNESS_FILES
TRUSTED = KT_TRUSTED + ['Storage contract: heads_offset changes on every successful commit_heads (mock enforces it; the linear writer is C15)']
ASSUMPTIONS = ['"the set of committed commands never shrinks" composes these contracts with C09 bookkeeping: written, not machine-checked',
               'interleavings are sequential compositions of these calls on one client (the API takes &mut self)']
EXPLANATION = 'Stamp capture / compare contracts on the real Transaction::{add_commands, commit} for all storage outcomes.'
MANIFEST = {
    'text': 'Proof at function level: the head-set stamp is captured exactly once, at the moment the committed heads are first read (regardless of what the batch contains), '
            'and commit (Verus on the extracted text, any number of tips) refuses with ConcurrentTransaction before anything is written when the stamp differs, commits exactly the transaction\'s tips when it matches, and otherwise leaves the committed head set untouched. The tests exercise one interleaving.',
    'note': 'Havoc traits; commit with a non-empty tips map (flush + CommitHeads ordering) exceeded 3000 s of CBMC time and is not registered.',
    'technique': 'Verus on the extracted Transaction::commit + Kani trace contracts over havoc trait implementations (ghost event log, CBMC)',
}
