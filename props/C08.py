from props._kt import *

PROPERTY = 'C08'
LEVEL = 'proof'
UNITS = [
    CANARY,
    Kani(MT + 'c08_add_commands_captures_stamp_once', fns=[Fn(T, 'add_commands', TI)], kind='bounded', bound='one committed head, one offered command',
         cap_s=900, stubs=['evaluate_braid'],
         contract='add_commands: on first use the committed heads are copied into the tips and the head-set stamp is captured, together, exactly once, whether or not a command is accepted; '
                  'later calls do not re-read it', **RT),
    Kani(MT + 'c08_commit_one_tip', fns=[Fn(T, 'commit', TI)], kind='bounded', bound='one tip', cap_s=3000, tiers=('thorough',), stubs=['evaluate_braid'],
         contract='commit: no stamp => Ok(false), storage untouched; stamp != heads_offset => ConcurrentTransaction before any Write/CommitHeads; else flush then at most one CommitHeads; '
                  'Ok(true) iff it succeeded and the stamp moved', **RT),
]
TRUSTED = KT_TRUSTED + ['Storage contract: heads_offset changes on every successful commit_heads (mock enforces it; the linear writer is C15)']
ASSUMPTIONS = ['"the set of committed commands never shrinks" composes these contracts with C09 bookkeeping: written, not machine-checked',
               'interleavings are sequential compositions of these calls on one client (the API takes &mut self)']
EXPLANATION = 'Stamp capture / compare contracts on the real Transaction::{add_commands, commit} for all storage outcomes.'
MANIFEST = {
    'text': 'Proof at function level: the head-set stamp is captured exactly once, at the moment the committed heads are first read (regardless of what the batch contains), '
            'and commit refuses with ConcurrentTransaction before touching storage when the stamp differs (thorough tier). The tests exercise one interleaving.',
    'note': 'Havoc traits; commit with a real tips map is slow in CBMC and runs in the thorough tier only.',
    'technique': 'Kani trace contracts over havoc trait implementations (ghost event log) + CBMC',
}
