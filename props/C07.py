from props._kt import *

PROPERTY = 'C07'
LEVEL = 'proof'
UNITS = [
    CANARY,
    Kani(MC + 'c07_action_trace', fns=[Fn(C, 'action', CI)], covers=2, cap_s=900, stubs=['collapse_heads'],
         contract='action: Ok => exactly Collapse.GetLinearPersp.Begin.CallAction(OnGraph).Write.CommitHeads(1 head).Commit (heads committed before effects); '
                  'Err => no sink Commit ever, CommitHeads only as the failing call; policy failure => Rollback and no Write', **RT),
]
TRUSTED = KT_TRUSTED + ['collapse_heads is replaced by its contract (returns any location / any error, has no access to the caller sink)']
ASSUMPTIONS = ['VmPolicy::call_action (publish loop) is not under contract', 'observed, not a violation of the statement: if storage.write fails after sink.begin the sink is neither committed nor rolled back']
EXPLANATION = 'Trace contract on the real ClientState::action for all storage/policy/sink outcomes.'
MANIFEST = {
    'text': 'Proof at function level: for every outcome of every callee, ClientState::action commits the head set and then the effects exactly once on success, and on any failure '
            'never commits effects and never commits heads (except when commit_heads itself is the failing call). Tests cannot inject a storage fault between policy evaluation and commit.',
    'note': 'Havoc traits; collapse_heads stubbed by its contract; the policy publish loop is external to this unit.',
    'technique': 'Kani trace contracts over havoc trait implementations (ghost event log) + CBMC',
}
