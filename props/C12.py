from lib.core import Verus
from props.C13 import build as build_lp

PROPERTY = 'C12'
LEVEL = 'proof'
HARNESS_FILES = ['verus/c13_linear_perspective.py']
UNITS = [
    Verus('c13_linear_perspective', build_lp, min_verified=17,
          contract='in-flight perspective (LinearFactPerspective overlay over any prior): insert => the key reads the value; delete => the key reads None whatever the prior holds '
                   '(tombstone with a prior, removal without); every other key unchanged; query = overlay entry if present else the prior\'s fact; apply_updates = the same flat-map steps in order'),
]
TRUSTED = ['vstd BTreeMap model', 'R6 type shims', 'the prior (committed fact index chain / outer perspective) is an arbitrary fixed function']
ASSUMPTIONS = ['ONLY exact queries on in-flight perspectives are decided. NOT covered: committed fact indexes across segment boundaries, chained on-disk indexes, depth-limited compaction, '
               'prefix queries (find_prefixes / query_prefix_inner: range + take_while iterator adapters, outside Verus\' subset; nested BTreeMaps are beyond CBMC\'s practical reach — measured)']
EXPLANATION = 'Flat-map semantics of the in-memory fact overlay (exact queries) proved unbounded; the on-disk index chain and prefix scans are outside reach.'
MANIFEST = {
    'text': 'Partial proof: exact-query flat-map semantics of the in-flight fact perspective (inserts, deletes, tombstones shadowing any prior) for any number of operations. '
            'Committed index chains, compaction and prefix queries are not decided.',
    'note': 'Covers LinearFactPerspective::{insert, delete, query, apply_updates, clear} only.',
    'technique': 'Verus on extracted LinearFactPerspective methods over vstd BTreeMap specs',
}
