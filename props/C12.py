import os
from lib.core import Verus, VERUS_DIR
from lib import vx
from props.C13 import build as build_lp
from verus import c12_fact_index_chain as fc


def build_fc():
    text, located, dropped, raws = fc.build()
    d = os.path.join(VERUS_DIR, 'c12_fact_index_chain')
    os.makedirs(d, exist_ok=True)
    vx.write_diff(raws, os.path.join(d, 'repo_vs_verified.diff'))
    return text, located, dropped

PROPERTY = 'C12'
LEVEL = 'proof'
HARNESS_FILES = ['verus/c13_linear_perspective.py', 'verus/c12_fact_index_chain.py']
UNITS = [
    Verus('c13_linear_perspective', build_lp, min_verified=21,
          contract='in-flight perspective (LinearFactPerspective overlay over any prior): insert => the key reads the value; delete => the key reads None whatever the prior holds '
                   '(tombstone with a prior, removal without); every other key unchanged; query = overlay entry if present else the prior\'s fact; apply_updates = the same flat-map steps in order'),
    Verus('c12_fact_index_chain', build_fc, min_verified=12,
          contract='committed fact indexes (LinearFactIndex::{query, query_prefix_inner}, chains of any length): query returns the entry of the NEWEST index in the chain that mentions the key '
                   '(a tombstone reads as absent); query_prefix_inner returns exactly the keys with the prefix that some index in the chain mentions, each with its newest entry '
                   '(newer values and tombstones shadow older ones; no key of an older index is dropped); both walks terminate; '
                   'LinearFactPerspective::query_prefix_inner (in-flight perspective over another perspective or over a committed chain, any nesting depth): exactly the keys with the prefix that the overlay or anything below mentions, each with the overlay entry if there is one, else the entry from below'),
]
TRUSTED = ['vstd BTreeMap model', 'R6 type shims', 'for the in-flight unit the prior (committed fact index chain / outer perspective) is an arbitrary fixed function',
           'index chain unit: Read::fetch returns the index stored at the offset; prior links lead to strictly smaller depth (FactIndexRepr.depth = prior.depth + 1, established by the writer, not checked); '
           'find_prefixes yields exactly the entries whose key starts with the prefix (BTreeMap::range + take_while; external contract)']
ASSUMPTIONS = ['NOT covered: depth-limited compaction (LinearStorage::compact), how write_facts builds the chain, mid-segment state rebuilt from per-command updates (get_fact_perspective), '
               'ascending order / tombstone filtering of QueryIterator (std BTreeMap::into_iter order is assumed; QueryIterator::next skips tombstones — read, not under contract)']
EXPLANATION = 'Flat-map semantics proved unbounded for the in-memory overlay (exact queries) and for the committed index chain (exact and prefix queries, newest-first shadowing).'
MANIFEST = {
    'text': 'Partial proof: exact-query flat-map semantics of the in-flight fact perspective (inserts, deletes, tombstones shadowing any prior) for any number of operations. '
            'Exact and prefix queries on committed index chains of any length, and prefix queries on in-flight perspectives stacked on them, return the newest entry per key (tombstones shadow older values, nothing is dropped). Compaction and chain construction are not decided.',
    'note': 'Covers LinearFactPerspective::{insert, delete, query, apply_updates, clear, query_prefix_inner} and LinearFactIndex::{query, query_prefix_inner}.',
    'technique': 'Verus on extracted LinearFactPerspective / LinearFactIndex methods over vstd BTreeMap specs',
}
