from props._kt import *

PROPERTY = 'C19'
LEVEL = 'proof'
UNITS = [
    CANARY,
    Kani(MC + 'c19_should_sync_on_hello', fns=[Fn(C, 'should_sync_on_hello', CI)], covers=2, cap_s=900, stubs=['synthetic_head'],
         contract='should_sync_on_hello: missing graph => Ok(true); Ok(false) only if own hello head == advertised address or get_location(advertised) is Some; never mutates storage', **RT),
    Kani(MC + 'c19_hello_head_frame', fns=[Fn(C, 'hello_head', CI)], stubs=['synthetic_head'],
         contract='hello_head reads the committed heads once and never mutates storage', **RT),
    Kani('storage::linear::verif_kani::c19_commit_heads_cache_follows_backend', fns=[Fn('crates/aranya-runtime/src/storage/linear/mod.rs', 'commit_heads', r'impl<F: Write> Storage for LinearStorage<F>')],
         contract='LinearStorage::commit_heads, any backend outcome: backend commit called once with the new heads and fact-cache offset; on failure get_heads still serves the '
                  'previously committed head set (what hello_head / should_sync_on_hello read); on success the new one', **RT),
]
TRUSTED = KT_TRUSTED + ['synthetic_head replaced by its contract (a function of the head set; C04/C01 carry its determinism)']
ASSUMPTIONS = ['"advertised head present => every command of the peer present" is ancestry closure of the committed graph: written, not machine-checked',
               '"same head set => same hello head" rests on fold_merge_pairs / synthetic_head determinism (C01/C04), not covered here']
EXPLANATION = 'Decision contract of the real should_sync_on_hello over all storage outcomes.'
MANIFEST = {
    'text': 'Proof at function level: a replica answers "no sync" to a hello only when its own hello head equals the advertised address or the advertised command is found in its committed graph, '
            'and a missing graph always syncs. The graph-level inference from "head present" to "all ancestors present" is not machine-checked.',
    'note': 'Mechanism contract only (PROVED-LOCAL); havoc traits; synthetic_head stubbed by its contract.',
    'technique': 'Kani trace contracts over havoc trait implementations (ghost event log) + CBMC',
}

HARNESS_FILES = ['kani/aranya-runtime/transaction.rs', 'kani/aranya-runtime/client.rs', 'kani/aranya-runtime/mocks.rs', 'kani/aranya-runtime/linear_mod.rs']
