from lib.core import Kani, Fn

PROPERTY = 'C39'
LEVEL = 'proof'
F = 'crates/aranya-fast-channels/src/client.rs'
H = 'crates/aranya-fast-channels/src/header.rs'
IMPL = r'impl<S: AfcState> Client<S>'
M = 'client::verif_kani::'
CR = 'aranya-fast-channels'
FEAT = 'std,memory'
HARNESS_FILES = ['kani/aranya-fast-channels/client.rs']
Z = ['zeroize']


def oip(n, tiers=('quick', 'thorough'), cap=900):
    return Kani(M + 'c39_open_in_place_len_%02d' % n, CR, [Fn(F, 'open_in_place', IMPL), Fn(F, 'do_open', IMPL)],
                features=FEAT, kind='bounded', bound=f'message length = {n} bytes, contents symbolic', tiers=tiers,
                cap_s=cap, stubs=Z,
                contract='open_in_place never panics; len<8 => Err, state untouched, buffer unchanged; 8<=len<24 => Err(Authentication), '
                         'state untouched; len>=24 => state consulted once, its error returned and the whole buffer zeroised')


def op(n, tiers=('quick', 'thorough'), cap=900):
    return Kani(M + 'c39_open_len_%02d' % n, CR, [Fn(F, 'open', IMPL), Fn(F, 'do_open', IMPL)], features=FEAT,
                kind='bounded', bound=f'ciphertext length = {n} bytes, dst length symbolic <= 6', tiers=tiers, cap_s=cap,
                stubs=Z,
                contract='open never panics; header/tag length classes as open_in_place; dst shorter than len-24 => BufferTooSmall '
                         'before the state is consulted, dst unchanged; on state error exactly dst is zeroised')


UNITS = [
    Kani(M + 'c39_data_header_codec', CR, [Fn(H, 'try_parse', r'impl DataHeader'), Fn(H, 'encode', r'impl DataHeader')],
         features=FEAT, contract='all 2^64 inputs: try_parse never fails, seq = LE value, encode is its inverse'),
    Kani(M + 'c39_header_codec', CR, [Fn(H, 'try_parse', r'impl Header'), Fn(H, 'encode', r'impl Header')],
         features=FEAT, covers=1,
         contract='all 2^32 inputs: Ok <=> version=0x6f54 and type in {1,2}; UnknownVersion / InvalidMsgType exactly off those sets; never Bug; encode inverse'),
    oip(0), oip(7), oip(8), oip(10), oip(23), oip(24, cap=1500), oip(25, tiers=('thorough',), cap=1800),
    oip(40, tiers=('thorough',), cap=2400),
    op(5), op(8), op(23), op(24, cap=1500), op(28, tiers=('thorough',), cap=1800),
    Kani(M + 'c39_seal_pt3', CR, [Fn(F, 'seal', IMPL), Fn(F, 'do_seal', IMPL)], features=FEAT, kind='bounded',
         bound='plaintext 3 bytes, dst length symbolic <= 30', cap_s=1500, stubs=Z,
         contract='seal: dst < len+OVERHEAD => BufferTooSmall, dst untouched, state not consulted; on state error exactly dst[..len+24] zeroised'),
]
TRUSTED = ['havoc AfcState: open/seal return an error without invoking the closure (the closure body — aead.open/open_in_place, '
           'data.truncate — is NOT covered: no OpenKey/SealKey can be fabricated without the real key schedule)',
           '<[u8] as Zeroize>::zeroize replaced by a plain zeroing loop (the real one uses volatile writes + fences)']
ASSUMPTIONS = ['authenticity (modified ciphertext is rejected) is AEAD integrity of the external cipher suite: not decided here',
               'round trip open(seal(p)) = p needs the real AEAD: not decided here',
               'buffer lengths are concrete per harness (0,7,8,10,23,24 quick; 25,40 thorough); contents fully symbolic; '
               'the arithmetic is identical for every length >= 24 (stated, not proved)']
EXPLANATION = ('Header codecs are proved over their complete input domains (loop-free). The length / parse / zeroise logic of '
               'Client::open, open_in_place and seal is proved per message length with symbolic contents against a havoc AfcState; '
               'Kani\'s arithmetic-overflow, bounds and unwrap checks on the real bodies are the "never panics" obligations.')
MANIFEST = {
    'text': 'Proof of the length/parse/zeroise logic: header codecs over their full input domains; Client::open, open_in_place and seal '
            'per message length (0,5,7,8,10,23,24 quick; 25,28,40 thorough) with fully symbolic contents against a havoc AfcState. '
            '"Never panics" is discharged as CBMC overflow/bounds/unwrap obligations on the real bodies. Authenticity and the seal/open '
            'round trip rest on the external AEAD and are not decided.',
    'note': 'Havoc AfcState does not invoke the key closure (closure bodies uncovered); zeroize replaced by a plain loop; per-length '
            'harnesses (bounded in length, complete in contents). AEAD integrity assumed.',
    'technique': 'Kani contract harnesses over a havoc trait implementation + CBMC',
}
