import os
from lib.core import Kani, Verus, Fn, VERUS_DIR
from lib import vx
from verus import c15_writer_open as wo

PROPERTY = 'C15'
LEVEL = 'proof'
I = 'crates/aranya-runtime/src/storage/linear/libc/imp.rs'
M = 'storage::linear::libc::imp::verif_kani::'
RT = dict(crate='aranya-runtime', features='testing,libc')
HARNESS_FILES = ['kani/aranya-runtime/imp.rs', 'verus/c15_writer_open.py']


def build_open():
    text, located, dropped, raws = wo.build()
    d = os.path.join(VERUS_DIR, 'c15_writer_open')
    os.makedirs(d, exist_ok=True)
    vx.write_diff(raws, os.path.join(d, 'repo_vs_verified.diff'))
    return text, located, dropped

ST = ['write_all', 'sync', 'fallocate']
CW = [Fn(I, 'commit', r'impl Write for Writer'), Fn(I, 'write_root', r'impl Writer'), Fn(I, 'append_at', r'impl Writer'), Fn(I, 'dump_bytes', r'impl File')]
CON = ('Writer::commit, any pre-state: data writes at [old free_offset, new free_offset) (never in a root slot) . fdatasync . root record written to next_root '
       '(the slot not holding the last committed root) . fdatasync; success => generation+1, heads = offset of the appended head set, free_offset advanced, '
       'checksum = calc_checksum, next_root flipped; a failing OS operation => nothing further is issued and next_root is not flipped')


def cw(name, tiers=('quick', 'thorough')):
    return Kani(M + 'c15_commit_write_ordering_' + name, fns=CW, kind='bounded', bound='head set of one entry; free_offset within 1 MB of FREE_START; generation symbolic',
                stubs=ST, cap_s=1500, tiers=tiers, covers=(1 if name.endswith('ok') else None), contract=CON, **RT)


UNITS = [
    Verus('c15_writer_open', build_open, min_verified=6,
          contract='Writer::open root selection: Err iff neither slot holds a valid root; both valid => the higher generation wins (A on ties); one valid => that one; '
                   'next_root = the OTHER slot; alloc_end = recovered free_offset (nothing past the recovered frontier is visible); other_root extracted as well'),
    Kani(M + 'c15_other_root_involution', fns=[Fn(I, 'other_root')], contract='other_root is an involution on {ROOT_A, ROOT_B}; slots precede FREE_START (complete)', **RT),
    Kani(M + 'c15_root_validate_contract', fns=[Fn(I, 'validate', r'impl Root')], contract='Root::validate Ok <=> checksum == calc_checksum(); fields returned unchanged (all roots)', cap_s=900, **RT),
    Kani(M + 'c15_root_checksum_inputs', fns=[Fn(I, 'calc_checksum', r'impl Root')], contract='calc_checksum is a function of exactly (generation, heads, fact_cache, free_offset)', cap_s=900, **RT),
    Kani(M + 'c15_append_at_frontier', fns=[Fn(I, 'append_at', r'impl Writer'), Fn(I, 'ensure_capacity', r'impl Writer')], stubs=ST, covers=1, cap_s=900,
         contract='append_at: the write frontier strictly grows by 4+len; capacity is ensured (fallocate+fsync) before the data write; data_dirty set; on failure the frontier does not move', **RT),
    cw('ok'), cw('grow_ok'), cw('fail_data_sync'), cw('fail_root_write', tiers=('thorough',)), cw('fail_root_sync', tiers=('thorough',)),
]
TRUSTED = ['OS model: pwrite puts exactly the given bytes at the given offset; fdatasync / fsync are durability barriers (File::write_all / sync / fallocate stubbed by logging models)',
           'SipHash collision resistance is NOT claimed: the checksum contract is syntactic (which fields are hashed; validity <=> equality)']
ASSUMPTIONS = ['crash points x lost/kept/torn unflushed writes (fault enumeration) are NOT explored: that is a different technique family. What is proved is the write-ordering / '
               'root-alternation discipline the crash argument rests on; the lemma "discipline => every crash image recovers to the last or the in-progress commit" is prose (DESIGN.md C15)',
               'File::load (length-prefixed read + postcard decode) is external to the Writer::open unit: a slot is abstractly "Some(root) iff it loads and validates"']
EXPLANATION = 'Write-ordering trace contract of the real Writer::commit/append_at over a logging OS model, for all pre-states and single OS failures; root validity contract over all roots.'
MANIFEST = {
    'text': 'Proof of the write-ordering discipline (PROVED-LOCAL): for every writer state, commit appends data only past the committed frontier, makes it durable before the root that '
            'references it, writes the root to the slot that does not hold the last committed root, and flips slots only after the final barrier; roots validate iff their checksum matches. '
            'On reopen the newest valid root wins and the next commit targets the other slot (Verus, extracted Writer::open). Enumeration of crash images is not done (fault enumeration is a different family).',
    'note': 'OS calls are logging models (assumed contracts). Crash/torn-write enumeration and Writer::open selection are not covered.',
    'technique': 'Kani trace contracts over a stubbed OS layer + CBMC; Verus on the extracted Writer::open',
}
