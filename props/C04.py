from props._kt import *
import os
from lib.core import Verus, VERUS_DIR
from lib import vx
from verus import c04_lca as lca


def build_lca():
    text, located, dropped, raws = lca.build()
    d = os.path.join(VERUS_DIR, 'c04_lca')
    os.makedirs(d, exist_ok=True)
    vx.write_diff(raws, os.path.join(d, 'repo_vs_verified.diff'))
    return text, located, dropped


LCA_UNIT = Verus('c04_lca', build_lca, min_verified=46,
                 contract='lca_pair, last_common_ancestor, Segment::previous, LinearStorage::{walk_collecting_skips, build_skip_list} (extracted; any graph, any number of heads, any order): build_skip_list returns only entries that satisfy the spine property A4 for the NEW segment (ancestors of its commands through which every ancestor with a max cut not above theirs passes), and at least one entry for a merge — so A4 holds for every stored segment by induction over the write order; lca_pair terminates and returns a command of the graph that is an '
                          'ancestor-or-self of both arguments AND a cut (every ancestor of either side with a max cut not above it passes through it — which is what makes the LCA recorded in a merge segment a sound skip entry, axiom A4 of C11, given A4 for the existing segments), with no Bug exit on a rooted graph; last_common_ancestor returns an ancestor-or-self of every head '
                          '(the braid drops everything at or below this cut as shared history)')

PROPERTY = 'C04'
LEVEL = 'proof'
HARNESS_FILES = ['verus/c04_lca.py', 'kani/aranya-runtime/braiding.rs', 'kani/aranya-runtime/command.rs', 'kani/aranya-runtime/client.rs', 'kani/aranya-runtime/mocks.rs']
UNITS = [
    LCA_UNIT,
    Kani('command::verif_kani::c04_merge_ids_normalised', fns=[Fn('crates/aranya-runtime/src/policy.rs', 'new', r'impl MergeIds')],
         contract='MergeIds::new is order-normalising (smaller id first) and refuses equal ids: collapse and the virtual hello head derive the same merge ids from the same pair', **RT),
    Kani(MC + 'c07_action_trace', fns=[Fn(C, 'action', CI)], covers=2, cap_s=900, stubs=['collapse_heads'],
         contract='the collapse performed by an action emits nothing to the caller sink: the first sink event is Begin, after the collapse (collapse_heads takes no sink at all)', **RT),
    Kani('client::braiding::verif_kani::c04_lca_three_heads_common_ancestor',
         fns=[Fn('crates/aranya-runtime/src/client/braiding.rs', 'last_common_ancestor'), Fn('crates/aranya-runtime/src/client/braiding.rs', 'lca_pair')],
         kind='bounded', bound='trunk of 2..6 commands, two single-command tips at symbolic heights, all 6 head orders', covers=1, cap_s=900,
         contract='the N-way LCA the commit-time braid (queries) cuts at is a command of the graph and an ancestor-or-self of every head, for every head order: '
                  'no command between the true LCA and the cut is dropped from the merged fact index', **RT),
]
TRUSTED = KT_TRUSTED + ['c04_lca: the graph axioms of unit c11_is_ancestor plus: merge segments record their LCA as last skip entry; skip entries are proper ancestors of the segment\'s first command; the graph is rooted at the init command (admitted proof fns)']
ASSUMPTIONS = ['equality of the fact state seen by queries and by actions after the collapse depends on C03 (reference braid) and is NOT decided',
               'synthetic_head vs collapse_heads producing the same address (same fold, same merge ids) is not machine-checked beyond MergeIds normalisation']
EXPLANATION = 'Two mechanisms: merge-id normalisation (full domain) and "collapse emits no effects" (trace contract of action).'
MANIFEST = {
    'text': 'Proof of two mechanisms: merge ids are normalised independently of argument order, and the head collapse inside an action reaches the caller sink with no event. '
            'The N-way LCA used by the commit-time braid is a common ancestor of all heads (Verus over the graph axioms, unbounded; and on the compiled code for bounded shapes). Fact-state equality between the lazy view and the collapsed head in general is not decided.',
    'note': 'Mechanism contracts only (PROVED-LOCAL).',
    'technique': 'Verus on the extracted lca_pair / last_common_ancestor + Kani contract harnesses and trace contract over havoc traits',
}
