from props._kt import *
from props.C09 import TT_UNIT

PROPERTY = 'C06'
LEVEL = 'proof'
UNITS = [
    CANARY,
    TT_UNIT,
    Kani(MT + 'c06_add_single_trace', fns=[Fn(T, 'add_single', TI)], covers=2,
         contract='add_single: rule Err => trace Begin.Checkpoint(c).CallRule(cmd,OnGraphAtOrigin).Revert(c).Rollback, no AddCommand, no sink Commit, no storage mutation, '
                  'phead unchanged, the policy error returned; rule Ok => ...AddCommand(cmd).Commit and phead = cmd.id', **RT),
    Kani(MT + 'c06_locate_frame', fns=[Fn(T, 'locate', TI)], kind='bounded', bound='one transaction tip', covers=1,
         contract='locate: consults only get_location (committed heads) then get_location_from(tip) for the transaction tips; never mutates storage', **RT),
    Kani(MT + 'c06_add_commands_reject_returns_at_once', fns=[Fn(T, 'add_commands', TI), Fn(T, 'add_single', TI), Fn(T, 'get_perspective', TI)],
         kind='bounded', bound='batch of one command on an in-flight perspective', covers=1, cap_s=900, stubs=['evaluate_braid'],
         contract='add_commands: a rejected command returns the error at once with exactly one CallRule, Revert and Rollback, no AddCommand/Commit/CommitHeads, phead unchanged', **RT),
]
HARNESS_FILES = ['verus/c09_transaction_tips.py'] + HARNESS_FILES
TRUSTED = KT_TRUSTED
ASSUMPTIONS = ['"contributes no facts" rests on LinearPerspective::revert restoring the fact overlay (C13): that body is NOT under contract here',
               '"later commands naming a rejected parent are refused" = get_perspective returns NoSuchParent when locate finds nothing (C09 unit c09_get_perspective_with_tip, thorough tier)']
EXPLANATION = 'Trace contracts on the real Transaction::{add_single, locate, add_commands} over havoc storage/policy/sink: every error return at every call site is explored.'
MANIFEST = {
    'text': 'Proof at function level: for every storage, policy and sink behaviour, a command whose rule fails is reverted to the checkpoint taken before the rule, '
            'the sink is rolled back, nothing is added or committed and the transaction head is unchanged; parents are looked up only in committed heads and transaction tips; '
            'after a rejection the transaction\'s tips are what they were and it stays committable, so commands accepted earlier still commit (Verus, any size). '
            'Tests run one concrete storage and policy; the contract covers every callee outcome.',
    'note': 'Havoc trait implementations are the assumed contracts of Storage/Policy/Sink; the storage-side half (revert restores facts) is C13 and is not covered. Tips map <= 1 entry.',
    'technique': 'Kani trace contracts over havoc trait implementations (ghost event log, CBMC) + Verus on the extracted add_single / get_perspective / flush',
}
