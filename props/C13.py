import os
from lib.core import Verus, VERUS_DIR
from lib import vx
from verus import c13_linear_perspective as lp
from props.C14 import build as build_session

PROPERTY = 'C13'
LEVEL = 'proof'
HARNESS_FILES = ['verus/c13_linear_perspective.py', 'verus/c14_session_overlay.py']


def build():
    text, located, dropped, raws = lp.build()
    d = os.path.join(VERUS_DIR, 'c13_linear_perspective')
    os.makedirs(d, exist_ok=True)
    vx.write_diff(raws, os.path.join(d, 'repo_vs_verified.diff'))
    return text, located, dropped


UNITS = [
    Verus('c13_linear_perspective', build, min_verified=21,
          contract='LinearPerspective::revert(checkpoint), any number of commands / pending writes / facts: Ok <=> index <= #commands; afterwards the commands are exactly those at the checkpoint, '
                   'no pending writes remain, and the fact overlay is exactly the replay of the kept commands\' updates (flat-map model, pointwise) — including the case where a rule wrote facts and '
                   'then failed without adding a command; representation invariant "overlay = replay(commands) then pending writes" preserved by insert/delete/revert/add_command (add_command turns the pending writes into the new command\'s updates without changing the overlay); '
                   'LinearFactPerspective::{clear, apply_updates, insert, delete, query} against the same model (tombstones with a prior, removal without)'),
    Verus('c14_session_overlay', build_session, min_verified=10,
          contract='SessionPerspective::revert truncates the fact log to the checkpoint and rebuilds exactly its replay; lemma: equal logs => equal observable facts'),
]
TRUSTED = ['vstd BTreeMap model', 'R6 type shims (String/Keys/Bytes opaque ordered values; struct fields not touched by these functions dropped)',
           'facts visible through the prior are an arbitrary fixed function (R17: the dispatch to the prior index/perspective is external)',
           'checkpoints are taken when no writes are pending (as Transaction::add_single and Session::action do)']
ASSUMPTIONS = ['in add_command the head check (command.parent() vs head_address()) is abstract',
               'prefix queries on the perspective are not covered']
EXPLANATION = 'Unbounded per-operation contracts over a pointwise flat-map model, verified by Verus on the extracted method bodies.'
MANIFEST = {
    'text': 'Proof (unbounded): reverting a graph perspective or a session to a checkpoint leaves exactly the commands and (exact-query) facts of the checkpoint — the overlay equals the replay of the kept '
            'commands / fact log — for any interleaving of writes and deletes before the revert, including writes of a rule that then failed. Verified on the extracted method bodies over vstd\'s BTreeMap model.',
    'note': 'Extraction rewrites R8/R12/R14-R17 and type shims are listed in the evidence. Prefix queries: C12 / C14 units.',
    'technique': 'Verus on extracted LinearPerspective / SessionPerspective methods over vstd BTreeMap specs',
}
