from lib.core import Kani, Fn

PROPERTY = 'C32'
LEVEL = 'other'
P = 'crates/aranya-policy-text/src/'
M = 'ident::verif_kani::'
HARNESS_FILES = ['kani/aranya-policy-text/ident.rs']
K = dict(crate='aranya-policy-text')


def v(n, tiers=('quick', 'thorough')):
    return Kani(M + f'c32_validate_len{n}', fns=[Fn(P + 'ident.rs', 'validate', r'impl Identifier'), Fn(P + 'text.rs', 'validate', r'impl Text')],
                kind='bounded', bound=f'all ASCII strings of length {n}', tiers=tiers,
                contract='Identifier::validate Ok <=> [A-Za-z][A-Za-z0-9_]*; Text::validate Ok <=> no NUL byte; valid identifiers are valid text', **K)


def r(n):
    return Kani(M + 'c32_repr_roundtrip_len%02d' % n, fns=[Fn(P + 'repr.rs', 'from_str', r'impl Repr'), Fn(P + 'repr.rs', 'as_str', r'impl Repr')],
                kind='bounded', bound=f'all ASCII strings of length {n}',
                contract='Repr::from_str(s).as_str() == s; heap representation iff len > 22; clone/drop of the shared heap string are memory safe (sequentially)', **K)


UNITS = [v(0), v(1), v(4), v(6, tiers=('thorough',)),
         Kani(M + 'c32_ctor_len3', fns=[Fn(P + 'text.rs', 'from_str', r'impl FromStr for Text'), Fn(P + 'ident.rs', 'from_str', r'impl FromStr for Identifier'),
                                        Fn(P + 'ident.rs', 'try_from', r'impl TryFrom<Text> for Identifier')],
              kind='bounded', bound='all ASCII strings of length 3',
              contract='Text::from_str / Identifier::from_str / Identifier::try_from(Text): Ok(v) => v.as_str() is the input and satisfies the validator specification; Err exactly otherwise', **K),
         Kani(M + 'c32_static_text_to_identifier', fns=[Fn(P + 'ident.rs', 'try_from', r'impl TryFrom<Text> for Identifier')], kind='bounded',
              bound='7 literal strings held in the Static representation',
              contract='a Text in the Static representation converts to an Identifier exactly when its content is an identifier (same answer as for inline storage); Text::new() never does', **K),
         r(0), r(22), r(23),
         Kani(M + 'c32_repr_eq_ord_by_content', fns=[Fn(P + 'repr.rs', 'eq', r'impl PartialEq for Repr'), Fn(P + 'repr.rs', 'cmp', r'impl Ord for Repr')],
              kind='bounded', bound='one 26-byte string as Static vs Heap; all pairs of 3-byte ASCII strings as Inline',
              contract='Eq/Ord of Repr agree with the str results across Static / Inline / Heap representations', **K)]
TRUSTED = ['strings are built from ASCII bytes with from_utf8_unchecked (UTF-8 validation of symbolic bytes does not terminate in CBMC)']
ASSUMPTIONS = ['NOT covered: serde Deserialize (Cow<str> -> from_utf8), rkyv archive access/deserialize (bytecheck Verify impls), TryFrom<String>, TryFrom<&CStr>, Add, Hash',
               'lengths are bounded per harness (0,1,3,4,6,22,23,26); contents fully symbolic ASCII']
EXPLANATION = ('Bounded stand-in for the input quantifier: validators are checked against their regular-expression / NUL specifications for all ASCII strings up to length 6, '
               'constructors establish the invariant, Repr round-trips on both sides of the inline/heap switch, and Eq/Ord are representation independent.')
MANIFEST = {
    'text': 'Bounded: validators vs specification (all ASCII strings of length <= 6), fallible constructors establish the invariant, Repr round trip across the inline/heap boundary '
            '(lengths 0, 22, 23) with CBMC pointer checks on the unsafe code, Eq/Ord independent of representation. serde / rkyv decoders are not covered.',
    'note': 'Bounded stand-in (category other). ASCII only; decoders (serde, rkyv) not covered.',
    'technique': 'Kani bounded contract harnesses + CBMC',
}
