import os
from lib.core import Kani, Verus, Fn, VERUS_DIR
from lib import vx
from verus import c21_traversal_queue as tq

PROPERTY = 'C21'
LEVEL = 'proof'
F = 'crates/aranya-runtime/src/storage/mod.rs'
HARNESS_FILES = ['verus/c21_traversal_queue.py', 'kani/aranya-runtime/storage_mod.rs']


def build_tq():
    text, located, dropped, raws = tq.build()
    d = os.path.join(VERUS_DIR, 'c21_traversal_queue')
    os.makedirs(d, exist_ok=True)
    vx.write_diff(raws, os.path.join(d, 'repo_vs_verified.diff'))
    return text, located, dropped


UNITS = [
    Verus('c21_traversal_queue', build_tq, min_verified=40,
          contract='per-operation contracts over the multiset view (u = uncovered, c = covered) for new, clear, is_empty, all_covered, '
                   'push, push_covered, push_duplicate, pop, pop_covered, remove_uncovered, peek, cover_up_to, drain_above, drain_all; '
                   'wf and one-entry-per-segment (uniq) preserved; no Bug reachable; unbounded queue length'),
]
M = 'storage::verif_kani::'
IMPL = r'impl TraversalQueue'
RT = dict(crate='aranya-runtime', features='testing,libc')


def ki(name, fn, n, tiers=('quick', 'thorough'), covers=None, cap=900):
    return Kani(M + f'c21_{name}_len{n}', fns=[Fn(F, fn, IMPL)], kind='bounded',
                bound=f'queue length = {n}, contents/partition/arguments symbolic (4 segments, all max cuts)', tiers=tiers,
                covers=covers, cap_s=cap, contract=f'{fn}: same contract as the Verus unit, checked on the compiled real code', **RT)


UNITS += [
    Kani(M + 'c21_location_order', fns=[], contract='derive(Ord/Eq) on the real Location = lexicographic (max_cut, segment) over native u64; '
         'MaxCut comparison/checked_add and same_segment agree with u64 (the R6 shim assumptions)', **RT),
    ki('push_covered', 'push_covered', 3, covers=1), ki('pop_covered', 'pop_covered', 3, covers=2),
    ki('pop_duplicates', 'pop_duplicates', 3, covers=1), ki('cover_up_to', 'cover_up_to', 3),
    ki('drain_above', 'drain_above', 3, covers=1), ki('drain_all', 'drain_all', 3), ki('push_duplicate', 'push_duplicate', 3),
    ki('peek', 'peek', 3), ki('pop_covered', 'pop_covered', 1, covers=1),
    ki('push_covered', 'push_covered', 4, tiers=('thorough',), covers=1, cap=1800), ki('pop_covered', 'pop_covered', 4, tiers=('thorough',), covers=2, cap=1800),
    ki('pop_duplicates', 'pop_duplicates', 4, tiers=('thorough',), covers=1, cap=1800), ki('cover_up_to', 'cover_up_to', 4, tiers=('thorough',), cap=1800),
    ki('drain_above', 'drain_above', 4, tiers=('thorough',), covers=1, cap=1800), ki('drain_above', 'drain_above', 5, tiers=('thorough',), covers=1, cap=3000),
]
TRUSTED = ['std: <[T]>::swap (assume_specification), Iterator::position = first match (R2 helper, verified loop), '
           'max_by_key = LAST maximum (R3 helper, verified loop)',
           'MaxCut/SegmentIndex behave as u64 and derive(Ord) on Location is lexicographic (max_cut, segment) — checked on the real types by the KI harness c21_location_order',
           'R10: the FnMut callback of drain_above/drain_all is modelled as push onto a log vector']
ASSUMPTIONS = ['pop_duplicates is under contract only in the bounded Kani harnesses (queue length 3 quick, 4 thorough), not in the Verus unit']
EXPLANATION = ('TraversalQueue methods are extracted verbatim from the working tree on every run (rewrites R2/R3/R9/R10 only) and '
               'verified by Verus against contracts over the abstract multiset view, for queues of any length.')
MANIFEST = {
    'text': 'Proof, unbounded: Verus verifies every TraversalQueue operation except pop_duplicates against a contract over the whole abstract view '
            '(multisets of uncovered/covered locations): pop returns a maximum under (max_cut, segment) and removes exactly it; push_covered '
            'implements the documented merge rule and leaves all other segments untouched; one entry per segment is preserved; '
            'drain_above hands exactly the uncovered entries above the threshold to the callback and keeps exactly the entries at or below it. '
            'Per-operation contracts + invariant give all operation sequences by induction, which tests over sampled sequences cannot.',
    'note': 'Function text is extracted from /repo each run; rewrites R2/R3/R9/R10 and the u64 type shims are listed in the evidence (dropped_by_extraction). '
            'Trusted: std swap/position/max_by_key semantics, derive(Ord) (cross-checked by Kani on the real types).',
    'technique': 'Verus (SMT/Z3) deductive verification of mechanically extracted functions; Kani harness for derive(Ord)',
}
