from props._kt import *

PROPERTY = 'C20'
LEVEL = 'proof'
R = 'crates/aranya-runtime/src/sync/responder.rs'
MR = 'sync::responder::verif_kani::'
HARNESS_FILES = ['kani/aranya-runtime/responder.rs', 'kani/aranya-runtime/mocks.rs']
CON = ('PeerCache::add_command over any ancestry relation between the new command and the cached antichain: not committed locally => cache unchanged; '
       'an entry is removed iff it is a proper ancestor of the new command; the new command is added iff it is not an ancestor of an entry and there is room; '
       'recorded with the location found in committed storage; <= PEER_HEAD_MAX entries')
UNITS = [
    Kani(MR + 'c20_peer_cache_add_len01', fns=[Fn(R, 'add_command', r'impl PeerCache')], kind='bounded', bound='cache of 1 entry', covers=2, contract=CON, **RT),
    Kani(MR + 'c20_peer_cache_full_unrelated', fns=[Fn(R, 'add_command', r'impl PeerCache')], kind='bounded',
         bound='full cache (10 entries, symbolic max cuts), new command unrelated to all',
         contract='full cache + unrelated committed command: nothing is removed, the cache keeps its ten entries', **RT),
    Kani(MR + 'c20_peer_cache_merge_replaces_both_parents', fns=[Fn(R, 'add_command', r'impl PeerCache')], kind='bounded',
         bound='cache of 2 entries, both ancestors of the new command, either one exactly one max cut below it',
         contract='recording a merge whose two parents are cached removes both and records the merge: no entry stays next to a descendant', **RT),
    Kani(MR + 'c20_peer_cache_add_len02', fns=[Fn(R, 'add_command', r'impl PeerCache')], kind='bounded', bound='cache of 2 entries', covers=2, cap_s=2400,
         tiers=('thorough',), contract=CON, **RT),
]
TRUSTED = ['Storage::is_ancestor is an assumed contract here (an arbitrary strict partial order given by the harness); the real search is C11',
           'Storage::get_location returns a location only for commands committed locally (assumed contract; C11)']
ASSUMPTIONS = ['is_ancestor returning Err drops the entry (retain_head(..).unwrap_or(false)): the property does not speak about storage errors; the contract assumes Ok',
               'cache sizes 1 (quick), 2 (thorough) and the full cache with unrelated entries; sizes 3..9 with removals are not covered (CBMC cost grows steeply: 8 s -> 550 s from 1 to 2 entries)']
EXPLANATION = 'Contract harnesses on the real PeerCache::add_command with is_ancestor / get_location as havoc callees.'
MANIFEST = {
    'text': 'Proof at function level, bounded in cache size: for every ancestry relation between the recorded command and the cached entries, add_command removes exactly the '
            'entries that are its ancestors, ignores commands not committed locally or already covered, and never exceeds ten entries (full-cache case included).',
    'note': 'BOUNDED in cache length (1; 2 in thorough; full cache without removals). is_ancestor/get_location are assumed contracts (C11).',
    'technique': 'Kani contract harnesses over a havoc Storage (assumed ancestry relation) + CBMC',
}
