import os
from lib.core import Kani, Verus, Fn, VERUS_DIR
from lib import vx
from verus import c29_fact_count as fcnt


def build_fc():
    text, located, dropped, raws = fcnt.build()
    d = os.path.join(VERUS_DIR, 'c29_fact_count')
    os.makedirs(d, exist_ok=True)
    vx.write_diff(raws, os.path.join(d, 'repo_vs_verified.diff'))
    return text, located, dropped

PROPERTY = 'C29'
LEVEL = 'proof'
I = 'crates/aranya-runtime/src/vm_policy/io.rs'
M = 'vm_policy::io::verif_kani::'
RT = dict(crate='aranya-runtime', features='testing,libc')
HARNESS_FILES = ['kani/aranya-runtime/io.rs', 'verus/c29_fact_count.py']
UNITS = [
    Verus('c29_fact_count', build_fc, min_verified=4,
          contract='the Instruction::FactCount arm of RunState::step (count_up_to / at_least / at_most / exactly), extracted as a block: for any stored facts and any limit it pushes '
                   'Int(c) with c = the number of results of the storage query (name + leading keys, in order) that pass the value filter fact_match, counting stops exactly when c reaches '
                   'the limit or the results are exhausted (c = min(limit, matches); facts failing the filter never use up the limit); limit <= 0 gives 0; a storage error is returned; terminates'),
    Kani(M + 'c29_ser_key_int_order_and_roundtrip', fns=[Fn(I, 'ser_key'), Fn(I, 'deser_key')],
         contract='for all pairs of i64: ser_key lengths equal, byte-lexicographic order = numeric order, equal iff equal; deser_key(ser_key(k)) = k', **RT),
    Kani(M + 'c29_ser_key_bool_order_and_roundtrip', fns=[Fn(I, 'ser_key'), Fn(I, 'deser_key')],
         contract='all four bool pairs: false < true preserved, round trip', **RT),
]
TRUSTED = ['c29_fact_count: ipop::<Fact>, validate_fact_literal, MachineIO::fact_query (results = stored(name, keys) in key order), the query iterator, fact_match and ipush are external with assumed contracts']
ASSUMPTIONS = ['decided: the order-preserving key encoding and the counting loop of FactCount. NOT covered: query / exists / map (QueryStart/QueryNext), fact_match itself (leading keys + value fields), '
               'the compiler lowering of at_least/at_most/exactly onto FactCount, create/update/delete, and VmPolicyIO::fact_query against the storage (end to end); '
               'RunState::step with fact values and the nested-BTreeMap fact store are outside CBMC\'s practical reach (DESIGN C12/C25)',
               'String, Id and Enum keys are not covered (Enum: Vec concat with symbolic content ran out of memory)']
EXPLANATION = 'Two mechanisms: the key encoding (full i64 domain, Kani) and the capped, filtered counting loop of FactCount (any number of facts, Verus on the extracted arm).'
MANIFEST = {
    'text': 'Proof of two mechanisms: the fact-key encoding used for prefix queries preserves order and round-trips for all Int (all i64 pairs) and Bool keys; the counting queries '
            '(count_up_to / at_least / at_most / exactly) count exactly the facts that pass the value filter, capped at the limit, for any stored facts. query / exists / map and fact mutation are not decided.',
    'note': 'Mechanism contracts only (PROVED-LOCAL).',
    'technique': 'Verus on the extracted FactCount arm + Kani contract harness over the full i64 domain (CBMC)',
}
