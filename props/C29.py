from lib.core import Kani, Fn

PROPERTY = 'C29'
LEVEL = 'proof'
I = 'crates/aranya-runtime/src/vm_policy/io.rs'
M = 'vm_policy::io::verif_kani::'
RT = dict(crate='aranya-runtime', features='testing,libc')
HARNESS_FILES = ['kani/aranya-runtime/io.rs']
UNITS = [
    Kani(M + 'c29_ser_key_int_order_and_roundtrip', fns=[Fn(I, 'ser_key'), Fn(I, 'deser_key')],
         contract='for all pairs of i64: ser_key lengths equal, byte-lexicographic order = numeric order, equal iff equal; deser_key(ser_key(k)) = k', **RT),
    Kani(M + 'c29_ser_key_bool_order_and_roundtrip', fns=[Fn(I, 'ser_key'), Fn(I, 'deser_key')],
         contract='all four bool pairs: false < true preserved, round trip', **RT),
]
TRUSTED = []
ASSUMPTIONS = ['ONLY the order-preserving key encoding is decided. query/exists/count_up_to/at_least/at_most/exactly/map semantics, value filtering, create/update/delete '
               '(VM x storage end to end) are NOT covered: RunState::step with fact values and the nested-BTreeMap fact store are outside CBMC\'s practical reach (DESIGN C12/C25)',
               'String, Id and Enum keys are not covered (Enum: Vec concat with symbolic content ran out of memory)']
EXPLANATION = 'Only the pure key-encoding mechanism is within reach; it is proved over the full i64 domain.'
MANIFEST = {
    'text': 'Proof of one mechanism only: the fact-key encoding used for prefix queries preserves order and round-trips for all Int (all i64 pairs) and Bool keys. '
            'The policy-level query semantics against a fact-store model are not decided.',
    'note': 'Mechanism contract only (PROVED-LOCAL); everything beyond ser_key/deser_key on Int/Bool is not covered.',
    'technique': 'Kani contract harness over the full i64 domain + CBMC',
}
