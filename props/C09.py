import os
from lib.core import Kani, Verus, Fn, VERUS_DIR
from lib import vx
from verus import c09_head_set as hs
from verus import c09_transaction_tips as tt

PROPERTY = 'C09'
LEVEL = 'proof'
F = 'crates/aranya-runtime/src/storage/head_set.rs'
T = 'crates/aranya-runtime/src/client/transaction.rs'
TI = r'impl<SP: StorageProvider, PS: PolicyStore> Transaction<SP, PS>'
HARNESS_FILES = ['verus/c09_head_set.py', 'verus/c09_transaction_tips.py', 'kani/aranya-runtime/head_set.rs', 'kani/aranya-runtime/transaction.rs', 'kani/aranya-runtime/mocks.rs']
RT = dict(crate='aranya-runtime', features='testing,libc')
MH = 'storage::head_set::verif_kani::'
MT = 'client::transaction::verif_kani::'


def build():
    text, located, dropped, raws = hs.build()
    d = os.path.join(VERUS_DIR, 'c09_head_set')
    os.makedirs(d, exist_ok=True)
    vx.write_diff(raws, os.path.join(d, 'repo_vs_verified.diff'))
    return text, located, dropped


def build_tt():
    text, located, dropped, raws = tt.build()
    d = os.path.join(VERUS_DIR, 'c09_transaction_tips')
    os.makedirs(d, exist_ok=True)
    vx.write_diff(raws, os.path.join(d, 'repo_vs_verified.diff'))
    return text, located, dropped


TT_UNIT = Verus('c09_transaction_tips', build_tt, min_verified=16,
                contract='Transaction::{flush, get_perspective, add_single, add_merge, commit} extracted (bodies verbatim except the abstract braid call and two iterator rewrites in commit), transactions of any size, tips = keys(heads) + in-flight tip: '
                         'flush keeps the tip set and leaves nothing in flight; get_perspective(parent) makes parent the in-flight tip (tips + {parent}), re-using the current perspective or writing it out first; '
                         'add_single accepted => tips\' = (tips - {parent}) + {command} (the frontier step); add_merge => tips\' = (tips - {left, right}) + {merge command}; rejected by the policy => tips unchanged and the transaction stays committable '
                         '(never an empty perspective in flight, which storage.write refuses); commit: no captured stamp => Ok(false), stale stamp => ConcurrentTransaction, both before anything is written; Ok(true) => the committed head ids are EXACTLY the tips and the stamp moved; any other outcome leaves the committed head set and stamp untouched; invariant: a perspective is in flight iff phead is set, it is non-empty, phead = its last command and is not among the written tips; '
                         'lemma over these contracts (pure proof, abstract command graph): frontier(g + c) = (frontier(g) - parents(c)) + {c} — the step the tips are proved to take, so by induction from the previous commit the committed tips are exactly the commands without a committed descendant')
UNITS = [
    TT_UNIT,
    Verus('c09_head_set', build, min_verified=7,
          contract='HeadSet::push: requires sorted+duplicate-free; ensures sorted+duplicate-free, contains head, every other membership unchanged, '
                   'length grows by 0 or 1; single establishes the invariant; lemma: two sorted duplicate-free sequences with equal element sets are equal '
                   '(the head set is a function of the set pushed, not of push order). Unbounded.'),
    Kani(MH + 'c09_located_address_order', fns=[], contract='derive(Ord) on the real LocatedAddress = lexicographic (id bytes, segment, max_cut): ordered by command id first', **RT),
    Kani(MH + 'c09_headset_single_default', fns=[Fn(F, 'single', r'impl HeadSet')], contract='single/default establish the invariant', **RT),
    Kani(MH + 'c09_headset_push_len1', fns=[Fn(F, 'push', r'impl HeadSet')], kind='bounded', bound='head set length 1', covers=2, contract='push contract on the compiled real code', **RT),
    Kani(MH + 'c09_headset_push_len2', fns=[Fn(F, 'push', r'impl HeadSet')], kind='bounded', bound='head set length 2', covers=2, cap_s=900, contract='push contract on the compiled real code', **RT),
    Kani(MH + 'c09_headset_push_len3', fns=[Fn(F, 'push', r'impl HeadSet')], kind='bounded', bound='head set length 3', covers=2, cap_s=2400, tiers=('thorough',), contract='push contract on the compiled real code', **RT),
    Kani(MT + 'c09_flush_bookkeeping', fns=[Fn(T, 'flush', TI)], kind='bounded', bound='tips map initially empty',
         covers=1, contract='flush: writes the in-flight perspective, records exactly one new tip, clears perspective/phead; no perspective => no effect', **RT),
]
TRUSTED = ['derive(Ord) of LocatedAddress is a strict total order (three axioms in the Verus unit; concrete definition checked by Kani on the real type)',
           'std slice::binary_search on a sorted slice (documented semantics, external_body)',
           'havoc Storage/Perspective (KT mocks) for the transaction bookkeeping harnesses']
ASSUMPTIONS = ['"exactly the commands without committed descendant": the induction step is machine-checked as a lemma over the contracts (lemma_frontier_step); the induction itself over the ingest history (each accepted command goes through add_single / add_merge once, with its real parents) is stated, not mechanised',
               'in add_merge and commit the braid (evaluate_braid: merged fact index of several tips) and choose_policy are abstract; HeadSet::push is used through its contract (unit c09_head_set)',
               'in the Verus unit Storage / Perspective / Policy / Sink / locate are abstract: storage.write refuses an empty perspective and heads the segment with the perspective\'s last command; '
               'call_rule and revert do not add or drop commands; add_single is only reached for a command that is not a tip (add_commands checks locate first)']
EXPLANATION = 'Sorted/duplicate-free head set proved unbounded by Verus on the extracted HeadSet::push; tips bookkeeping of Transaction by Kani trace contracts over havoc storage.'
MANIFEST = {
    'text': 'Proof of the mechanisms: HeadSet::push keeps the committed head set sorted by command id and duplicate-free for sets of any size (Verus, extracted text), '
            'and the result is independent of push order (lemma); Transaction::{flush, get_perspective, add_single, add_merge} keep the tip set exactly as the frontier step demands, commit writes exactly the tips as the new head set (Verus, extracted text, any size), and the frontier step itself is a machine-checked lemma over those contracts. '
            'The induction over the ingest history that composes these steps is stated, not mechanised.',
    'note': 'Mechanism contracts only (PROVED-LOCAL). Trusted: derive(Ord) axioms (cross-checked by Kani), std binary_search, havoc / abstract storage, braid abstract in add_merge and commit.',
    'technique': 'Verus on extracted HeadSet::push and Transaction tip bookkeeping + Kani contract harnesses / trace contracts over havoc traits',
}
