from lib.core import Kani, Fn

PROPERTY = 'C25'
LEVEL = 'other'
F = 'crates/aranya-policy-vm/src/machine.rs'
IMPL = r"impl<'a, M> RunState<'a, M>"
M = 'machine::verif_kani::'
HARNESS_FILES = ['kani/aranya-policy-vm/machine.rs']
OPS = ['next', 'last', 'pop_empty', 'restoresp_empty', 'end_noblock', 'block', 'add_empty', 'not_empty',
       'return_nocall', 'exit_normal', 'jump_sym', 'branch_empty', 'call_sym',
       'sub_empty', 'satadd_empty', 'satsub_empty', 'savesp', 'recall_sym', 'extcall_sym', 'serialize_empty', 'deserialize_empty']

SLOW = {'not_empty'}   # 'dup_empty' (Dup on an empty stack) exceeded 25 min / 23 GB of CBMC and is kept unregistered

UNITS = [
    Kani(M + 'c25_step_' + op, 'aranya-policy-vm', [Fn(F, 'step', IMPL)], kind='bounded',
         bound='one instruction, empty stack, pc = 0, havoc MachineIO (every call returns an error)',
         stubs=['format'], cap_s=(3000 if op in SLOW else 600), tiers=(('thorough',) if op in SLOW else ('quick', 'thorough')),
         contract=f'RunState::step on `{op}` returns Ok or Err and never unwinds (every panic / todo!() / overflow / index check of the real body is an obligation)')
    for op in OPS
]
UNITS.append(Kani(M + 'c25_step_restoresp_saved_beyond_stack', 'aranya-policy-vm', [Fn(F, 'step', IMPL)], kind='bounded',
                  bound='one RestoreSP instruction, empty stack, any saved stack pointer >= 1 on the control stack', stubs=['format'], cap_s=600,
                  contract='RestoreSP with a bytecode-controlled saved stack pointer beyond the stack is a machine error, never a panic'))
TRUSTED = ['alloc::fmt::format stubbed to an empty string (error messages only)',
           'havoc MachineIO returns errors from every method']
ASSUMPTIONS = ['only the listed opcodes on an empty stack are covered: multi-instruction sequences, non-empty stacks, heap-typed values, '
               'struct/fact/query opcodes and corrupted Module decoding are NOT covered (CBMC cost of the 100-slot inline Value stack, DESIGN §1)']
EXPLANATION = ('Bounded stand-in, not a proof of the property: one Kani harness per opcode kind runs the real RunState::step on a one-instruction '
               'program with an empty stack; panics, todo!(), arithmetic overflow and out-of-bounds indexing in the real body are the obligations. '
               'Operands of jump/branch/call targets are fully symbolic.')
MANIFEST = {
    'text': 'Bounded: per-opcode no-panic contract of RunState::step for 22 opcode situations on a minimal run state (symbolic jump/call targets). '
            'This found the todo!() in Next/Last (fixed); a second defect (MStructSet preallocation from an untrusted count) was found by reading, is fixed, and is beyond what the harnesses reach. It is not a proof over instruction sequences; the evidence lists exactly what is covered.',
    'note': 'Bounded stand-in (category other): one instruction, empty stack, error-returning MachineIO; fmt::format stubbed. Not counted as proved for the property as a whole.',
    'technique': 'Kani bounded contract harnesses (per opcode) + CBMC',
}
