from lib.core import Kani, Fn

PROPERTY = 'C47'
LEVEL = 'proof'
F = 'crates/aranya-capi-core/src/cstr.rs'
IMPL = r"impl<'a> CStrWriter<'a>"
M = 'cstr::verif_kani::'
HARNESS_FILES = ['kani/aranya-capi-core/cstr.rs']
BOUND = 'buffer capacity <= 16, fragment length <= 6, 3 fragments; nw and index arithmetic over all of usize'

UNITS = [
    Kani(M + 'c47_write_contract', 'aranya-capi-core', [Fn(F, 'write', IMPL)], kind='bounded', bound=BOUND,
         cap_s=1500, playback=False,
         contract='in-place #[kani::requires/modifies/ensures] on CStrWriter::write: nw\' = nw (+sat) |s|; fragment copied '
                  'to dst[nw..nw+|s|) iff that range lies in dst[..cap-1); every other byte unchanged; only nw and dst assignable'),
    Kani(M + 'c47_new_establishes', 'aranya-capi-core', [Fn(F, 'new', IMPL)], kind='bounded', bound=BOUND,
         contract='new: nw = 0, slice unchanged'),
    Kani(M + 'c47_finish_contract', 'aranya-capi-core', [Fn(F, 'finish', IMPL)], kind='bounded', bound=BOUND, covers=2,
         contract='finish: NUL at index nw iff nw < cap, nothing else written; nw\' = nw (+sat) 1; Ok <=> nw < cap'),
    Kani(M + 'c47_write_c_str_modular', 'aranya-capi-core', [Fn(F, 'write_c_str')], kind='bounded', bound=BOUND, covers=2,
         stubs=['CStrWriter'], cap_s=1200,
         contract='write_c_str with write replaced by its verified contract (stub_verified): nw = len+1 in both outcomes; '
                  'Ok <=> len+1 <= cap and then text||NUL is in dst, rest unchanged; Err => BufferTooSmall, bytes beyond the slice untouched; Bug unreachable'),
    Kani(M + 'c47_write_c_str_whole', 'aranya-capi-core', [Fn(F, 'write_c_str'), Fn(F, 'write', IMPL), Fn(F, 'finish', IMPL)],
         kind='bounded', bound=BOUND, covers=2, cap_s=1200,
         contract='same postcondition against the real bodies (counterexamples replay without stubs)'),
]
TRUSTED = ['core::fmt calls Write::write_str once per fragment, in order (real core::fmt is executed symbolically for the 3-fragment Display value)']
ASSUMPTIONS = ['buffer capacity bounded at 16 bytes (allocation of symbolic size does not terminate in CBMC); arithmetic is over full usize',
               'text bytes restricted to ASCII (harness builds &str with from_utf8_unchecked)']
EXPLANATION = ('Function contracts on CStrWriter::{new,write,finish} and write_c_str, proved by Kani/CBMC over all buffer '
               'contents, all capacities 0..=16, all nw in usize, all fragment contents; write is proved modularly against its in-place contract and reused as a verified stub.')
MANIFEST = {
    'text': 'Proof (bounded in buffer size only): Kani/CBMC discharges function contracts on CStrWriter::{new,write,finish} and '
            'write_c_str for every buffer capacity 0..=16, all buffer contents, every nw in usize (saturation included) and '
            'three symbolic fragments; write is proved against its in-place contract (proof_for_contract) and reused as a verified stub. '
            'Tests sample two strings and three buffer sizes; the contract covers all multi-fragment texts and all sizes up to the bound, '
            'including guard bytes beyond the slice.',
    'note': 'Trusted: Kani/CBMC; core::fmt drives write_str per fragment (executed for a 3-fragment Display). Bound: capacity <= 16, '
            'fragment <= 6 bytes; ASCII text. Index arithmetic is over full usize.',
    'technique': 'Kani function contracts (requires/ensures/modifies, proof_for_contract, stub_verified) + CBMC',
}
