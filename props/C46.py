from lib.core import Kani, Fn

PROPERTY = 'C46'
LEVEL = 'proof'
M = 'command::verif_kani::'
RT = dict(crate='aranya-runtime', features='testing,libc')
HARNESS_FILES = ['kani/aranya-runtime/command.rs']
UNITS = [
    Kani(M + 'c46_cmd_id_postcard_roundtrip', fns=[Fn('crates/aranya-id/src/id.rs', 'serialize', r'impl<Tag> Serialize for Id<Tag>')],
         contract='for all 2^256 ids: postcard serialization is 33 bytes (length prefix 32) and deserializes to the same id; every other length prefix < 40 is rejected', **RT),
]
TRUSTED = ['postcard / serde are compiled and executed as they are']
ASSUMPTIONS = ['base58 text round trip (Display / FromStr, human-readable serde) is NOT decided: the inverse law of spideroak-base58 (external crate) is an assumed dependency contract; '
               'symbolic execution of the bignum base conversion did not finish in 7 min',
               'checked on CmdId (a custom_id! wrapper over aranya_id::Id) through the runtime crate, where postcard is a normal dependency']
EXPLANATION = 'Binary serde path of the id type proved over all 32-byte values.'
MANIFEST = {
    'text': 'Proof of the binary serde path over all 2^256 ids (serialize -> 33 bytes -> same id; wrong length prefixes rejected). The base58 text path rests on the external base58 crate and is not decided.',
    'note': 'Partial: binary path only. base58 inverse law assumed.',
    'technique': 'Kani contract harness over the full id domain + CBMC',
}
