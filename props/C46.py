import os
from lib.core import Kani, Verus, Fn, VERUS_DIR
from lib import vx
from verus import c46_id_text as it


def build_it():
    text, located, dropped, raws = it.build()
    d = os.path.join(VERUS_DIR, 'c46_id_text')
    os.makedirs(d, exist_ok=True)
    vx.write_diff(raws, os.path.join(d, 'repo_vs_verified.diff'))
    return text, located, dropped

PROPERTY = 'C46'
LEVEL = 'proof'
M = 'command::verif_kani::'
RT = dict(crate='aranya-runtime', features='testing,libc')
HARNESS_FILES = ['kani/aranya-runtime/command.rs', 'verus/c46_id_text.py']
UNITS = [
    Verus('c46_id_text', build_it, min_verified=4,
          contract='Id::decode / FromStr::from_str (extracted): the id layer adds nothing to the base58 codec — decode(s) succeeds exactly when spideroak_base58::String32::decode accepts the WHOLE input, '
                   'and then holds exactly the 32 bytes it returned'),
    Kani(M + 'c46_cmd_id_postcard_roundtrip', fns=[Fn('crates/aranya-id/src/id.rs', 'serialize', r'impl<Tag> Serialize for Id<Tag>')],
         contract='for all 2^256 ids: postcard serialization is 33 bytes (length prefix 32) and deserializes to the same id; every other length prefix < 40 is rejected', **RT),
]
TRUSTED = ['postcard / serde are compiled and executed as they are']
ASSUMPTIONS = ['base58 text round trip (Display / FromStr, human-readable serde): the inverse law of spideroak-base58 (external crate) is an assumed dependency contract; the id layer is proved to delegate the whole input to it (decode / from_str); Display / to_base58 / the serde visitors are not under contract; '
               'symbolic execution of the bignum base conversion did not finish in 7 min',
               'checked on CmdId (a custom_id! wrapper over aranya_id::Id) through the runtime crate, where postcard is a normal dependency']
EXPLANATION = 'Binary serde path of the id type proved over all 32-byte values.'
MANIFEST = {
    'text': 'Proof of the binary serde path over all 2^256 ids (serialize -> 33 bytes -> same id; wrong length prefixes rejected), and of the text path as a pure delegation: Id::decode / from_str accept exactly what the external base58 codec accepts on the whole input and keep its bytes. The codec\'s own inverse law is assumed.',
    'note': 'Partial: binary path only. base58 inverse law assumed.',
    'technique': 'Kani contract harness over the full id domain (CBMC) + Verus on the extracted Id::decode / from_str',
}
