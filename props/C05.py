import os
from lib.core import Kani, Verus, Fn, VERUS_DIR
from lib import vx
from verus import c05_strand_heap as sh

PROPERTY = 'C05'
LEVEL = 'proof'
T = 'crates/aranya-runtime/src/client/transaction.rs'
TI = r'impl<SP: StorageProvider, PS: PolicyStore> Transaction<SP, PS>'
HARNESS_FILES = ['verus/c05_strand_heap.py', 'kani/aranya-runtime/transaction.rs', 'kani/aranya-runtime/mocks.rs']
RT = dict(crate='aranya-runtime', features='testing,libc')
MT = 'client::transaction::verif_kani::'


def build():
    text, located, dropped, raws = sh.build()
    d = os.path.join(VERUS_DIR, 'c05_strand_heap')
    os.makedirs(d, exist_ok=True)
    vx.write_diff(raws, os.path.join(d, 'repo_vs_verified.diff'))
    return text, located, dropped


UNITS = [
    Verus('c05_strand_heap', build, min_verified=7,
          contract='StrandHeap invariant: has_finalize <=> a Finalize strand is in the heap, and at most one is. push of a Finalize while one is present => '
                   'Err(ParallelFinalize) and the heap unchanged, otherwise inserted; pop/lone/clear/new preserve the invariant; lone is Some iff exactly one strand.'),
]
TRUSTED = ['alloc::collections::BinaryHeap: multiset view with assume_specification for new/push/pop/len/clear',
           'Ord of Strand (reversed (priority, id)) is abstract in the Verus unit']
ASSUMPTIONS = ['"two concurrent finalizes are always simultaneously in the heap" is a DAG-level argument: written, not machine-checked',
               'Transaction::commit with >= 2 tips (braid error => no commit_heads) is NOT covered: a 2-entry BTreeMap is beyond CBMC\'s practical reach (measured: two inserts > 18 min)']
EXPLANATION = 'The heap-level mechanism that detects a second finalize is proved unbounded by Verus on the extracted StrandHeap methods.'
MANIFEST = {
    'text': 'Proof (mechanism): the strand heap refuses a second finalize strand and stays consistent, for heaps of any size (Verus, extracted text). '
            'That two concurrent finalizes always meet in the heap is a DAG-level argument and is not machine-checked.',
    'note': 'Mechanism contract only (PROVED-LOCAL). BinaryHeap is an external type with trusted specs; debug_assert! statements are dropped by the extraction.',
    'technique': 'Verus on extracted StrandHeap methods over an external BinaryHeap specification',
}
