from lib.core import Kani, Fn

T = 'crates/aranya-runtime/src/client/transaction.rs'
C = 'crates/aranya-runtime/src/client.rs'
TI = r'impl<SP: StorageProvider, PS: PolicyStore> Transaction<SP, PS>'
CI = r'impl<PS, SP> ClientState<PS, SP>'
RT = dict(crate='aranya-runtime', features='testing,libc')
MT = 'client::transaction::verif_kani::'
MC = 'client::verif_kani::'
HARNESS_FILES = ['kani/aranya-runtime/transaction.rs', 'kani/aranya-runtime/client.rs', 'kani/aranya-runtime/mocks.rs']
CANARY = Kani('verif_mocks::kt_canary_ghost_log', fns=[], contract='canary: the ghost event log stores and returns what was written', **RT)
KT_TRUSTED = ['havoc implementations of StorageProvider/Storage/Segment/Perspective/PolicyStore/Policy/Sink (verif_mocks): every behaviour the traits allow; '
              'the real LinearStorage / VmPolicy bodies are NOT covered by these units',
              'command ids are concrete and distinct (identities do not matter to a trace contract); outcomes of every callee are symbolic']
