from props._kt import *
import os
from lib.core import Verus, VERUS_DIR
from lib import vx
from verus import c17_get_commands as gc
from props.C18 import GSC_UNIT

PROPERTY = 'C17'
LEVEL = 'proof'
Q = 'crates/aranya-runtime/src/sync/requester.rs'
R = 'crates/aranya-runtime/src/sync/responder.rs'
HARNESS_FILES = ['verus/c17_get_commands.py', 'verus/c18_get_sync_commands.py', 'kani/aranya-runtime/requester.rs', 'kani/aranya-runtime/responder.rs', 'kani/aranya-runtime/mocks.rs', 'kani/aranya-runtime/storage_mod.rs']
def _build(crm):
    def b():
        text, located, dropped, raws = gc.build(crm)
        d = os.path.join(VERUS_DIR, 'c17_get_commands' + ('' if crm == '100' else '_' + crm))
        os.makedirs(d, exist_ok=True)
        vx.write_diff(raws, os.path.join(d, 'repo_vs_verified.diff'))
        return text, located, dropped
    return b


GC_CONTRACT = ('SyncResponder::get_commands, get_next and push (extracted; push: one message at the current index, index + 1, no index change on failure): with remaining(to_send, next_send) = the ids of all commands from each to_send entry to the end of its segment, '
               'get_commands returns a prefix of it (exactly once, in order), a full response unless the session is drained, and does not change to_send / next_send / message_index; '
               'get_next writes a response (or SyncEnd when drained) at the current message index, advances the session by exactly the commands in the message, increments the index by one, '
               'and on ANY error leaves to_send / next_send / message_index unchanged (retry-safe); lemma over that contract: each delivered response strictly shrinks the outstanding sequence, '
               'so a session is drained after finitely many responses and the next call writes SyncEnd. Unbounded: any number of segments, commands and responses.')
UNITS = [
    GSC_UNIT,
    Verus('c17_get_commands', _build('100'), min_verified=27, contract=GC_CONTRACT),
    Verus('c17_get_commands_5', _build('5'), min_verified=27, tiers=('thorough',), contract=GC_CONTRACT + ' (low-mem-usage constants: COMMAND_RESPONSE_MAX = 5)'),
    Kani('sync::requester::verif_kani::c18_get_sync_commands_n1', fns=[Fn(Q, 'get_sync_commands', r'impl SyncRequester')], kind='bounded', bound='1 command meta', covers=1, cap_s=900,
         contract='the requester accepts a response only at the expected index and then expects index+1: response indexes increase by exactly one', **RT),
    Kani('sync::requester::verif_kani::c17_sync_end_contract', fns=[Fn(Q, 'get_sync_commands', r'impl SyncRequester')],
         contract='SyncEnd is accepted only with max_index = number of responses received, and ends the exchange (PartialSync)', **RT),
    Kani('sync::responder::verif_kani::c17_get_next_end_of_session', fns=[Fn(R, 'get_next', r'impl SyncResponder')], covers=1, cap_s=900,
         contract='responder with nothing left to send: writes SyncEnd{max_index = message_index}, goes Idle, advances nothing, stays inside the buffer', **RT),
    Kani('storage::verif_kani::c21_location_order', fns=[], contract='needed segments are sorted by Location = (max_cut, segment): max cut first (parents-first across segments)', **RT),
]
TRUSTED = KT_TRUSTED
ASSUMPTIONS = ['get_commands / get_next are proved over an abstract provider: Segment::get_from returns the commands from the location to the end of its segment in order, Command::id is the stored id, '
               'SyncResponder::write / postcard put the given response index and command metas on the wire (external_body contracts); message_index < usize::MAX',
               '"every command sent is committed in the responder\'s graph" reduces to: to_send holds locations of the responder\'s own storage (find_needed_segments, not under contract)',
               '"parents-first within a session" across segments relies on to_send being sorted by (max_cut, segment) (c21_location_order) — the sort call itself is in find_needed_segments, not under contract',
               'SyncResponder::push: only the index discipline and the error frame are under contract (what it pushes depends on find_needed_segments, not under contract)']
EXPLANATION = 'Index discipline on the requester side and session termination on the responder side, as function contracts on the real code.'
MANIFEST = {
    'text': 'Proof of mechanisms: the requester enforces response indexes increasing by one and a matching end message; the responder ends a drained session with SyncEnd at the current index; '
            'segments are ordered max-cut first; the responder\'s per-response command selection (get_commands) and session advance (get_next) are proved exact, progressing and retry-safe by Verus for any session size.',
    'note': 'Mechanism contracts (PROVED-LOCAL); find_needed_segments and push uncovered.',
    'technique': 'Verus on the extracted get_commands / get_next + Kani contract harnesses (CBMC)',
}
