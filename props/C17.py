from props._kt import *

PROPERTY = 'C17'
LEVEL = 'proof'
Q = 'crates/aranya-runtime/src/sync/requester.rs'
R = 'crates/aranya-runtime/src/sync/responder.rs'
HARNESS_FILES = ['kani/aranya-runtime/requester.rs', 'kani/aranya-runtime/responder.rs', 'kani/aranya-runtime/mocks.rs', 'kani/aranya-runtime/storage_mod.rs']
UNITS = [
    Kani('sync::requester::verif_kani::c18_get_sync_commands_n1', fns=[Fn(Q, 'get_sync_commands', r'impl SyncRequester')], kind='bounded', bound='1 command meta', covers=1, cap_s=900,
         contract='the requester accepts a response only at the expected index and then expects index+1: response indexes increase by exactly one', **RT),
    Kani('sync::requester::verif_kani::c17_sync_end_contract', fns=[Fn(Q, 'get_sync_commands', r'impl SyncRequester')],
         contract='SyncEnd is accepted only with max_index = number of responses received, and ends the exchange (PartialSync)', **RT),
    Kani('sync::responder::verif_kani::c17_get_next_end_of_session', fns=[Fn(R, 'get_next', r'impl SyncResponder')], covers=1, cap_s=900,
         contract='responder with nothing left to send: writes SyncEnd{max_index = message_index}, goes Idle, advances nothing, stays inside the buffer', **RT),
    Kani('storage::verif_kani::c21_location_order', fns=[], contract='needed segments are sorted by Location = (max_cut, segment): max cut first (parents-first across segments)', **RT),
]
TRUSTED = KT_TRUSTED
ASSUMPTIONS = ['SyncResponder::get_commands (resume inside a segment, index advance per delivered response) is NOT covered: three harness variants each exceeded 7-15 min of CBMC time '
               '(iterator-built Vec of commands + heapless message buffers)',
               '"every command sent is committed in the responder\'s graph" and "parents-first within a session" over all graph pairs are graph-level and not machine-checked',
               'find_needed_segments / push_bounded are not under contract']
EXPLANATION = 'Index discipline on the requester side and session termination on the responder side, as function contracts on the real code.'
MANIFEST = {
    'text': 'Proof of mechanisms: the requester enforces response indexes increasing by one and a matching end message; the responder ends a drained session with SyncEnd at the current index; '
            'segments are ordered max-cut first. The responder\'s per-response command selection (get_commands) could not be brought within CBMC\'s reach and is not covered.',
    'note': 'Mechanism contracts only (PROVED-LOCAL); get_commands / find_needed_segments uncovered.',
    'technique': 'Kani contract harnesses + CBMC',
}
