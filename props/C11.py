import os
from lib.core import Kani, Verus, Fn, VERUS_DIR
from lib import vx
from verus import c11_skip_targets as st
from verus import c11_is_ancestor as ia
from props.C04 import LCA_UNIT

PROPERTY = 'C11'
LEVEL = 'proof'
HARNESS_FILES = ['verus/c11_skip_targets.py', 'verus/c11_is_ancestor.py', 'verus/c04_lca.py']


def build_ia():
    text, located, dropped, raws = ia.build()
    d = os.path.join(VERUS_DIR, 'c11_is_ancestor')
    os.makedirs(d, exist_ok=True)
    vx.write_diff(raws, os.path.join(d, 'repo_vs_verified.diff'))
    return text, located, dropped



def build():
    text, located, dropped, raws = st.build()
    d = os.path.join(VERUS_DIR, 'c11_skip_targets')
    os.makedirs(d, exist_ok=True)
    vx.write_diff(raws, os.path.join(d, 'repo_vs_verified.diff'))
    return text, located, dropped


UNITS = [
    LCA_UNIT,
    Verus('c11_skip_targets', build, min_verified=6,
          contract='skip_target_boundaries(n): never Err (no Bug reachable, no overflow); strictly ascending; every target in [1, n); empty iff n < 2; '
                   'first = n/2; each next target halves the remaining gap; the last gap is <= MIN_SKIP_GAP; terminates. All n in u64.'),
    Verus('c11_is_ancestor', build_ia, min_verified=41,
          contract='Storage::is_ancestor, search_queued, Storage::get_location, Storage::get_location_from, Segment::get_by_address, LocatedAddress::location (default methods, extracted verbatim): for every well-formed stored graph of any size, '
                   'is_ancestor terminates and returns true exactly when search is a proper ancestor of start; search_queued returns Some(l) exactly when the storage holds the addressed command and it is an ancestor-or-self of a seed, '
                   'and l is that command\'s location; get_location finds the command exactly when it is in the committed graph (reachable from a committed head); get_location_from exactly when it is start or an ancestor of start; '
                   'skip-list jumps never change the answer; no error / Bug exit; the debug_asserts are proved'),
]
TRUSTED = ['MaxCut is a u64 newtype (shim)',
           'graph well-formedness axioms (assumed contract of Storage / Segment / get_heads, 10 admitted proof fns + A7 uniqueness of command ids): max cut strictly grows along ancestry, transitivity, in-segment order, '
           'cross-segment ancestry passes through the segment priors, skip entries are spine nodes (A4). A4 is no longer a free assumption: unit c04_lca proves that LinearStorage::build_skip_list '
           'establishes it for every new segment from A4 of the existing segments and from lca_pair returning a cut — an induction over the write order whose glue (LinearStorage::write passes the perspective\'s prior and the braid\'s LCA) is read, not checked',
           'TraversalQueue::{push, pop} contracts as proved in unit c21_traversal_queue, restated over the one-entry-per-segment view (restatement argued, not mechanically linked)']
ASSUMPTIONS = ['an address (id, max cut) names at most one stored command (axiom A7: command ids are unique); Segment::get_command returns the command stored at the location; TraversalQueue::push is assumed not to overflow its capacity',
               'that the real LinearStorage satisfies the structural graph axioms A1-A3, A5, A6 (max cut grows along ancestry, segments are linear, cross-segment ancestry goes through priors, rooted) is argued in DESIGN.md, not machine-checked']
EXPLANATION = 'Ancestry search proved correct and terminating over an abstract well-formed graph; skip-list target computation proved for all n; both on extracted text.'
MANIFEST = {
    'text': 'Proof relative to stated graph axioms: the extracted Storage::is_ancestor terminates and answers exactly "proper ancestor" on every well-formed graph, with skip jumps '
            'never changing the answer, and lookup by address (search_queued, get_location, get_location_from) finds a command exactly when it is reachable from the committed heads / the start and returns its location '
            '(Verus, unbounded, 37 obligations); the skip-list boundary computation is verified for every n. The spine property of skip lists is established by the extracted build_skip_list / walk_collecting_skips / lca_pair (unit c04_lca).',
    'note': 'PROVED-LOCAL: modular proof over assumed Storage/Segment graph axioms and the TraversalQueue contracts of C21.',
    'technique': 'Verus on the extracted Storage::is_ancestor, search_queued, get_location, get_location_from and skip_target_boundaries',
}
