import os
from lib.core import Kani, Verus, Fn, VERUS_DIR
from lib import vx
from verus import c11_skip_targets as st

PROPERTY = 'C11'
LEVEL = 'proof'
HARNESS_FILES = ['verus/c11_skip_targets.py']


def build():
    text, located, dropped, raws = st.build()
    d = os.path.join(VERUS_DIR, 'c11_skip_targets')
    os.makedirs(d, exist_ok=True)
    vx.write_diff(raws, os.path.join(d, 'repo_vs_verified.diff'))
    return text, located, dropped


UNITS = [
    Verus('c11_skip_targets', build, min_verified=6,
          contract='skip_target_boundaries(n): never Err (no Bug reachable, no overflow); strictly ascending; every target in [1, n); empty iff n < 2; '
                   'first = n/2; each next target halves the remaining gap; the last gap is <= MIN_SKIP_GAP; terminates. All n in u64.'),
]
TRUSTED = ['MaxCut is a u64 newtype (shim)']
ASSUMPTIONS = ['search_queued / is_ancestor against graph reachability and the skip invariant (spine argument in DESIGN.md) are not machine-checked yet']
EXPLANATION = 'Skip-list target computation proved for all n by Verus on the extracted function.'
MANIFEST = {
    'text': 'Proof (mechanism): the skip-list boundary computation is verified for every segment length n in u64 (Verus, extracted text). '
            'Exactness of lookup/ancestry over all graphs is a history-level statement; the supporting skip invariant is argued in DESIGN.md and not machine-checked.',
    'note': 'Mechanism contract only (PROVED-LOCAL).',
    'technique': 'Verus on the extracted skip_target_boundaries',
}
