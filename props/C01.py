import os
from lib.core import Kani, Verus, Fn, VERUS_DIR
from props.C09 import build as build_head_set
from props.C02 import CM_UNIT

PROPERTY = 'C01'
LEVEL = 'proof'
RT = dict(crate='aranya-runtime', features='testing,libc')
B = 'crates/aranya-runtime/src/client/braiding.rs'
HARNESS_FILES = ['verus/c09_head_set.py', 'verus/c02_convergence_map.py', 'kani/aranya-runtime/head_set.rs', 'kani/aranya-runtime/command.rs', 'kani/aranya-runtime/strand_heap.rs']
UNITS = [
    CM_UNIT,
    Verus('c09_head_set', build_head_set, min_verified=7,
          contract='HeadSet::push keeps the head set sorted and duplicate-free; lemma: two sorted duplicate-free sequences with equal element sets are equal — '
                   'the committed head set is a function of the SET of heads, not of arrival order. Unbounded.'),
    Kani('storage::head_set::verif_kani::c09_located_address_order', fns=[], contract='derive(Ord) on LocatedAddress: ordered by command id first (the order every replica shares)', **RT),
    Kani('command::verif_kani::c03_priority_order_is_rank_order', fns=[], contract='Priority order is the same total order on every replica', **RT),
    Kani('client::braiding::strand_heap::verif_kani::c03_strand_order_is_reversed_priority_then_id', fns=[Fn(B, 'cmp', r'impl<S> Ord for Strand<S>', mod=r'pub\(crate\) mod strand_heap')],
         contract='deterministic (priority, id) strand ordering: a total order that depends only on command content', **RT),
    Kani('command::verif_kani::c04_merge_ids_normalised', fns=[], contract='MergeIds::new(a,b) = MergeIds::new(b,a): the pairwise fold does not depend on the argument order', **RT),
]
TRUSTED = ['derive(Ord) axioms in the Verus unit (cross-checked by Kani on the real type)']
ASSUMPTIONS = ['convergence of fact state / hello head over all pairs of delivery histories is history-level and is NOT decided; only the order-independence mechanisms are',
               'fold_merge_pairs pairing order and Transaction::commit with several tips are not under contract (VecDeque/closure code; 2-entry BTreeMap beyond CBMC reach)']
EXPLANATION = 'Each mechanism the property rests on is "a function of the set, not of the order": canonical head set (Verus, unbounded), total orders on priority / strands / merge ids (Kani, full domains).'
MANIFEST = {
    'text': 'Proof of the order-independence mechanisms: the committed head set is canonical for a set of heads of any size (Verus + lemma), and the orders used to braid and to pair merges '
            'are total orders on command content (Kani, full domains). Convergence over all delivery histories is not machine-checked.',
    'note': 'Mechanism contracts only (PROVED-LOCAL); shares units with C09/C03/C04.',
    'technique': 'Verus on extracted HeadSet::push and the extracted ConvergenceMap + Kani contract harnesses',
}
