import os
from lib.core import Kani, Verus, Fn, VERUS_DIR
from lib import vx
from verus import c18_get_sync_commands as gsc


def build_gsc():
    text, located, dropped, raws = gsc.build()
    d = os.path.join(VERUS_DIR, 'c18_get_sync_commands')
    os.makedirs(d, exist_ok=True)
    vx.write_diff(raws, os.path.join(d, 'repo_vs_verified.diff'))
    return text, located, dropped


GSC_UNIT = Verus('c18_get_sync_commands', build_gsc, min_verified=15,
                 contract='SyncRequester::get_sync_commands extracted, ANY number of commands and any payload: no panic; every policy / data slice lies inside the received bytes at the cumulative offsets of the metas '
                          '(policy first, then data, per command, in order); lengths that do not fit => MalformedResponse; another session => SessionMismatch with the requester unchanged; a SyncResponse is accepted only in '
                          'Start/Waiting at next_message_index, which then grows by one, else Resync + MissingSyncResponse; SyncEnd only with max_index = next_message_index; terminates')

PROPERTY = 'C18'
LEVEL = 'proof'
Q = 'crates/aranya-runtime/src/sync/requester.rs'
MQ = 'sync::requester::verif_kani::'
RT = dict(crate='aranya-runtime', features='testing,libc')
HARNESS_FILES = ['verus/c18_get_sync_commands.py', 'kani/aranya-runtime/requester.rs']
CON = ('get_sync_commands on a SyncResponse whose command metas carry arbitrary u32 lengths and an arbitrary payload: never panics; SessionMismatch iff ids differ (state untouched); '
       'accepted only in Start/Waiting at the expected index (then index+1); every returned policy/data slice lies inside the received bytes, consecutive, with the claimed lengths; '
       'otherwise MalformedResponse exactly when the claimed lengths exceed the received bytes')


def u(n, tiers=('quick', 'thorough'), cap=900):
    return Kani(MQ + f'c18_get_sync_commands_n{n}', fns=[Fn(Q, 'get_sync_commands', r'impl SyncRequester')], kind='bounded',
                bound=f'{n} command metas (lengths over all of u32), payload <= 12 bytes, all bytes symbolic', covers=(1 if n else None),
                tiers=tiers, cap_s=cap, contract=CON, **RT)


UNITS = [GSC_UNIT, u(0), u(1), u(2), u(3, tiers=('thorough',), cap=2400),
         Kani(MQ + 'c17_sync_end_contract', fns=[Fn(Q, 'get_sync_commands', r'impl SyncRequester')],
              contract='SyncEnd accepted only in Start/Waiting with max_index = next expected index; index never changes', **RT)]
TRUSTED = ['postcard decoding of the message enum (SyncIncoming::decode / take_from_bytes) is NOT covered: the contract starts from a decoded SyncResponseMessage',
           'next_message_index < u64::MAX (2^64 responses cannot have been received)']
ASSUMPTIONS = ['the Kani harnesses run the compiled code with <= 3 command metas; the Verus unit covers any number on the extracted text (heapless Vec modelled by a std Vec with capacity, slice::get(range) by a verified helper)',
               'SyncResponder::dispatch and postcard decode of arbitrary bytes are not under contract yet']
EXPLANATION = 'Contract harness on the real payload-slicing code over fully symbolic attacker-controlled lengths.'
MANIFEST = {
    'text': 'Proof of the slicing contract (Verus: any number of commands; Kani on the compiled code: up to 3): for all u32 length fields and all payloads, get_sync_commands never panics, never reads outside the '
            'received bytes, rejects foreign sessions without touching state and accepts a response only at the expected index. Decoding of raw bytes (postcard) is not covered.',
    'note': 'Verus unit unbounded; Kani units bounded (<= 3 command metas, payload <= 12 bytes; lengths/indices/session ids over their full domains). postcard decode not under contract.',
    'technique': 'Verus on the extracted get_sync_commands + Kani contract harness (overflow/bounds obligations on the real body, CBMC)',
}
