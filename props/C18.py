from lib.core import Kani, Fn

PROPERTY = 'C18'
LEVEL = 'proof'
Q = 'crates/aranya-runtime/src/sync/requester.rs'
MQ = 'sync::requester::verif_kani::'
RT = dict(crate='aranya-runtime', features='testing,libc')
HARNESS_FILES = ['kani/aranya-runtime/requester.rs']
CON = ('get_sync_commands on a SyncResponse whose command metas carry arbitrary u32 lengths and an arbitrary payload: never panics; SessionMismatch iff ids differ (state untouched); '
       'accepted only in Start/Waiting at the expected index (then index+1); every returned policy/data slice lies inside the received bytes, consecutive, with the claimed lengths; '
       'otherwise MalformedResponse exactly when the claimed lengths exceed the received bytes')


def u(n, tiers=('quick', 'thorough'), cap=900):
    return Kani(MQ + f'c18_get_sync_commands_n{n}', fns=[Fn(Q, 'get_sync_commands', r'impl SyncRequester')], kind='bounded',
                bound=f'{n} command metas (lengths over all of u32), payload <= 12 bytes, all bytes symbolic', covers=(1 if n else None),
                tiers=tiers, cap_s=cap, contract=CON, **RT)


UNITS = [u(0), u(1), u(2), u(3, tiers=('thorough',), cap=2400),
         Kani(MQ + 'c17_sync_end_contract', fns=[Fn(Q, 'get_sync_commands', r'impl SyncRequester')],
              contract='SyncEnd accepted only in Start/Waiting with max_index = next expected index; index never changes', **RT)]
TRUSTED = ['postcard decoding of the message enum (SyncIncoming::decode / take_from_bytes) is NOT covered: the contract starts from a decoded SyncResponseMessage',
           'next_message_index < u64::MAX (2^64 responses cannot have been received)']
ASSUMPTIONS = ['per-command slicing step is the same for every command (loop-invariant start <= remaining.len()); the harness bound on the number of commands is 3',
               'SyncResponder::dispatch and postcard decode of arbitrary bytes are not under contract yet']
EXPLANATION = 'Contract harness on the real payload-slicing code over fully symbolic attacker-controlled lengths.'
MANIFEST = {
    'text': 'Proof of the slicing contract (bounded in the number of commands only): for all u32 length fields and all payloads, get_sync_commands never panics, never reads outside the '
            'received bytes, rejects foreign sessions without touching state and accepts a response only at the expected index. Decoding of raw bytes (postcard) is not covered.',
    'note': 'BOUNDED: <= 3 command metas, payload <= 12 bytes; lengths/indices/session ids over their full domains. postcard decode not under contract.',
    'technique': 'Kani contract harness (overflow/bounds obligations on the real body) + CBMC',
}
