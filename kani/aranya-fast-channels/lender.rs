//! C44 — `Lender` / `Loan` / `BiArc` (crates/aranya-fast-channels/src/memory/lender.rs):
//! every SEQUENTIAL order of lend / access / drop. Thread interleavings and
//! atomic orderings are not covered (Kani has no threads).
#![allow(clippy::all, static_mut_refs)]
use super::*;

static mut DROPS: u32 = 0;
struct Payload(u8);
impl Drop for Payload {
    fn drop(&mut self) {
        unsafe {
            DROPS += 1;
        }
    }
}

/// All sequential orders of STEPS operations from {lend, access via loan, drop loan, drop lender}.
/// * at most one live loan: `lend` returns `Some` iff no loan is live;
/// * a loan reaches the data iff the lender (channel entry) is still alive;
/// * the shared data is dropped exactly once, and only after both handles are gone
///   (CBMC's pointer checks: no use after free, no double free).
fn sequential_orders<const STEPS: usize>() {
    unsafe { DROPS = 0 };
    let mut lender: Option<Lender<Payload, u8>> = Some(Lender::new(Payload(7), 0u8));
    let mut loan: Option<Loan<Payload, u8>> = None;
    let mut step = 0;
    while step < STEPS {
        match kani::any::<u8>() % 4 {
            0 => {
                if let Some(l) = lender.as_ref() {
                    let had = loan.is_some();
                    let new = l.lend();
                    if had {
                        assert!(new.is_none());
                    } else {
                        assert!(new.is_some());
                        loan = new;
                    }
                }
            }
            1 => {
                if let Some(lo) = loan.as_mut() {
                    let alive = lender.is_some();
                    let got = lo.get_mut();
                    assert!(got.is_some() == alive);
                    if let Some((s, x)) = got {
                        assert!(s.0 == 7);
                        *x = x.wrapping_add(1);
                    }
                }
            }
            2 => {
                loan = None;
            }
            _ => {
                lender = None;
            }
        }
        let live = lender.is_some() || loan.is_some();
        unsafe {
            assert!(DROPS == if live { 0 } else { 1 });
        }
        step += 1;
    }
    drop(loan);
    drop(lender);
    unsafe {
        assert!(DROPS == 1);
    }
}

#[kani::proof]
#[kani::unwind(7)]
fn c44_lender_sequential_orders_5() {
    sequential_orders::<5>();
}
#[kani::proof]
#[kani::unwind(9)]
fn c44_lender_sequential_orders_7() {
    sequential_orders::<7>();
}
