//! C39 — contracts for `DataHeader`/`Header` codecs and the length / parse /
//! zeroise logic of `Client::{open, open_in_place, seal}`.
//!
//! Loaded by the hook line at the end of
//! `crates/aranya-fast-channels/src/client.rs`.
//!
//! The state is a *havoc* `AfcState`: no `OpenKey`/`SealKey` can be fabricated
//! without running the real key schedule, so the havoc `open`/`seal` do not
//! invoke the closure; they return the error selected by the harness. Every
//! statement of the functions under contract other than the closure body is
//! executed symbolically.
use core::ops::{Deref, DerefMut};

use aranya_crypto::default::DefaultCipherSuite as CS;

use super::*;
use crate::buf::{AllocError, Buf};

const TAG: usize = 16;
const HDR: usize = 8;

/// Which error the havoc state reports (deterministic per harness: a symbolic
/// choice between values of the deeply nested `Error` enum is CBMC's worst
/// case, see DESIGN §1).
#[derive(Clone, Copy)]
enum Outcome {
    InnerAuth,
    OuterExpired,
}

struct HState(Outcome);

impl AfcState for HState {
    type CipherSuite = CS;
    type SealCtx = ();
    type OpenCtx = ();
    fn setup_seal_ctx(&self, id: LocalChannelId) -> Result<(), Error> {
        Err(Error::NotFound(id))
    }
    fn setup_open_ctx(&self, id: LocalChannelId) -> Result<(), Error> {
        Err(Error::NotFound(id))
    }
    fn seal<F, T>(&self, _ctx: &mut (), _f: F) -> Result<Result<T, Error>, Error>
    where
        F: FnOnce(&mut SealKey<CS>, LabelId) -> Result<T, Error>,
    {
        unsafe { STATE_CALLS += 1 };
        match self.0 {
            Outcome::InnerAuth => Ok(Err(Error::Authentication)),
            Outcome::OuterExpired => Err(Error::KeyExpired),
        }
    }
    fn open<F, T>(&self, _ctx: &mut (), _f: F) -> Result<Result<T, Error>, Error>
    where
        F: FnOnce(&OpenKey<CS>, LabelId) -> Result<T, Error>,
    {
        unsafe { STATE_CALLS += 1 };
        match self.0 {
            Outcome::InnerAuth => Ok(Err(Error::Authentication)),
            Outcome::OuterExpired => Err(Error::KeyExpired),
        }
    }
    fn exists(&self, _id: LocalChannelId) -> Result<bool, Error> {
        Ok(false)
    }
}

/// The only ghost static of this module: how often the state was consulted.
static mut STATE_CALLS: u8 = 0;

/// Array-backed `Buf` (no allocator in the formula).
struct ArrBuf<const N: usize> {
    bytes: [u8; N],
    len: usize,
}
impl<const N: usize> Deref for ArrBuf<N> {
    type Target = [u8];
    fn deref(&self) -> &[u8] {
        &self.bytes[..self.len]
    }
}
impl<const N: usize> DerefMut for ArrBuf<N> {
    fn deref_mut(&mut self) -> &mut [u8] {
        &mut self.bytes[..self.len]
    }
}
impl<const N: usize> AsRef<[u8]> for ArrBuf<N> {
    fn as_ref(&self) -> &[u8] {
        self
    }
}
impl<const N: usize> AsMut<[u8]> for ArrBuf<N> {
    fn as_mut(&mut self) -> &mut [u8] {
        self
    }
}
impl<const N: usize> Buf for ArrBuf<N> {
    fn len(&self) -> usize {
        self.len
    }
    fn split_at_mut(&mut self, mid: usize) -> (&mut [u8], &mut [u8]) {
        self.bytes[..self.len].split_at_mut(mid)
    }
    fn truncate(&mut self, len: usize) {
        if len < self.len {
            self.len = len;
        }
    }
    fn try_reserve_exact(&mut self, additional: usize) -> Result<(), AllocError> {
        let _ = additional;
        Ok(())
    }
    fn try_resize(&mut self, new_len: usize, value: u8) -> Result<(), AllocError> {
        assert!(new_len <= N);
        let mut i = self.len;
        while i < new_len {
            self.bytes[i] = value;
            i += 1;
        }
        self.len = new_len;
        Ok(())
    }
    // `zeroize` is NOT overridden: the repository's default method runs.
}

/// Stand-in for `<[u8] as Zeroize>::zeroize` (the real one ends in inline
/// asm / volatile writes that CBMC does not model). Plain zeroing loop.
fn zeroize_stub(s: &mut [u8]) {
    let mut i = 0;
    while i < s.len() {
        s[i] = 0;
        i += 1;
    }
}

fn is_auth(r: &Result<(LabelId, Seq), Error>) -> bool {
    matches!(r, Err(Error::Authentication))
}

// ---------------------------------------------------------------- headers

/// ⟦DataHeader::try_parse / encode⟧ over all 2^64 byte strings / all seq:
/// never `Bug`; `seq` is the little-endian value; the two are inverse.
#[kani::proof]
fn c39_data_header_codec() {
    let b: [u8; DataHeader::PACKED_SIZE] = kani::any();
    assert!(DataHeader::PACKED_SIZE == HDR);
    match DataHeader::try_parse(&b) {
        Ok(h) => {
            assert!(h.seq.to_u64() == u64::from_le_bytes(b));
            let mut out = [0u8; DataHeader::PACKED_SIZE];
            assert!(h.encode(&mut out).is_ok());
            assert!(out == b);
        }
        Err(_) => panic!("DataHeader::try_parse rejected 8 bytes"),
    }
    let seq: u64 = kani::any();
    let mut out = [0xAAu8; DataHeader::PACKED_SIZE];
    assert!(DataHeader { seq: Seq::new(seq) }.encode(&mut out).is_ok());
    assert!(out == seq.to_le_bytes());
}

/// ⟦Header::try_parse / encode⟧ over all 2^32 byte strings.
#[kani::proof]
fn c39_header_codec() {
    let b: [u8; Header::PACKED_SIZE] = kani::any();
    let v = u16::from_le_bytes([b[0], b[1]]);
    let t = u16::from_le_bytes([b[2], b[3]]);
    match Header::try_parse(&b) {
        Ok(h) => {
            assert!(v == 0x6f54 && (t == 1 || t == 2));
            assert!(h.version == Version::V1);
            assert!((h.msg_type == MsgType::Data) == (t == 1));
            let mut out = [0u8; Header::PACKED_SIZE];
            assert!(h.encode(&mut out).is_ok());
            assert!(out == b);
        }
        Err(HeaderError::UnknownVersion) => assert!(v != 0x6f54),
        Err(HeaderError::InvalidMsgType) => assert!(v == 0x6f54 && t != 1 && t != 2),
        Err(_) => panic!("Bug / InvalidSize reachable in Header::try_parse"),
    }
    kani::cover!(v == 0x6f54 && t == 2);
}

// ---------------------------------------------------------- open_in_place

/// ⟦Client::open_in_place⟧ for a message of exactly LEN symbolic bytes.
/// * never panics (Kani's overflow / bounds / unwrap checks on the real body);
/// * LEN < 8            ⇒ `Err`, state not consulted, buffer unchanged;
/// * 8 ≤ LEN < 8 + TAG  ⇒ `Err(Authentication)`, state not consulted;
/// * LEN ≥ 8 + TAG      ⇒ state consulted exactly once; on its error the whole
///   buffer is zero ("leaves no plaintext") and the error is returned.
fn open_in_place_contract<const LEN: usize>(o: Outcome) {
    let c = Client::new(HState(o));
    let bytes: [u8; LEN] = kani::any();
    let mut data = ArrBuf::<LEN> { bytes, len: LEN };
    unsafe { STATE_CALLS = 0 };
    let r = c.open_in_place(&mut (), &mut data);
    let calls = unsafe { STATE_CALLS };
    assert!(r.is_err());
    assert!(data.len == LEN);
    if LEN < HDR {
        assert!(calls == 0);
        assert!(data.bytes == bytes);
    } else if LEN < HDR + TAG {
        assert!(is_auth(&r));
        assert!(calls == 0);
        assert!(data.bytes == bytes);
    } else {
        assert!(calls == 1);
        match o {
            Outcome::InnerAuth => assert!(is_auth(&r)),
            Outcome::OuterExpired => assert!(matches!(r, Err(Error::KeyExpired))),
        }
        let mut i = 0;
        while i < LEN {
            assert!(data.bytes[i] == 0);
            i += 1;
        }
    }
    core::mem::forget(r);
}

macro_rules! oip {
    ($name:ident, $len:expr, $o:expr) => {
        #[kani::proof]
        #[kani::unwind(44)]
        #[kani::stub(aranya_crypto::zeroize::Zeroize::zeroize, zeroize_stub)]
        fn $name() {
            open_in_place_contract::<$len>($o);
        }
    };
}
oip!(c39_open_in_place_len_00, 0, Outcome::InnerAuth);
oip!(c39_open_in_place_len_07, 7, Outcome::InnerAuth);
oip!(c39_open_in_place_len_08, 8, Outcome::InnerAuth);
oip!(c39_open_in_place_len_10, 10, Outcome::InnerAuth);
oip!(c39_open_in_place_len_23, 23, Outcome::InnerAuth);
oip!(c39_open_in_place_len_24, 24, Outcome::InnerAuth);
oip!(c39_open_in_place_len_25, 25, Outcome::OuterExpired);
oip!(c39_open_in_place_len_40, 40, Outcome::InnerAuth);

// ------------------------------------------------------------------- open

/// ⟦Client::open⟧ (copying) for a ciphertext of LEN symbolic bytes and a
/// destination of symbolic length ≤ DST.
fn open_contract<const LEN: usize, const DST: usize>(o: Outcome) {
    let c = Client::new(HState(o));
    let ct: [u8; LEN] = kani::any();
    let dst0: [u8; DST] = kani::any();
    let mut dst = dst0;
    let dlen: usize = kani::any();
    kani::assume(dlen <= DST);
    unsafe { STATE_CALLS = 0 };
    let r = c.open(&mut (), &mut dst[..dlen], &ct);
    let calls = unsafe { STATE_CALLS };
    assert!(r.is_err());
    if LEN < HDR {
        assert!(calls == 0 && dst == dst0);
    } else if LEN < HDR + TAG {
        assert!(is_auth(&r) && calls == 0 && dst == dst0);
    } else if dlen < LEN - HDR - TAG {
        assert!(matches!(r, Err(Error::BufferTooSmall)));
        assert!(calls == 0 && dst == dst0);
    } else {
        assert!(calls == 1);
        match o {
            Outcome::InnerAuth => assert!(is_auth(&r)),
            Outcome::OuterExpired => assert!(matches!(r, Err(Error::KeyExpired))),
        }
        let mut i = 0;
        while i < DST {
            if i < dlen {
                assert!(dst[i] == 0);
            } else {
                assert!(dst[i] == dst0[i]);
            }
            i += 1;
        }
    }
    core::mem::forget(r);
}

macro_rules! op {
    ($name:ident, $len:expr, $dst:expr, $o:expr) => {
        #[kani::proof]
        #[kani::unwind(44)]
        #[kani::stub(aranya_crypto::zeroize::Zeroize::zeroize, zeroize_stub)]
        fn $name() {
            open_contract::<$len, $dst>($o);
        }
    };
}
op!(c39_open_len_05, 5, 4, Outcome::InnerAuth);
op!(c39_open_len_08, 8, 4, Outcome::InnerAuth);
op!(c39_open_len_23, 23, 4, Outcome::InnerAuth);
op!(c39_open_len_24, 24, 4, Outcome::InnerAuth);
op!(c39_open_len_28, 28, 6, Outcome::OuterExpired);

// ------------------------------------------------------------------- seal

/// ⟦Client::seal⟧: `dst` shorter than plaintext + OVERHEAD ⇒ `BufferTooSmall`
/// with `dst` untouched and the state not consulted; otherwise the state is
/// consulted once and on its error exactly `dst[..len+OVERHEAD]` is zeroised.
fn seal_contract<const PT: usize, const DST: usize>(o: Outcome) {
    let c = Client::new(HState(o));
    let pt: [u8; PT] = kani::any();
    let dst0: [u8; DST] = kani::any();
    let mut dst = dst0;
    let dlen: usize = kani::any();
    kani::assume(dlen <= DST);
    unsafe { STATE_CALLS = 0 };
    let r = c.seal(&mut (), &mut dst[..dlen], &pt);
    let calls = unsafe { STATE_CALLS };
    assert!(r.is_err());
    let need = PT + HDR + TAG;
    assert!(Client::<HState>::OVERHEAD == HDR + TAG);
    if dlen < need {
        assert!(matches!(r, Err(Error::BufferTooSmall)));
        assert!(calls == 0 && dst == dst0);
    } else {
        assert!(calls == 1);
        let mut i = 0;
        while i < DST {
            if i < need {
                assert!(dst[i] == 0);
            } else {
                assert!(dst[i] == dst0[i]);
            }
            i += 1;
        }
    }
    core::mem::forget(r);
}

#[kani::proof]
#[kani::unwind(44)]
#[kani::stub(aranya_crypto::zeroize::Zeroize::zeroize, zeroize_stub)]
fn c39_seal_pt3() {
    seal_contract::<3, 30>(Outcome::InnerAuth);
}
