//! KT trace contracts on `crates/aranya-runtime/src/client.rs` (C07, C19, C04).
#![allow(clippy::all)]
use core::mem;

use super::*;
use crate::{
    storage::{Spill, Storage, TraversalBuffer},
    Location,
    verif_mocks::*,
    MaxCut, SegmentIndex,
};

fn mk_spill() -> Result<NoSpill, StorageError> {
    Ok(NoSpill)
}

/// Contract of `collapse_heads` as its callers see it (the modular step): it
/// returns some location or some error and — by its signature — has no access
/// to the caller's sink. Logs COLLAPSE(number of heads).
fn stub_collapse_heads<S, PS, F, MS>(
    _storage: &mut S,
    _policy_store: &mut PS,
    heads: HeadSet,
    _buffers: &mut RuntimeBuffers<S::Segment>,
    _make_spill: &MS,
) -> Result<Location, ClientError>
where
    S: Storage,
    PS: PolicyStore,
    F: Spill,
    MS: Fn() -> Result<F, StorageError>,
{
    log(COLLAPSE, heads.len() as u8);
    mem::forget(heads);
    if kani::any() { Err(ClientError::ParallelFinalize) } else { Ok(loc(1, 1)) }
}

/// ⟦ClientState::action⟧ for all storages / policies / sinks:
/// * `Ok`  ⇒ trace is exactly Collapse · GetLinearPersp · Begin · CallAction(OnGraph) · Write ·
///           CommitHeads(1 head) · Commit — heads are committed before effects, exactly once each;
/// * `Err` ⇒ no sink Commit ever; CommitHeads only if it was the failing call itself;
///           a policy failure ends in Rollback with no Write.
#[kani::proof]
#[kani::unwind(34)]
#[kani::stub(transaction::collapse_heads, stub_collapse_heads)]
fn c07_action_trace() {
    let action_ok: bool = kani::any();
    let sp = MSP::any();
    let (write_fails, ch_fails) = (sp.storage.write_fails, sp.storage.commit_heads_fails);
    let mut ps = MPS::new(true, action_ok);
    ps.get_fails = kani::any();
    let mut client = ClientState::new(ps, sp);
    let mut sink = MSink;
    let mut bufs: RuntimeBuffers<MSeg> = RuntimeBuffers::new();
    let r = client.action::<NoSpill, _>(GraphId::default(), &mut sink, (), &mut bufs, mk_spill);
    let ok = r.is_ok();
    mem::forget(r);
    // nothing reaches the caller's sink before Begin, and Begin comes after the collapse
    if count(BEGIN) == 1 {
        assert!(first(COLLAPSE) < first(BEGIN));
        assert!(first(BEGIN) < first(CALL_ACTION));
    }
    assert!(count(BEGIN) <= 1 && count(CALL_ACTION) <= 1 && count(WRITE) <= 1 && count(COMMIT_HEADS) <= 1);
    if ok {
        assert!(trace_is(&[COLLAPSE, GET_HEADS, GET_LINEAR_PERSP, BEGIN, CALL_ACTION, WRITE, COMMIT_HEADS, COMMIT])
            || trace_is(&[GET_HEADS, COLLAPSE, GET_LINEAR_PERSP, BEGIN, CALL_ACTION, WRITE, COMMIT_HEADS, COMMIT]));
        assert!(arg_at(first(COMMIT_HEADS)) == 1);
        assert!(arg_at(first(CALL_ACTION)) == 1); // ActionPlacement::OnGraph
        // the one new head is the LAST command of the segment just written: its id, its segment, its (last) max cut
        let st = &client.provider.storage;
        match (st.written, st.committed_head) {
            (Some((id, seg, mc)), Some(h)) => assert!(h.id == id && h.segment == seg && h.max_cut == mc),
            _ => panic!("a successful action writes a segment and commits its head"),
        }
        assert!(action_ok && !write_fails && !ch_fails);
        kani::cover!(true);
    } else {
        assert!(count(COMMIT) == 0);
        if count(COMMIT_HEADS) == 1 {
            assert!(ch_fails && last(COMMIT_HEADS) == n() - 1);
        }
        if count(CALL_ACTION) == 1 && !action_ok {
            // policy failure: effects rolled back, nothing written
            assert!(count(WRITE) == 0 && count(COMMIT_HEADS) == 0);
            assert!(kind_at(n() - 1) == ROLLBACK);
            kani::cover!(true);
        }
        if count(WRITE) == 1 && write_fails {
            assert!(count(COMMIT_HEADS) == 0);
        }
    }
    mem::forget(client);
}

fn stub_synthetic_head<S, PS>(_storage: &S, _ps: &PS, _heads: &HeadSet) -> Result<Address, ClientError>
where
    S: Storage,
    PS: PolicyStore,
{
    if kani::any() {
        Err(ClientError::InitError)
    } else {
        // one of two concrete addresses, so equality with the advertised head is decidable
        let b: bool = kani::any();
        log(MERGE, b as u8);
        Ok(Address { id: id_of(if b { 70 } else { 71 }), max_cut: MaxCut::new(9) })
    }
}

/// ⟦ClientState::should_sync_on_hello⟧: missing graph ⇒ `Ok(true)`; `Ok(false)` only
/// if this graph's own hello head equals the advertised address or the advertised
/// command is found in the local committed graph; never mutates storage.
#[kani::proof]
#[kani::unwind(34)]
#[kani::stub(transaction::synthetic_head, stub_synthetic_head)]
fn c19_should_sync_on_hello() {
    let mut sp = MSP::any();
    sp.missing = kani::any();
    let missing = sp.missing;
    sp.storage.loc_mode = kani::any();
    kani::assume(sp.storage.loc_mode <= 2);
    let loc_mode = sp.storage.loc_mode;
    let ps = MPS::new(true, false);
    let mut client = ClientState::new(ps, sp);
    let head = Address { id: id_of(70), max_cut: MaxCut::new(9) };
    let mut buf = TraversalBuffer::new();
    let r = client.should_sync_on_hello(GraphId::default(), head, &mut buf);
    assert!(storage_mutations() == 0);
    if missing {
        assert!(matches!(r, Ok(true)) && n() == 0);
    } else {
        let same_hello = count(MERGE) == 1 && arg_at(first(MERGE)) == 1;
        match r {
            Ok(false) => {
                // only two ways to decide "no sync"
                assert!(same_hello || (count(GET_LOCATION) == 1 && loc_mode == 1 && arg_at(first(GET_LOCATION)) == 70));
                kani::cover!(same_hello);
                kani::cover!(!same_hello);
            }
            Ok(true) => {
                assert!(!same_hello && loc_mode == 0 && count(GET_LOCATION) == 1);
            }
            Err(_) => {}
        }
        if same_hello {
            assert!(matches!(r, Ok(false)) && count(GET_LOCATION) == 0);
        }
    }
    mem::forget(r);
    mem::forget(client);
}

/// ⟦ClientState::hello_head⟧ frame: reads the committed heads and folds them
/// through `synthetic_head`; never mutates storage.
#[kani::proof]
#[kani::unwind(34)]
#[kani::stub(transaction::synthetic_head, stub_synthetic_head)]
fn c19_hello_head_frame() {
    let sp = MSP::any();
    let ps = MPS::new(true, false);
    let mut client = ClientState::new(ps, sp);
    let r = client.hello_head(GraphId::default());
    assert!(storage_mutations() == 0 && count(GET_HEADS) == 1);
    mem::forget(r);
    mem::forget(client);
}
