//! KT/KI contracts on `crates/aranya-runtime/src/sync/responder.rs` (C20, C17, C18).
#![allow(clippy::all)]
use core::mem;

use super::*;
use crate::{verif_mocks::*, CmdId, SegmentIndex};

fn la(id: u8, seg: u64, mc: u64) -> LocatedAddress {
    LocatedAddress { id: id_of(id), segment: SegmentIndex::new(seg), max_cut: MaxCut::new(mc) }
}
/// entries are identified by their (unique, concrete) max cut: cheaper than a 32-byte id compare
fn has_mc(c: &PeerCache, mc: u64) -> bool {
    let mut i = 0;
    while i < c.heads.len() {
        if c.heads[i].max_cut.get() == mc {
            return true;
        }
        i += 1;
    }
    false
}

/// ⟦PeerCache::add_command⟧ over ANY strict partial order on the locations involved
/// (assumed contract of `is_ancestor`; C11 carries the real one) with a cache of LEN
/// entries (ids 1..=LEN, entry i in segment 1 + i % 3, symbolic max cuts) and a new
/// command (id 9) located in segment 0:
/// * not committed locally (`get_location` = None) ⇒ cache unchanged;
/// * an old entry is removed ⇔ it is a proper ancestor of the new command — nothing else is ever removed;
/// * the new command is added ⇔ it is not an ancestor of (nor equal to) an entry and there is room;
/// * at most PEER_HEAD_MAX entries; an antichain stays an antichain.
fn peer_cache_contract<const LEN: usize>() {
    let mut st = MStorage::any();
    // any relation between the new command (segment 0) and the cached entries (segments 1..=3),
    // which are pairwise unrelated (antichain); still a strict partial order:
    let mut anc = [[false; 4]; 4];
    let mut s = 1;
    while s < 4 {
        let rel: u8 = kani::any();
        kani::assume(rel < 3);
        anc[s][0] = rel == 1; // cached entry is an ancestor of the new command
        anc[0][s] = rel == 2; // new command is an ancestor of the cached entry
        s += 1;
    }
    // transitivity: the new command cannot sit between two unrelated entries
    let below = anc[1][0] || anc[2][0] || anc[3][0];
    let above = anc[0][1] || anc[0][2] || anc[0][3];
    kani::assume(!(below && above));
    st.anc = anc;
    let found: bool = kani::any();
    st.loc_mode = if found { 4 } else { 0 };
    st.found_seg = 0;
    st.quiet = true;
    let mut cache = PeerCache::new();
    // entry 0 may sit exactly one max cut below the new command (a direct parent, e.g. of a merge)
    let adjacent: bool = kani::any();
    let mc_of = |i: usize| -> u64 { if i == 0 && adjacent { 76 } else { 5 + i as u64 } };
    let mut i = 0;
    while i < LEN {
        let _ = cache.heads.push(la(1 + i as u8, 1 + (i as u64 % 3), mc_of(i)));
        i += 1;
    }
    let mut buf = TraversalBuffer::new();
    let addr = Address { id: id_of(99), max_cut: MaxCut::new(77) };
    let r = cache.add_command(&st, addr, &mut buf);
    assert!(r.is_ok());
    assert!(cache.heads.len() <= PEER_HEAD_MAX);
    if !found {
        assert!(cache.heads.len() == LEN && !has_mc(&cache, 77));
        let mut i = 0;
        while i < LEN {
            assert!(has_mc(&cache, mc_of(i)));
            i += 1;
        }
    } else {
        let mut kept = 0;
        let mut blocks = false;
        let mut i = 0;
        while i < LEN {
            let seg = 1 + (i % 3);
            // removed exactly when it is a proper ancestor of the new command
            assert!(has_mc(&cache, mc_of(i)) == !anc[seg][0]);
            if !anc[seg][0] {
                kept += 1;
            }
            if anc[0][seg] {
                blocks = true;
            }
            i += 1;
        }
        let want_new = !blocks && kept < PEER_HEAD_MAX;
        assert!(has_mc(&cache, 77) == want_new);
        assert!(cache.heads.len() == kept + want_new as usize);
        if want_new {
            // recorded with the location found in committed storage and the address' max cut
            let e = cache.heads[cache.heads.len() - 1];
            assert!(e.segment.get() == 0 && e.max_cut.get() == 77 && id_byte(e.id) == 99);
        }
        kani::cover!(want_new && kept < LEN);
        kani::cover!(!want_new);
    }
    mem::forget(r);
}

/// ⟦PeerCache::add_command⟧ recording a MERGE whose two parents are both cached (fixed relation, so this
/// is cheap): both parents are ancestors of the new command, the first one sits exactly one max cut
/// below it (a direct parent). Both must be removed and the merge recorded — no entry may stay next to
/// a descendant ("no entry is an ancestor of another").
#[kani::proof]
#[kani::unwind(34)]
fn c20_peer_cache_merge_replaces_both_parents() {
    let mut st = MStorage::any();
    let mut anc = [[false; 4]; 4];
    anc[1][0] = true;
    anc[2][0] = true;
    st.anc = anc;
    st.loc_mode = 4;
    st.found_seg = 0;
    st.quiet = true;
    let mut cache = PeerCache::new();
    let first_adjacent: bool = kani::any();
    let (m0, m1) = if first_adjacent { (76, 40) } else { (40, 76) };
    let _ = cache.heads.push(la(1, 1, m0));
    let _ = cache.heads.push(la(2, 2, m1));
    let mut buf = TraversalBuffer::new();
    let addr = Address { id: id_of(99), max_cut: MaxCut::new(77) };
    let r = cache.add_command(&st, addr, &mut buf);
    assert!(r.is_ok());
    assert!(cache.heads.len() == 1);
    assert!(has_mc(&cache, 77) && !has_mc(&cache, 76) && !has_mc(&cache, 40));
    mem::forget(r);
}

#[kani::proof]
#[kani::unwind(34)]
fn c20_peer_cache_add_len02() {
    peer_cache_contract::<2>();
}
#[kani::proof]
#[kani::unwind(34)]
fn c20_peer_cache_add_len03() {
    peer_cache_contract::<3>();
}
#[kani::proof]
#[kani::unwind(34)]
fn c20_peer_cache_add_len01() {
    peer_cache_contract::<1>();
}

/// Full cache (PEER_HEAD_MAX entries, symbolic max cuts), new command committed locally
/// and unrelated to every entry: nothing may be removed ("removes only entries that are
/// its ancestors") and the cache stays at ten entries.
#[kani::proof]
#[kani::unwind(34)]
fn c20_peer_cache_full_unrelated() {
    let mut st = MStorage::any();
    st.loc_mode = 4;
    st.found_seg = 0;
    st.quiet = true;
    let mut cache = PeerCache::new();
    let mut mcs = [0u64; PEER_HEAD_MAX];
    let mut i = 0;
    while i < PEER_HEAD_MAX {
        mcs[i] = kani::any::<u8>() as u64;
        let _ = cache.heads.push(la(1 + i as u8, 1 + (i as u64 % 3), mcs[i]));
        i += 1;
    }
    let mut buf = TraversalBuffer::new();
    let addr = Address { id: id_of(99), max_cut: MaxCut::new(kani::any::<u8>() as u64) };
    let r = cache.add_command(&st, addr, &mut buf);
    assert!(r.is_ok());
    assert!(cache.heads.len() == PEER_HEAD_MAX);
    let mut i = 0;
    while i < PEER_HEAD_MAX {
        assert!(id_byte(cache.heads[i].id) == 1 + i as u8 && cache.heads[i].max_cut.get() == mcs[i]);
        i += 1;
    }
    mem::forget(r);
}

// ------------------------------------------------------------------ C17 ---
// Built with `--features testing,libc,low-mem-usage` (COMMAND_RESPONSE_MAX = 5), so a response
// fills up after five commands: the same code, a smaller constant of the repository's own.

fn responder_with(to_send: Location) -> SyncResponder {
    let mut r = SyncResponder::new();
    r.session_id = Some(7);
    r.graph_id = Some(GraphId::default());
    r.state = SyncResponderState::Send;
    r.message_index = 3;
    r.next_send = 0;
    let _ = r.to_send.push(to_send);
    r
}

/// ⟦SyncResponder::get_commands⟧ on a segment holding max cuts [FIRST, FIRST+N), sending from START
/// (possibly mid-segment), response capacity COMMAND_RESPONSE_MAX = 5:
/// * the response carries the next min(5, remaining) commands, consecutively from START;
/// * if the segment is not exhausted its entry is rewritten to (segment, START + sent) — the first
///   unsent command — and the send index stays on it; otherwise the index moves past it.
/// Two consecutive calls never repeat or skip a command (checked by calling it twice).
#[cfg(feature = "low-mem-usage")]
fn resume_contract<const FIRST: u64, const N: u64, const START: u64>() {
    assert!(COMMAND_RESPONSE_MAX == 5);
    let mut sp = MSP::any();
    sp.storage.seg_first = FIRST;
    sp.storage.seg_ncmds = N;
    let seg = crate::SegmentIndex::new(1);
    let mut r = responder_with(Location::new(seg, MaxCut::new(START)));
    let end = FIRST + N;
    let mut next = START;
    let mut round = 0;
    while round < 2 && next < end {
        let (commands, _data, index, resume) = match r.get_commands(&mut sp) {
            Ok(x) => x,
            Err(_) => panic!("get_commands failed"),
        };
        // what get_next does after a delivered response
        if let Some(l) = resume {
            r.to_send[index] = l;
        }
        let want = core::cmp::min(5, end - next);
        assert!(commands.len() as u64 == want);
        let mut k = 0;
        while k < commands.len() {
            assert!(id_byte(commands[k].id) as u64 == next + k as u64);
            k += 1;
        }
        next += want;
        if next < end {
            assert!(index == 0);
            assert!(r.to_send[0] == Location::new(seg, MaxCut::new(next)));
        } else {
            assert!(index == 1);
        }
        r.next_send = index; // what get_next does after a delivered response
        round += 1;
    }
    mem::forget(r);
}

#[cfg(feature = "low-mem-usage")]
#[kani::proof]
#[kani::unwind(40)]
fn c17_resume_from_segment_start() {
    resume_contract::<10, 7, 10>();
}
#[cfg(feature = "low-mem-usage")]
#[kani::proof]
#[kani::unwind(12)]
fn c17_resume_from_mid_segment() {
    // sending starts at max cut 12 of a segment holding 10..=17: 5 now (12..=16), resume at 17, then 1
    resume_contract::<10, 8, 12>();
}

/// ⟦SyncResponder::get_next⟧, nothing left to send: writes SyncEnd{max_index = message_index},
/// goes Idle, advances neither the response index nor the send index; never writes beyond the buffer.
#[kani::proof]
#[kani::unwind(34)]
fn c17_get_next_end_of_session() {
    let mut r = SyncResponder::new();
    r.session_id = Some(kani::any());
    r.graph_id = Some(GraphId::default());
    r.state = SyncResponderState::Send;
    let idx: usize = kani::any();
    r.message_index = idx;
    r.next_send = 0; // to_send is empty
    let mut sp = MSP::any();
    let mut buf = [0u8; 64];
    let blen: usize = kani::any();
    kani::assume(blen <= 64);
    let res = r.get_next(&mut buf[..blen], &mut sp);
    assert!(r.message_index == idx && r.next_send == 0);
    assert!(matches!(r.state, SyncResponderState::Idle));
    if let Ok(n) = res {
        assert!(n <= blen && n > 0);
        kani::cover!(true);
    }
    mem::forget(res);
}
