//! C15 — write-ordering / root-selection discipline of the file-backed linear storage
//! (`crates/aranya-runtime/src/storage/linear/libc/imp.rs`).
//!
//! `File::{write_all, sync, fallocate}` (thin wrappers over `pwrite` / `fdatasync` /
//! `fallocate`+`fsync`) are replaced by logging models — the assumed contract of the OS:
//! "a write puts these bytes at this offset; sync is a durability barrier". Everything
//! above them (`Writer::{commit, append_at, write_root, ensure_capacity}`, `File::dump*`,
//! `Root::*`) is the repository's code.
#![allow(clippy::all, static_mut_refs)]
use super::*;
use crate::{
    storage::{LocatedAddress, MaxCut, SegmentIndex},
    CmdId,
};

const W: u8 = 1; // write_all(offset, len)
const S: u8 = 2; // sync (fdatasync)
const FA: u8 = 3; // fallocate + fsync
const LOGN: usize = 12;
struct Disk {
    kind: [u8; LOGN],
    off: [i64; LOGN],
    len: [i64; LOGN],
    n: usize,
    /// bytes of the last write that started inside a root slot
    root_img: [u8; 64],
    root_len: usize,
    fail_at: usize,
}
static mut D: Disk = Disk { kind: [0; LOGN], off: [0; LOGN], len: [0; LOGN], n: 0, root_img: [0; 64], root_len: 0, fail_at: usize::MAX };
fn d() -> &'static mut Disk {
    unsafe { &mut *core::ptr::addr_of_mut!(D) }
}
fn ev(kind: u8, off: i64, len: i64) -> Result<(), StorageError> {
    let d = d();
    let i = d.n;
    if i < LOGN {
        d.kind[i] = kind;
        d.off[i] = off;
        d.len[i] = len;
    }
    d.n += 1;
    // the i-th OS operation may fail (torn / failed write, failed sync)
    if i == d.fail_at { Err(StorageError::IoError) } else { Ok(()) }
}
fn stub_write_all(_f: &File, offset: i64, buf: &[u8]) -> Result<(), StorageError> {
    if (offset == ROOT_A + LEN_PREFIX_LEN || offset == ROOT_B + LEN_PREFIX_LEN) && buf.len() <= 64 {
        let d = d();
        let mut i = 0;
        while i < buf.len() {
            d.root_img[i] = buf[i];
            i += 1;
        }
        d.root_len = buf.len();
    }
    ev(W, offset, buf.len() as i64)
}
fn stub_sync(_f: &File) -> Result<(), StorageError> {
    ev(S, 0, 0)
}
fn stub_fallocate(_f: &File, offset: i64, len: i64) -> Result<(), StorageError> {
    ev(FA, offset, len)
}

fn mk_file() -> File {
    // SAFETY (harness only): OwnedFd is repr(transparent) over a raw fd; it is never used
    // (all OS calls are stubbed) and never dropped (the writer is forgotten).
    let fd: OwnedFd = unsafe { core::mem::transmute::<i32, OwnedFd>(7) };
    File { fd: Arc::new(fd) }
}

/// ⟦other_root⟧ is an involution on {ROOT_A, ROOT_B} and always yields a root slot.
#[kani::proof]
fn c15_other_root_involution() {
    assert!(other_root(ROOT_A) == ROOT_B && other_root(ROOT_B) == ROOT_A);
    let s: i64 = kani::any();
    assert!(other_root(s) == ROOT_A || other_root(s) == ROOT_B);
    assert!(other_root(s) != s);
    assert!(ROOT_A < ROOT_B && ROOT_B + PAGE <= FREE_START);
}

fn any_root() -> Root {
    Root {
        generation: kani::any(),
        heads: if kani::any() { Some(kani::any()) } else { None },
        fact_cache: if kani::any() { Some(kani::any()) } else { None },
        free_offset: kani::any(),
        checksum: kani::any(),
    }
}

/// ⟦Root::validate⟧ accepts exactly the roots whose checksum equals `calc_checksum()` and returns them unchanged.
#[kani::proof]
#[kani::unwind(12)]
fn c15_root_validate_contract() {
    let r = any_root();
    let want = r.checksum == r.calc_checksum();
    let (g, h, f, o, c) = (r.generation, r.heads, r.fact_cache, r.free_offset, r.checksum);
    match r.validate() {
        Ok(v) => {
            assert!(want);
            assert!(v.generation == g && v.heads == h && v.fact_cache == f && v.free_offset == o && v.checksum == c);
        }
        Err(_) => assert!(!want),
    }
}

/// ⟦Root::calc_checksum⟧ is a function of exactly (generation, heads, fact_cache, free_offset).
#[kani::proof]
#[kani::unwind(12)]
fn c15_root_checksum_inputs() {
    let r = any_root();
    let c1 = r.calc_checksum();
    let mut r2 = any_root();
    r2.generation = r.generation;
    r2.heads = r.heads;
    r2.fact_cache = r.fact_cache;
    r2.free_offset = r.free_offset;
    assert!(r2.calc_checksum() == c1);
}

fn one_head() -> HeadSet {
    let mut b = [0u8; 32];
    b[0] = 3;
    HeadSet::single(LocatedAddress { id: CmdId::from_bytes(b), segment: SegmentIndex::new(1), max_cut: MaxCut::new(2) })
}

/// ⟦Writer::commit⟧ write-ordering contract, any pre-state, any single failing OS operation:
///   data writes (all inside [old free_offset, new free_offset), none in a root slot)
///   · sync (iff data is dirty — it always is after the head-set append)
///   · root write into `next_root` (the slot NOT holding the last committed root)
///   · sync.
/// On success: generation + 1, root.heads = offset of the appended head set, free_offset advanced,
/// `next_root` flipped. If any OS operation fails, `next_root` is NOT flipped and no later
/// operation is issued (in particular no root write after a failed data sync).
fn commit_write_ordering<const FAIL: usize, const GROW: bool>() {
    let free0: i64 = kani::any();
    kani::assume(free0 >= FREE_START && free0 < FREE_START + 1_000_000);
    let gen0: u64 = kani::any();
    kani::assume(gen0 < u64::MAX);
    let slot0 = if kani::any() { ROOT_A } else { ROOT_B };
    let dirty0: bool = kani::any();
    let mut w = Writer {
        file: mk_file(),
        root: Root { generation: gen0, heads: Some(77), fact_cache: Some(78), free_offset: free0, checksum: 0 },
        // GROW: the head-set append crosses the preallocated region, so capacity must be grown first
        alloc_end: if GROW { free0 + 2 } else { FREE_START + PREALLOC_CHUNK },
        next_root: slot0,
        data_dirty: dirty0,
    };
    d().fail_at = FAIL;
    let fc: u64 = 4242;
    let heads = one_head();
    let r = w.commit(&heads, FactCacheOffset::new(fc));
    // with GROW the first OS operation is the fallocate(+fsync) of the new region
    let g = GROW as usize;
    if GROW && d().n > 0 {
        assert!(d().kind[0] == FA && d().len[0] >= free0 + 4);
    }
    let n = d().n - if d().n > 0 { g } else { 0 };
    assert!(n <= 6);
    let failed = FAIL < 6 + g;
    assert!(r.is_ok() == !failed);
    if failed {
        // no operation after the failing one; the root slot pointer is not flipped
        assert!(n + g == FAIL + 1);
        assert!(w.next_root == slot0);
    }
    // shape: W W S W W S — data (prefix, payload), barrier, root (prefix, payload), barrier
    let mut i = 0;
    while i < 6 {
        if i < n {
            let (k, off, len) = (d().kind[i + g], d().off[i + g], d().len[i + g]);
            match i {
                0 => assert!(k == W && off == free0 && len == 4),
                1 => assert!(k == W && off == free0 + 4 && len > 0),
                2 => assert!(k == S),
                3 => assert!(k == W && off == slot0 && len == 4),
                4 => assert!(k == W && off == slot0 + 4 && len > 0 && len <= 64),
                _ => assert!(k == S),
            }
        }
        i += 1;
    }
    if r.is_ok() {
        assert!(n == 6);
        let new_free = free0 + 4 + d().len[1 + g];
        assert!(w.root.free_offset == new_free && w.root.generation == gen0 + 1);
        assert!(w.root.heads == Some(free0 as u64) && w.root.fact_cache == Some(fc));
        assert!(w.next_root == other_root(slot0) && !w.data_dirty);
        assert!(w.root.checksum == w.root.calc_checksum());
        kani::cover!(slot0 == ROOT_B);
    }
    core::mem::forget(r);
    core::mem::forget(w);
    core::mem::forget(heads);
}
macro_rules! cwo {
    ($name:ident, $f:expr, $g:expr) => {
        #[kani::proof]
        #[kani::unwind(40)]
        #[kani::stub(File::write_all, stub_write_all)]
        #[kani::stub(File::sync, stub_sync)]
        #[kani::stub(File::fallocate, stub_fallocate)]
        fn $name() {
            commit_write_ordering::<$f, $g>();
        }
    };
}
cwo!(c15_commit_write_ordering_ok, 99, false);
cwo!(c15_commit_write_ordering_grow_ok, 99, true);
cwo!(c15_commit_write_ordering_fail_data_sync, 2, false);
cwo!(c15_commit_write_ordering_fail_root_write, 4, false);
cwo!(c15_commit_write_ordering_fail_root_sync, 5, false);

/// ⟦Writer::append_at⟧: the write frontier strictly increases by 4 + len, capacity is ensured for the
/// new end before the write (fallocate precedes the data writes), `data_dirty` is set; on failure the
/// frontier does not move.
#[kani::proof]
#[kani::unwind(40)]
#[kani::stub(File::write_all, stub_write_all)]
#[kani::stub(File::sync, stub_sync)]
#[kani::stub(File::fallocate, stub_fallocate)]
fn c15_append_at_frontier() {
    let free0: i64 = kani::any();
    kani::assume(free0 >= FREE_START && free0 < FREE_START + 1_000_000);
    let near_end: bool = kani::any();
    let mut w = Writer {
        file: mk_file(),
        root: Root { generation: 1, heads: None, fact_cache: None, free_offset: free0, checksum: 0 },
        alloc_end: if near_end { free0 + 2 } else { free0 + 4096 },
        next_root: ROOT_A,
        data_dirty: false,
    };
    d().fail_at = kani::any();
    let x: u32 = kani::any();
    let r = w.append_at(|off| (off, x));
    let n = d().n;
    match &r {
        Ok((item, off)) => {
            assert!(*off == free0 as u64 && item.0 == free0 as u64 && item.1 == x);
            assert!(w.root.free_offset > free0 && w.data_dirty);
            let wi = if near_end { 1 } else { 0 };
            assert!(n == wi + 2);
            if near_end {
                assert!(d().kind[0] == FA && d().len[0] >= w.root.free_offset && w.alloc_end == d().len[0]);
            }
            assert!(d().kind[wi] == W && d().off[wi] == free0 && d().len[wi] == 4);
            assert!(d().kind[wi + 1] == W && d().off[wi + 1] == free0 + 4);
            assert!(w.root.free_offset == free0 + 4 + d().len[wi + 1]);
            assert!(w.root.free_offset <= w.alloc_end);
            kani::cover!(near_end);
        }
        Err(_) => {
            assert!(w.root.free_offset == free0);
        }
    }
    core::mem::forget(r);
    core::mem::forget(w);
}
