//! KI contracts on `crates/aranya-runtime/src/sync/requester.rs` (C18, C17).
#![allow(clippy::all)]
use core::mem;

use super::*;
use crate::{command::Priority, sync::wire::CommandMeta, CmdId, MaxCut, Prior};

fn meta(i: u8) -> CommandMeta {
    let mut b = [0u8; 32];
    b[0] = i;
    CommandMeta {
        id: CmdId::from_bytes(b),
        priority: Priority::Basic(0),
        parent: Prior::None,
        // both lengths are attacker-controlled and range over all of u32
        policy_length: kani::any(),
        length: kani::any(),
    }
}

fn any_state() -> SyncRequesterState {
    match kani::any::<u8>() % 8 {
        0 => SyncRequesterState::New,
        1 => SyncRequesterState::Start,
        2 => SyncRequesterState::Waiting,
        3 => SyncRequesterState::Idle,
        4 => SyncRequesterState::Closed,
        5 => SyncRequesterState::Resync,
        6 => SyncRequesterState::PartialSync,
        _ => SyncRequesterState::Reset,
    }
}

/// ⟦SyncRequester::get_sync_commands⟧ on a SyncResponse with NCMD command metas whose
/// lengths are arbitrary u32s and a payload of arbitrary length ≤ 12 with arbitrary bytes:
/// * never panics (overflow / bounds / unwrap obligations of the real body);
/// * session id mismatch ⇒ `SessionMismatch`, requester state untouched;
/// * commands are accepted only in state Start/Waiting and only for the expected
///   response index, which is then incremented by exactly one;
/// * every returned policy / data slice lies inside the received bytes; slices are
///   consecutive, in order, with exactly the lengths the metas claim.
fn get_sync_commands_contract<const NCMD: usize>() {
    let sid: u128 = kani::any();
    let mut rq = SyncRequester {
        session_id: sid,
        graph_id: GraphId::default(),
        state: any_state(),
        max_bytes: 0,
        next_message_index: kani::any(),
    };
    // u64::MAX responses cannot have been received: the increment's Bug arm is excluded by construction
    kani::assume(rq.next_message_index < u64::MAX);
    let old_idx = rq.next_message_index;
    let old_state = rq.state.clone();
    let mut commands: Vec<CommandMeta, COMMAND_RESPONSE_MAX> = Vec::new();
    let mut lens = [(0u32, 0u32); NCMD];
    let mut i = 0;
    while i < NCMD {
        let m = meta(i as u8);
        lens[i] = (m.policy_length, m.length);
        let _ = commands.push(m);
        i += 1;
    }
    let msg_sid: u128 = kani::any();
    let response_index: u64 = kani::any();
    let message = SyncResponseMessage::SyncResponse { session_id: msg_sid, response_index, commands };
    let buf: [u8; 12] = kani::any();
    let rlen: usize = kani::any();
    kani::assume(rlen <= 12);
    let remaining = &buf[..rlen];
    let r = rq.get_sync_commands(message, remaining);
    if msg_sid != sid {
        assert!(matches!(r, Err(SyncError::SessionMismatch)));
        assert!(rq.state == old_state && rq.next_message_index == old_idx);
    } else if !matches!(old_state, SyncRequesterState::Start | SyncRequesterState::Waiting) {
        assert!(matches!(r, Err(SyncError::SessionState)));
        assert!(rq.state == old_state && rq.next_message_index == old_idx);
    } else if response_index != old_idx {
        assert!(matches!(r, Err(SyncError::MissingSyncResponse)));
        assert!(rq.state == SyncRequesterState::Resync && rq.next_message_index == old_idx);
    } else {
        assert!(rq.next_message_index == old_idx + 1);
        match &r {
            Ok(Some(cmds)) => {
                assert!(cmds.len() == NCMD);
                let base = remaining.as_ptr() as usize;
                let mut off = 0usize;
                let mut k = 0;
                while k < NCMD {
                    let c = &cmds[k];
                    match c.policy {
                        Some(p) => {
                            assert!(lens[k].0 != 0 && p.len() == lens[k].0 as usize);
                            assert!(p.as_ptr() as usize == base + off);
                            off += p.len();
                        }
                        None => assert!(lens[k].0 == 0),
                    }
                    assert!(c.data.as_ptr() as usize == base + off && c.data.len() == lens[k].1 as usize);
                    off += c.data.len();
                    k += 1;
                }
                assert!(off <= rlen);
                if NCMD > 0 {
                    kani::cover!(off > 0);
                }
            }
            Ok(None) => panic!("SyncResponse yields commands"),
            Err(e) => {
                // the only way to fail now is a length that does not fit the received bytes
                assert!(matches!(e, SyncError::MalformedResponse));
                let mut total: u128 = 0;
                let mut k = 0;
                while k < NCMD {
                    total += lens[k].0 as u128 + lens[k].1 as u128;
                    k += 1;
                }
                assert!(total > rlen as u128);
            }
        }
    }
    mem::forget(r);
}

#[kani::proof]
#[kani::unwind(5)]
fn c18_get_sync_commands_n0() {
    get_sync_commands_contract::<0>();
}
#[kani::proof]
#[kani::unwind(5)]
fn c18_get_sync_commands_n1() {
    get_sync_commands_contract::<1>();
}
#[kani::proof]
#[kani::unwind(5)]
fn c18_get_sync_commands_n2() {
    get_sync_commands_contract::<2>();
}
#[kani::proof]
#[kani::unwind(6)]
fn c18_get_sync_commands_n3() {
    get_sync_commands_contract::<3>();
}

/// SyncEnd handling: accepted only in Start/Waiting with max_index = next expected index.
#[kani::proof]
#[kani::unwind(5)]
fn c17_sync_end_contract() {
    let sid: u128 = kani::any();
    let mut rq = SyncRequester {
        session_id: sid,
        graph_id: GraphId::default(),
        state: any_state(),
        max_bytes: 0,
        next_message_index: kani::any(),
    };
    let old_idx = rq.next_message_index;
    let old_state = rq.state.clone();
    let max_index: u64 = kani::any();
    let message = SyncResponseMessage::SyncEnd { session_id: sid, max_index, remaining: kani::any() };
    let r = rq.get_sync_commands(message, &[]);
    assert!(rq.next_message_index == old_idx);
    if !matches!(old_state, SyncRequesterState::Start | SyncRequesterState::Waiting) {
        assert!(matches!(r, Err(SyncError::SessionState)) && rq.state == old_state);
    } else if max_index != old_idx {
        assert!(matches!(r, Err(SyncError::MissingSyncResponse)) && rq.state == SyncRequesterState::Resync);
    } else {
        assert!(matches!(r, Ok(None)) && rq.state == SyncRequesterState::PartialSync);
    }
    mem::forget(r);
}
