//! KI contracts on `strand_heap` in `crates/aranya-runtime/src/client/braiding.rs` (C01.2 / C03 / C05):
//! the concrete meaning of the strand order that the Verus unit `c05_strand_heap` treats abstractly.
#![allow(clippy::all)]
use super::*;
use crate::verif_mocks::*;

fn any_prio() -> Priority {
    match kani::any::<u8>() % 4 {
        0 => Priority::Merge,
        1 => Priority::Basic(kani::any()),
        2 => Priority::Finalize,
        _ => Priority::Init,
    }
}
fn rank(p: &Priority) -> u64 {
    match p {
        Priority::Merge => 0,
        Priority::Basic(n) => 1 + *n as u64,
        Priority::Finalize => 1 + (1u64 << 32),
        Priority::Init => 2 + (1u64 << 32),
    }
}
fn any_id2() -> ([u8; 32], CmdId) {
    let mut b = [0u8; 32];
    b[0] = kani::any();
    b[31] = kani::any();
    (b, CmdId::from_bytes(b))
}

/// ⟦Strand::cmp⟧ = REVERSED lexicographic order on (priority rank, id bytes): the max-heap pops the
/// smallest (priority, id) first, so Finalize sorts after every Merge/Basic strand; `eq ⇔ cmp = Equal`.
/// The tie-break is the command id. Ids vary in their first and last byte.
#[kani::proof]
#[kani::unwind(34)]
fn c03_strand_order_is_reversed_priority_then_id() {
    let (ab, aid) = any_id2();
    let (bb, bid) = any_id2();
    let (pa, pb) = (any_prio(), any_prio());
    let a = Strand::<u8> { key: (pa.clone(), aid), next: loc(0, 0), segment: 0 };
    let b = Strand::<u8> { key: (pb.clone(), bid), next: loc(1, 1), segment: 1 };
    let want = (rank(&pa), ab).cmp(&(rank(&pb), bb)).reverse();
    assert!(a.cmp(&b) == want);
    assert!(a.partial_cmp(&b) == Some(want));
    assert!((a == b) == (want == core::cmp::Ordering::Equal));
    // a finalize strand is never popped before a concurrent basic/merge strand
    if matches!(pa, Priority::Finalize) && matches!(pb, Priority::Basic(_) | Priority::Merge) {
        assert!(a < b);
    }
}
