//! KI contracts on `crates/aranya-runtime/src/vm_policy/io.rs` (C29: key encoding only).
#![allow(clippy::all)]
use aranya_policy_vm::ident;

use super::*;

fn key_int(x: i64) -> FactKey {
    FactKey { identifier: ident!("k"), value: HashableValue::Int(x) }
}

/// ⟦ser_key⟧ on Int values: same length, lexicographic byte order = numeric order,
/// equal iff equal, and `deser_key ∘ ser_key = id` — for all pairs of i64.
#[kani::proof]
#[kani::unwind(40)]
fn c29_ser_key_int_order_and_roundtrip() {
    let a: i64 = kani::any();
    let b: i64 = kani::any();
    let ka = ser_key(&key_int(a));
    let kb = ser_key(&key_int(b));
    assert!(ka.len() == kb.len());
    assert!((a < b) == (ka[..] < kb[..]));
    assert!((a == b) == (ka[..] == kb[..]));
    let back = deser_key(&ka);
    assert!(matches!(&back, Ok(FactKey { value: HashableValue::Int(x), identifier }) if *x == a && identifier.as_str() == "k"));
    core::mem::forget(back);
    core::mem::forget(ka);
    core::mem::forget(kb);
}

/// Bool keys: false < true, round trip (all four pairs, concretely).
#[kani::proof]
#[kani::unwind(40)]
fn c29_ser_key_bool_order_and_roundtrip() {
    for a in [false, true] {
        for b in [false, true] {
            let ka = ser_key(&FactKey { identifier: ident!("k"), value: HashableValue::Bool(a) });
            let kb = ser_key(&FactKey { identifier: ident!("k"), value: HashableValue::Bool(b) });
            assert!((a < b) == (ka[..] < kb[..]) && (a == b) == (ka[..] == kb[..]));
            let back = deser_key(&ka);
            assert!(matches!(&back, Ok(FactKey { value: HashableValue::Bool(x), .. }) if *x == a));
            core::mem::forget(back);
            core::mem::forget(ka);
            core::mem::forget(kb);
        }
    }
}
