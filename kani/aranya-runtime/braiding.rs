//! KI contracts on `crates/aranya-runtime/src/client/braiding.rs` (C02: braid result / iterator).
#![allow(clippy::all)]
use super::*;
use crate::verif_mocks::*;
