//! KI contracts on `crates/aranya-runtime/src/client/braiding.rs` (C02: braid result / iterator).
#![allow(clippy::all)]
use super::*;
use crate::verif_mocks::*;
use crate::{storage::Spill, Location, MaxCut, SegmentIndex, StorageError};

/// Array-backed `Spill` satisfying the trait contract "read_at returns what write_at stored".
struct ArrSpill<const N: usize> {
    data: [u8; N],
}
impl<const N: usize> Spill for ArrSpill<N> {
    fn write_at(&mut self, offset: usize, d: &[u8]) -> Result<(), StorageError> {
        if offset + d.len() > N {
            return Err(StorageError::IoError);
        }
        self.data[offset..offset + d.len()].copy_from_slice(d);
        Ok(())
    }
    fn read_at(&mut self, offset: usize, d: &mut [u8]) -> Result<(), StorageError> {
        if offset + d.len() > N {
            return Err(StorageError::IoError);
        }
        d.copy_from_slice(&self.data[offset..offset + d.len()]);
        Ok(())
    }
}

fn sym_loc() -> Location {
    Location::new(SegmentIndex::new(kani::any()), MaxCut::new(kani::any()))
}

/// ⟦BraidResult::push / flush_to_disk / iter⟧ + ⟦BraidIter::next / load_prev_block⟧:
/// iterating yields exactly the pushed locations in reverse push order — in-memory
/// entries first (newest), then the spilled block — each exactly once, then `None`.
/// 3 entries spilled through the real `flush_to_disk`, 2 in memory, contents symbolic.
#[kani::proof]
#[kani::unwind(8)]
fn c02_braid_iter_mem2_disk3() {
    let mut r: BraidResult<ArrSpill<96>> = BraidResult::new(ArrSpill { data: [0; 96] });
    let d = [sym_loc(), sym_loc(), sym_loc()];
    assert!(r.push(d[0]).is_ok() && r.push(d[1]).is_ok() && r.push(d[2]).is_ok());
    assert!(r.flush_to_disk().is_ok());
    assert!(r.spill_len == 3 && r.mem.is_empty());
    let m = [sym_loc(), sym_loc()];
    assert!(r.push(m[0]).is_ok());
    assert!(r.push(m[1]).is_ok());
    let mut it = match r.iter() {
        Ok(it) => it,
        Err(_) => panic!("iter failed"),
    };
    let expect = [m[1], m[0], d[2], d[1], d[0]];
    let mut k = 0;
    while k < 5 {
        match it.next() {
            Some(Ok(l)) => assert!(l == expect[k]),
            _ => panic!("missing entry"),
        }
        k += 1;
    }
    assert!(it.next().is_none());
    assert!(it.next().is_none());
}

/// A failing spill read surfaces as `Some(Err(_))` once and then the iterator is fused
/// (never a panic, never a bogus location).
#[kani::proof]
#[kani::unwind(8)]
fn c02_braid_iter_read_error_fuses() {
    // spill backing store too small for the read-back offset => read_at fails
    let mut r: BraidResult<ArrSpill<16>> = BraidResult::new(ArrSpill { data: [0; 16] });
    r.spill_len = 2; // pretend two entries were spilled: the 32-byte read cannot be served
    let m = sym_loc();
    assert!(r.push(m).is_ok());
    let mut it = match r.iter() {
        Ok(it) => it,
        Err(_) => panic!("iter failed"),
    };
    assert!(matches!(it.next(), Some(Ok(l)) if l == m));
    assert!(matches!(it.next(), Some(Err(_))));
    assert!(it.next().is_none());
}

/// 258 pushes through the REAL auto-spill path (BRAID_BLOCK_ENTRIES = 256 untouched),
/// replayed in exact reverse order. Thorough tier.
#[kani::proof]
#[kani::unwind(262)]
fn c02_braid_iter_auto_spill_258() {
    const N: usize = BRAID_BLOCK_ENTRIES + 2;
    let mut r: BraidResult<ArrSpill<8192>> = BraidResult::new(ArrSpill { data: [0; 8192] });
    let locs: [Location; N] = core::array::from_fn(|_| sym_loc());
    let mut i = 0;
    while i < N {
        assert!(r.push(locs[i]).is_ok());
        i += 1;
    }
    assert!(r.spill_len == BRAID_BLOCK_ENTRIES && r.mem.len() == 2);
    let mut it = match r.iter() {
        Ok(it) => it,
        Err(_) => panic!("iter failed"),
    };
    let mut k = 0;
    while k < N {
        match it.next() {
            Some(Ok(l)) => assert!(l == locs[N - 1 - k]),
            _ => panic!("missing entry"),
        }
        k += 1;
    }
    assert!(it.next().is_none());
}


// ------------------------------------------------------------------ C04: N-way LCA ---
/// ⟦last_common_ancestor⟧ on a trunk with two lone tips hanging off it at symbolic heights, the
/// three heads given in any order: the result is a command of the graph that is an
/// ancestor-or-self of EVERY head (the braid drops everything at or below it as shared history,
/// so a result that is not a common ancestor loses commands).
#[kani::proof]
#[kani::unwind(12)]
fn c04_lca_three_heads_common_ancestor() {
    use crate::verif_mocks::GStorage;
    let lx: u64 = kani::any();
    let f1: u64 = kani::any();
    let f2: u64 = kani::any();
    kani::assume(lx >= 2 && lx <= 6 && f1 >= 1 && f1 <= lx && f2 >= 1 && f2 <= lx);
    let mut g = GStorage::shape2(lx, f1, 1, f2, 1);
    let l = |s: u64, m: u64| Location::new(crate::SegmentIndex::new(s), crate::MaxCut::new(m));
    let hs = [l(1, lx), l(2, f1 + 1), l(3, f2 + 1)];
    let p: u8 = kani::any();
    kani::assume(p < 6);
    let perm: [[usize; 3]; 6] = [[0, 1, 2], [0, 2, 1], [1, 0, 2], [1, 2, 0], [2, 0, 1], [2, 1, 0]];
    let heads = [hs[perm[p as usize][0]], hs[perm[p as usize][1]], hs[perm[p as usize][2]]];
    match last_common_ancestor(&mut g, &heads) {
        Ok(r) => {
            assert!(g.valid(r));
            let mut k = 0;
            while k < 3 {
                assert!(r == hs[k] || g.proper_ancestor(r, hs[k]));
                k += 1;
            }
            kani::cover!(f1 < f2 && p == 0);
        }
        Err(_) => panic!("lca failed on a well-formed graph"),
    }
}
