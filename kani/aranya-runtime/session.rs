//! KI/KT contracts on `crates/aranya-runtime/src/client/session.rs` (C14, C13).
#![allow(clippy::all)]
extern crate alloc;
use alloc::{string::String, vec};
use core::mem;

use super::*;
use crate::{verif_mocks::*, ClientState};

type Sess = Session<MSP, MPS>;

fn mk_session(base: u8) -> Sess {
    Session {
        graph_id: GraphId::default(),
        policy_id: PolicyId::new(0),
        base_facts: MFI(base),
        fact_log: Vec::new(),
        current_facts: Arc::default(),
        _policy_store: PhantomData,
    }
}
fn keys1(k: u8) -> Keys {
    Keys::from_iter([[k]])
}
fn val(v: u8) -> Bytes {
    Bytes::from([v])
}
struct MsgSink;
impl<'b> Sink<&'b [u8]> for MsgSink {
    fn begin(&mut self) {}
    fn consume(&mut self, _: &'b [u8]) {
        log(CONSUME, 1);
    }
    fn rollback(&mut self) {
        log(ROLLBACK, 1);
    }
    fn commit(&mut self) {
        log(COMMIT, 1);
    }
}

/// Overlay semantics of a session on ONE key that also exists in the committed facts
/// (`base` finds the value [9]) or not: after any sequence of ≤ 2 session writes/deletes on
/// that key, an exact query returns what a map built from "committed facts, then the
/// session's writes in order" returns — in particular a fact deleted by the session is
/// not visible even if the session wrote it before, and reverting to the checkpoint
/// taken before the writes restores the committed view.
fn overlay_contract(base: u8) {
    let mut s = mk_session(base);
    let mut ms = MsgSink;
    let mut p = SessionPerspective { session: &mut s, message_sink: &mut ms };
    let committed: Option<u8> = if base == 200 { Some(9) } else { None };
    let cp = p.checkpoint();
    let mut model = committed;
    let op1: u8 = kani::any();
    let op2: u8 = kani::any();
    kani::assume(op1 < 3 && op2 < 3);
    for op in [op1, op2] {
        match op {
            0 => {
                assert!(p.insert(String::from("f"), keys1(1), val(50)).is_ok());
                model = Some(50);
            }
            1 => {
                assert!(p.delete(String::from("f"), keys1(1)).is_ok());
                model = None;
            }
            _ => {}
        }
        let q = p.query("f", &[val(1)]);
        match q {
            Ok(got) => assert!(got.as_deref().map(|b| b[0]) == model),
            Err(_) => panic!("query failed"),
        }
    }
    kani::cover!(op1 == 0 && op2 == 1);
    // revert restores exactly the view at the checkpoint
    assert!(p.revert(cp).is_ok());
    match p.query("f", &[val(1)]) {
        Ok(got) => assert!(got.as_deref().map(|b| b[0]) == committed),
        Err(_) => panic!("query failed"),
    }
    assert!(p.session.fact_log.is_empty());
    mem::forget(s);
}
#[kani::proof]
#[kani::unwind(8)]
fn c14_overlay_on_committed_key() {
    overlay_contract(200);
}
#[kani::proof]
#[kani::unwind(8)]
fn c14_overlay_on_fresh_key() {
    overlay_contract(201);
}

/// ⟦Session::action⟧ / ⟦Session::receive⟧ traces: `Err` ⇒ the session is reverted to the
/// checkpoint, the message sink and the effect sink are rolled back and nothing is committed;
/// `Ok` ⇒ the effect sink is committed once. No storage mutator is ever called (the client is
/// borrowed immutably: enforced by the type, observed in the log).
#[kani::proof]
#[kani::unwind(34)]
fn c14_session_action_trace() {
    let ok: bool = kani::any();
    let client = ClientState::new(MPS::new(true, ok), MSP::any());
    let mut s = mk_session(201);
    let mut es = MSink;
    let mut ms = MsgSink;
    let r = s.action(&client, &mut es, &mut ms, ());
    assert!(storage_mutations() == 0);
    assert!(kind_at(0) == BEGIN && kind_at(1) == CALL_ACTION && arg_at(1) == 0); // OffGraph
    if ok {
        assert!(r.is_ok() && n() == 3 && kind_at(2) == COMMIT && arg_at(2) == 0);
    } else {
        assert!(r.is_err() && n() == 4);
        assert!(kind_at(2) == ROLLBACK && arg_at(2) == 1); // message sink
        assert!(kind_at(3) == ROLLBACK && arg_at(3) == 0); // effect sink
        assert!(count(COMMIT) == 0);
    }
    assert!(s.fact_log.is_empty());
    mem::forget(r);
    mem::forget(client);
    mem::forget(s);
}

/// The exact sequence "write a committed key, then delete it" (concrete operations, symbolic
/// nothing): the deleted fact must not be visible. Cheapest possible instance of the overlay contract.
#[kani::proof]
#[kani::unwind(8)]
fn c14_overlay_write_then_delete() {
    let mut s = mk_session(200);
    let mut ms = MsgSink;
    let mut p = SessionPerspective { session: &mut s, message_sink: &mut ms };
    assert!(p.insert(String::from("f"), keys1(1), val(50)).is_ok());
    assert!(p.delete(String::from("f"), keys1(1)).is_ok());
    match p.query("f", &[val(1)]) {
        Ok(got) => assert!(got.is_none()),
        Err(_) => panic!("query failed"),
    }
    mem::forget(s);
}
