//! KI harnesses on `crates/aranya-runtime/src/storage/head_set.rs` (C09, C01.1).
//! Companion of the unbounded Verus unit `c09_head_set`: the same contract on the
//! compiled real code for a head set of concrete length, and the concrete meaning
//! of the derived order that the Verus unit treats abstractly.
extern crate alloc;
use alloc::vec::Vec;

use super::*;
use crate::{
    storage::{MaxCut, SegmentIndex},
    CmdId,
};

fn any_la() -> LocatedAddress {
    // ids vary in their first and last byte (enough to exercise prefix-equal ids)
    let mut b = [0u8; 32];
    b[0] = kani::any();
    b[31] = kani::any();
    LocatedAddress {
        id: CmdId::from_bytes(b),
        segment: SegmentIndex::new(kani::any::<u8>() as u64),
        max_cut: MaxCut::new(kani::any::<u8>() as u64),
    }
}
fn strictly_sorted(h: &HeadSet) -> bool {
    let mut i = 1;
    while i < h.heads.len() {
        if !(h.heads[i - 1] < h.heads[i]) {
            return false;
        }
        i += 1;
    }
    true
}
fn contains(h: &HeadSet, x: LocatedAddress) -> bool {
    let mut i = 0;
    while i < h.heads.len() {
        if h.heads[i] == x {
            return true;
        }
        i += 1;
    }
    false
}
fn check<const LEN: usize>() {
    let arr: [LocatedAddress; LEN] = core::array::from_fn(|_| any_la());
    let mut heads = Vec::with_capacity(LEN + 1);
    heads.extend_from_slice(&arr);
    let mut h = HeadSet { heads };
    kani::assume(strictly_sorted(&h));
    let x = any_la();
    let y = any_la();
    let had_x = contains(&h, x);
    let had_y = contains(&h, y);
    h.push(x);
    assert!(strictly_sorted(&h));
    assert!(contains(&h, x));
    assert!(h.heads.len() == LEN + if had_x { 0 } else { 1 });
    if y != x {
        assert!(contains(&h, y) == had_y);
    }
    kani::cover!(had_x);
    kani::cover!(!had_x);
    core::mem::forget(h);
}

#[kani::proof]
#[kani::unwind(40)]
fn c09_headset_push_len1() {
    check::<1>();
}
#[kani::proof]
#[kani::unwind(40)]
fn c09_headset_push_len2() {
    check::<2>();
}
#[kani::proof]
#[kani::unwind(40)]
fn c09_headset_push_len3() {
    check::<3>();
}

/// derive(Ord) on the real LocatedAddress is lexicographic (id bytes, segment,
/// max_cut): in particular the head set is ordered by command id first — the
/// order every replica shares.
#[kani::proof]
#[kani::unwind(40)]
fn c09_located_address_order() {
    let a = any_la();
    let b = any_la();
    let ka = (*a.id.as_array(), a.segment.get(), a.max_cut.get());
    let kb = (*b.id.as_array(), b.segment.get(), b.max_cut.get());
    assert!(a.cmp(&b) == ka.cmp(&kb));
    assert!((a == b) == (ka == kb));
    if a.id != b.id {
        assert!((a < b) == (a.id < b.id));
    }
}

/// `single` / `default` establish the invariant.
#[kani::proof]
#[kani::unwind(40)]
fn c09_headset_single_default() {
    let x = any_la();
    let s = HeadSet::single(x);
    assert!(s.len() == 1 && strictly_sorted(&s) && contains(&s, x));
    let d = HeadSet::default();
    assert!(d.len() == 0 && d.is_empty() && strictly_sorted(&d));
    core::mem::forget(s);
}
