//! KT contracts on `crates/aranya-runtime/src/storage/linear/mod.rs` with a havoc `Write` backend
//! (C19 / C08 / C09: the head set served by `get_heads` is the COMMITTED head set).
#![allow(clippy::all, static_mut_refs)]
use super::*;
use crate::{storage::{LocatedAddress, MaxCut, SegmentIndex}, CmdId};

struct G {
    commits: u8,
    last_fc: u64,
    last_len: usize,
}
static mut GW: G = G { commits: 0, last_fc: 0, last_len: 0 };

#[derive(Clone)]
struct MR;
impl io::Read for MR {
    fn fetch<T>(&self, _: u64) -> Result<T, StorageError>
    where
        T: serde::de::DeserializeOwned,
    {
        Err(StorageError::IoError)
    }
}
struct MW {
    commit_fails: bool,
}
impl io::Write for MW {
    type ReadOnly = MR;
    fn readonly(&self) -> MR {
        MR
    }
    fn heads(&self) -> Result<HeadSet, StorageError> {
        Err(StorageError::NotInitialized)
    }
    fn heads_offset(&self) -> Result<HeadSetOffset, StorageError> {
        Ok(HeadSetOffset::new(0))
    }
    fn fact_cache(&self) -> Result<io::FactCacheOffset, StorageError> {
        Err(StorageError::NotInitialized)
    }
    fn append<F, T>(&mut self, _: F) -> Result<T, StorageError>
    where
        F: FnOnce(u64) -> T,
        T: serde::Serialize,
    {
        Err(StorageError::IoError)
    }
    fn commit(&mut self, heads: &HeadSet, fact_cache: io::FactCacheOffset) -> Result<(), StorageError> {
        unsafe {
            GW.commits += 1;
            GW.last_fc = fact_cache.get();
            GW.last_len = heads.len();
        }
        if self.commit_fails { Err(StorageError::IoError) } else { Ok(()) }
    }
}

fn la(id: u8, seg: u64, mc: u64) -> LocatedAddress {
    let mut b = [0u8; 32];
    b[0] = id;
    LocatedAddress { id: CmdId::from_bytes(b), segment: SegmentIndex::new(seg), max_cut: MaxCut::new(mc) }
}

/// ⟦LinearStorage::commit_heads⟧ for any backend outcome: the backend's `commit` is called exactly
/// once with the new head set and the fact-cache offset; if it FAILS, `get_heads` still serves the
/// previously committed head set (nothing uncommitted is ever advertised or used to answer hellos);
/// if it succeeds, `get_heads` serves the new one.
#[kani::proof]
#[kani::unwind(36)]
fn c19_commit_heads_cache_follows_backend() {
    let fails: bool = kani::any();
    let old = HeadSet::single(la(1, 1, 5));
    let mut st = LinearStorage { writer: MW { commit_fails: fails }, cached_heads: old.clone() };
    let new = HeadSet::single(la(2, 2, kani::any::<u8>() as u64));
    let fc_off: u64 = kani::any();
    let fc = LinearFactIndex {
        repr: FactIndexRepr { offset: fc_off, prior: None, depth: 1, facts: BTreeMap::new() },
        reader: MR,
    };
    let r = st.commit_heads(new.clone(), fc);
    unsafe {
        assert!(GW.commits == 1 && GW.last_fc == fc_off && GW.last_len == 1);
    }
    assert!(r.is_ok() == !fails);
    match st.get_heads() {
        Ok(h) => {
            if fails {
                assert!(*h == old);
            } else {
                assert!(*h == new);
            }
        }
        Err(_) => panic!("get_heads failed"),
    }
    core::mem::forget(r);
    core::mem::forget(st);
}
