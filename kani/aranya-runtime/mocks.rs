//! KT — havoc implementations of the runtime's storage / policy / sink traits
//! with a ghost event log. Loaded from the crate root by the hook line in
//! `crates/aranya-runtime/src/lib.rs` as `crate::verif_mocks`.
//!
//! Every method returns a value chosen by the harness (fields) or by
//! `kani::any()`, subject only to the trait's stated contract, and appends an
//! event to the ghost log. The real generic functions under contract
//! (`Transaction::*`, `ClientState::*`, `Session::*`, `PeerCache::*`, …) are
//! instantiated with these types; their bodies are the code that runs.
//!
//! Rules learnt from the design probes: ALL ghost state is in ONE `static mut`
//! struct; identities (command ids) are concrete and distinct, outcomes are
//! symbolic; flags are fields of the mocks.
#![allow(dead_code, static_mut_refs, clippy::all)]
extern crate alloc;
use alloc::string::String;

use crate::{
    policy::{ActionPlacement, CommandPlacement},
    storage::{HeadSet, HeadSetOffset, Spill, TraversalBuffer},
    Address, Bytes, Checkpoint, CmdId, Command, Fact, FactIndex, FactPerspective, GraphId, Keys,
    Location, MaxCut, MergeIds, Perspective, Policy, PolicyError, PolicyId, PolicyStore, Prior,
    Priority, Query, QueryMut, Revertable, Segment, SegmentIndex, Sink, Storage, StorageError,
    StorageProvider,
};

// ---------------------------------------------------------------- ghost log
pub const BEGIN: u8 = 1;
pub const COMMIT: u8 = 2;
pub const ROLLBACK: u8 = 3;
pub const CHECKPOINT: u8 = 4;
pub const REVERT: u8 = 5;
pub const ADD_COMMAND: u8 = 6;
pub const CALL_RULE_ORIGIN: u8 = 7;
pub const CALL_ACTION: u8 = 8;
pub const WRITE: u8 = 9;
pub const COMMIT_HEADS: u8 = 10;
pub const NEW_STORAGE: u8 = 11;
pub const ADD_POLICY: u8 = 12;
pub const GET_LOCATION: u8 = 13;
pub const GET_LOCATION_FROM: u8 = 14;
pub const BRAID: u8 = 15;
pub const COLLAPSE: u8 = 16;
pub const GET_LINEAR_PERSP: u8 = 17;
pub const MERGE: u8 = 18;
pub const WRITE_FACTS: u8 = 19;
pub const NEW_MERGE_PERSP: u8 = 20;
pub const CONSUME: u8 = 21;
pub const CALL_RULE_BRAID: u8 = 22;
pub const CALL_RULE_OFFGRAPH: u8 = 23;
pub const HEADS_OFFSET: u8 = 24;
pub const GET_HEADS: u8 = 25;
pub const GET_FACT_PERSP: u8 = 26;
pub const GET_SEGMENT: u8 = 27;
pub const IS_ANCESTOR: u8 = 28;

pub const LOGN: usize = 24;
pub struct Ghost {
    pub kind: [u8; LOGN],
    pub arg: [u8; LOGN],
    pub n: usize,
    pub next_id: u8,
}
pub static mut G: Ghost = Ghost { kind: [0; LOGN], arg: [0; LOGN], n: 0, next_id: 1 };

fn g() -> &'static mut Ghost {
    unsafe { &mut *core::ptr::addr_of_mut!(G) }
}
pub fn log(kind: u8, arg: u8) {
    let g = g();
    if g.n < LOGN {
        g.kind[g.n] = kind;
        g.arg[g.n] = arg;
    }
    g.n += 1;
}
pub fn n() -> usize {
    g().n
}
pub fn kind_at(i: usize) -> u8 {
    if i < LOGN && i < g().n { g().kind[i] } else { 0 }
}
pub fn arg_at(i: usize) -> u8 {
    if i < LOGN && i < g().n { g().arg[i] } else { 0 }
}
pub fn count(kind: u8) -> usize {
    let mut c = 0;
    let mut i = 0;
    while i < LOGN {
        if i < g().n && g().kind[i] == kind {
            c += 1;
        }
        i += 1;
    }
    c
}
/// index of the first event of `kind`, or LOGN
pub fn first(kind: u8) -> usize {
    let mut i = 0;
    while i < LOGN {
        if i < g().n && g().kind[i] == kind {
            return i;
        }
        i += 1;
    }
    LOGN
}
/// index of the last event of `kind`, or LOGN
pub fn last(kind: u8) -> usize {
    let mut r = LOGN;
    let mut i = 0;
    while i < LOGN {
        if i < g().n && g().kind[i] == kind {
            r = i;
        }
        i += 1;
    }
    r
}
/// true iff the log is exactly `want` (kinds only)
pub fn trace_is(want: &[u8]) -> bool {
    if g().n != want.len() {
        return false;
    }
    let mut i = 0;
    while i < want.len() {
        if kind_at(i) != want[i] {
            return false;
        }
        i += 1;
    }
    true
}
/// number of events that mutate committed storage state
pub fn storage_mutations() -> usize {
    count(WRITE) + count(COMMIT_HEADS) + count(NEW_STORAGE) + count(WRITE_FACTS)
}

/// Canary: the ghost log stores and returns what was written (guards against
/// the static-aliasing tool defect seen in the design probes).
#[kani::proof]
fn kt_canary_ghost_log() {
    let a: u8 = kani::any();
    log(BEGIN, a);
    log(COMMIT_HEADS, 3);
    assert!(n() == 2 && kind_at(0) == BEGIN && arg_at(0) == a && kind_at(1) == COMMIT_HEADS && arg_at(1) == 3);
    assert!(count(BEGIN) == 1 && first(COMMIT_HEADS) == 1 && last(BEGIN) == 0 && first(ROLLBACK) == LOGN);
    assert!(trace_is(&[BEGIN, COMMIT_HEADS]));
}

// ------------------------------------------------------------ value helpers
pub fn id_of(b: u8) -> CmdId {
    let mut x = [0u8; 32];
    x[0] = b;
    CmdId::from_bytes(x)
}
pub fn fresh_id() -> CmdId {
    let g = g();
    let b = g.next_id;
    g.next_id += 1;
    id_of(b)
}
pub fn id_byte(id: CmdId) -> u8 {
    id.as_bytes()[0]
}
pub fn any_serr() -> StorageError {
    if kani::any() { StorageError::IoError } else { StorageError::NoSuchStorage }
}
pub fn any_perr() -> PolicyError {
    match kani::any::<u8>() % 3 {
        0 => PolicyError::Rejected,
        1 => PolicyError::Panic,
        _ => PolicyError::InternalError,
    }
}
/// an arbitrary strict partial order on 4 points (irreflexive, asymmetric, transitive)
pub fn any_strict_partial_order() -> [[bool; 4]; 4] {
    let anc: [[bool; 4]; 4] = kani::any();
    let mut i = 0;
    while i < 4 {
        kani::assume(!anc[i][i]);
        let mut j = 0;
        while j < 4 {
            if anc[i][j] {
                kani::assume(!anc[j][i]);
                let mut k = 0;
                while k < 4 {
                    if anc[j][k] {
                        kani::assume(anc[i][k]);
                    }
                    k += 1;
                }
            }
            j += 1;
        }
        i += 1;
    }
    anc
}
pub fn loc(seg: u64, mc: u64) -> Location {
    Location::new(SegmentIndex::new(seg), MaxCut::new(mc))
}
pub fn any_loc() -> Location {
    loc(kani::any::<u8>() as u64, kani::any::<u8>() as u64)
}

// ------------------------------------------------------------------ command
pub struct MCmd {
    pub id: CmdId,
    pub parent: Prior<Address>,
    pub has_policy: bool,
    pub prio: Priority,
}
impl MCmd {
    pub fn new(id: CmdId, parent: Prior<Address>) -> Self {
        Self { id, parent, has_policy: false, prio: Priority::Basic(0) }
    }
}
impl Command for MCmd {
    fn priority(&self) -> Priority {
        self.prio.clone()
    }
    fn id(&self) -> CmdId {
        self.id
    }
    fn parent(&self) -> Prior<Address> {
        self.parent
    }
    fn policy(&self) -> Option<&[u8]> {
        if self.has_policy { Some(&[1]) } else { None }
    }
    fn bytes(&self) -> &[u8] {
        &[]
    }
}

// --------------------------------------------------------------- fact index
/// `MFI(200)`: every exact query finds a committed value `[9]`; `MFI(201)`: finds nothing; otherwise errors.
pub struct MFI(pub u8);
impl Query for MFI {
    fn query(&self, _: &str, _: &[Bytes]) -> Result<Option<Bytes>, StorageError> {
        match self.0 {
            200 => Ok(Some(Bytes::from([9u8]))),
            201 => Ok(None),
            _ => Err(any_serr()),
        }
    }
    type QueryIterator = core::iter::Empty<Result<Fact, StorageError>>;
    fn query_prefix(&self, _: &str, _: &[Bytes]) -> Result<Self::QueryIterator, StorageError> {
        Err(any_serr())
    }
}
impl FactIndex for MFI {}

// -------------------------------------------------------------- perspective
pub struct MPersp {
    pub revert_fails: bool,
    pub add_fails: bool,
    /// value handed out by `checkpoint()`; `revert` logs the index it receives
    pub cp: u8,
    pub includes: bool,
    pub tag: u8,
}
impl MPersp {
    pub fn any() -> Self {
        Self { revert_fails: kani::any(), add_fails: kani::any(), cp: kani::any(), includes: false, tag: 0 }
    }
    pub fn ok() -> Self {
        Self { revert_fails: false, add_fails: false, cp: 0, includes: false, tag: 0 }
    }
}
impl Query for MPersp {
    fn query(&self, _: &str, _: &[Bytes]) -> Result<Option<Bytes>, StorageError> {
        Err(any_serr())
    }
    type QueryIterator = core::iter::Empty<Result<Fact, StorageError>>;
    fn query_prefix(&self, _: &str, _: &[Bytes]) -> Result<Self::QueryIterator, StorageError> {
        Err(any_serr())
    }
}
impl QueryMut for MPersp {
    fn insert(&mut self, _: String, _: Keys, _: Bytes) -> Result<(), StorageError> {
        Ok(())
    }
    fn delete(&mut self, _: String, _: Keys) -> Result<(), StorageError> {
        Ok(())
    }
}
impl FactPerspective for MPersp {}
impl Perspective for MPersp {
    fn policy(&self) -> PolicyId {
        PolicyId::new(0)
    }
    fn add_command(&mut self, c: &impl Command) -> Result<usize, StorageError> {
        log(ADD_COMMAND, id_byte(c.id()));
        if self.add_fails { Err(StorageError::PerspectiveHeadMismatch) } else { Ok(1) }
    }
    fn includes(&self, _: CmdId) -> bool {
        self.includes
    }
    fn head_address(&self) -> Result<Prior<Address>, buggy::Bug> {
        Ok(Prior::None)
    }
}
impl Revertable for MPersp {
    fn checkpoint(&self) -> Checkpoint {
        log(CHECKPOINT, self.cp);
        Checkpoint { index: self.cp as usize }
    }
    fn revert(&mut self, c: Checkpoint) -> Result<(), StorageError> {
        log(REVERT, c.index as u8);
        if self.revert_fails { Err(any_serr()) } else { Ok(()) }
    }
}

// ------------------------------------------------------------------ segment
pub struct MSeg {
    pub head: CmdId,
    pub at: Location,
    pub facts_tag: u8,
    pub facts_fail: bool,
    /// commands held: max cuts first .. first + ncmds (ncmds = 0: `get_command` finds nothing)
    pub first: u64,
    pub ncmds: u64,
    pub prior: Prior<Location>,
    pub skips: [Location; 2],
    pub nskips: usize,
}
impl MSeg {
    pub fn any() -> Self {
        Self::holding(fresh_id(), any_loc(), kani::any(), kani::any(), 0, 0)
    }
    pub fn holding(head: CmdId, at: Location, facts_tag: u8, facts_fail: bool, first: u64, ncmds: u64) -> Self {
        Self { head, at, facts_tag, facts_fail, first, ncmds, prior: Prior::None, skips: [loc(0, 0); 2], nskips: 0 }
    }
}
impl Segment for MSeg {
    type FactIndex = MFI;
    type Command<'a> = MCmd;
    fn index(&self) -> SegmentIndex {
        self.at.segment
    }
    fn head_id(&self) -> CmdId {
        self.head
    }
    fn policy(&self) -> PolicyId {
        PolicyId::new(0)
    }
    fn prior(&self) -> Prior<Location> {
        self.prior
    }
    fn get_command(&self, l: Location) -> Option<MCmd> {
        let mc = l.max_cut.get();
        if l.segment == self.at.segment && mc >= self.first && mc - self.first < self.ncmds {
            // the command id encodes its max cut
            Some(MCmd::new(id_of(mc as u8), Prior::None))
        } else {
            None
        }
    }
    fn facts(&self) -> Result<MFI, StorageError> {
        if self.facts_fail { Err(any_serr()) } else { Ok(MFI(self.facts_tag)) }
    }
    fn shortest_max_cut(&self) -> MaxCut {
        if self.ncmds > 0 { MaxCut::new(self.first) } else { self.at.max_cut }
    }
    fn longest_max_cut(&self) -> Result<MaxCut, StorageError> {
        Ok(self.at.max_cut)
    }
    fn skip_list(&self) -> &[Location] {
        &self.skips[..self.nskips]
    }
}

// ------------------------------------------------------------------ storage
/// `loc_mode`: 0 = `get_location` → Ok(None); 1 → Ok(Some(any)); 2 → Err; 3 = any of these.
pub struct MStorage {
    pub heads: HeadSet,
    pub loc_mode: u8,
    pub from_mode: u8,
    pub offset: u64,
    pub offset_fails: bool,
    pub write_fails: bool,
    pub commit_heads_fails: bool,
    pub last_commit_tag: u8,
    /// (head id, segment index, last max cut) of the segment the last successful `write` returned
    pub written: Option<(CmdId, SegmentIndex, MaxCut)>,
    /// the first head handed to the last `commit_heads`
    pub committed_head: Option<crate::storage::LocatedAddress>,
    /// `is_ancestor(x, y)` = `anc[x.segment][y.segment]` (segments 0..4): an assumed contract
    /// ("some strict partial order"), NOT the real search — see the C11 units for that.
    pub anc: [[bool; 4]; 4],
    pub anc_fails: bool,
    /// loc_mode 4: `get_location(a)` = Some((found_seg, a.max_cut))
    pub found_seg: u8,
    /// do not log lookups (keeps the ghost-log index concrete when the number of lookups is symbolic)
    pub quiet: bool,
    /// when `seg_ncmds > 0`, `get_segment` succeeds and yields a segment holding these commands
    pub seg_first: u64,
    pub seg_ncmds: u64,
}
impl MStorage {
    pub fn any() -> Self {
        Self {
            heads: HeadSet::default(),
            loc_mode: 3,
            from_mode: 3,
            offset: kani::any(),
            offset_fails: false,
            write_fails: kani::any(),
            commit_heads_fails: kani::any(),
            last_commit_tag: 0,
            written: None,
            committed_head: None,
            anc: [[false; 4]; 4],
            anc_fails: false,
            found_seg: 0,
            quiet: false,
            seg_first: 0,
            seg_ncmds: 0,
        }
    }
}
fn loc_result(mode: u8) -> Result<Option<Location>, StorageError> {
    match mode {
        0 => Ok(None),
        1 => Ok(Some(any_loc())),
        2 => Err(any_serr()),
        _ => {
            if kani::any() {
                Err(any_serr())
            } else if kani::any() {
                Ok(None)
            } else {
                Ok(Some(any_loc()))
            }
        }
    }
}
impl Storage for MStorage {
    type Perspective = MPersp;
    type FactPerspective = MPersp;
    type Segment = MSeg;
    type FactIndex = MFI;
    fn get_location(&self, a: Address, _: &mut TraversalBuffer) -> Result<Option<Location>, StorageError> {
        if !self.quiet {
            log(GET_LOCATION, id_byte(a.id));
        }
        if self.loc_mode == 4 {
            return Ok(Some(Location::new(SegmentIndex::new(self.found_seg as u64), a.max_cut)));
        }
        loc_result(self.loc_mode)
    }
    fn is_ancestor(&self, x: Location, y: Location, _: &mut TraversalBuffer) -> Result<bool, StorageError> {
        if !self.quiet {
            log(IS_ANCESTOR, (x.segment.get() as u8).wrapping_mul(16).wrapping_add(y.segment.get() as u8));
        }
        if self.anc_fails {
            return Err(any_serr());
        }
        Ok(self.anc[(x.segment.get() % 4) as usize][(y.segment.get() % 4) as usize])
    }
    fn get_location_from(
        &self,
        from: Location,
        _: Address,
        _: &mut TraversalBuffer,
    ) -> Result<Option<Location>, StorageError> {
        log(GET_LOCATION_FROM, from.segment.get() as u8);
        loc_result(self.from_mode)
    }
    fn get_linear_perspective(&self, _: Location) -> Result<MPersp, StorageError> {
        log(GET_LINEAR_PERSP, 0);
        if kani::any() { Err(any_serr()) } else { Ok(MPersp::any()) }
    }
    fn get_fact_perspective(&self, _: Location) -> Result<MPersp, StorageError> {
        log(GET_FACT_PERSP, 0);
        Err(any_serr())
    }
    fn new_merge_perspective(
        &self,
        _: Location,
        _: Location,
        _: Location,
        _: PolicyId,
        _: MFI,
    ) -> Result<MPersp, StorageError> {
        log(NEW_MERGE_PERSP, 0);
        if kani::any() { Err(any_serr()) } else { Ok(MPersp::any()) }
    }
    fn get_segment(&self, l: Location) -> Result<MSeg, StorageError> {
        if self.seg_ncmds > 0 {
            return Ok(MSeg::holding(id_of(0), l, 0, false, self.seg_first, self.seg_ncmds));
        }
        log(GET_SEGMENT, l.segment.get() as u8);
        if kani::any() {
            Err(any_serr())
        } else {
            Ok(MSeg::holding(fresh_id(), l, kani::any(), kani::any(), 0, 0))
        }
    }
    fn get_heads(&self) -> Result<&HeadSet, StorageError> {
        log(GET_HEADS, 0);
        Ok(&self.heads)
    }
    fn heads_offset(&self) -> Result<HeadSetOffset, StorageError> {
        log(HEADS_OFFSET, 0);
        if self.offset_fails { Err(any_serr()) } else { Ok(HeadSetOffset::new(self.offset)) }
    }
    fn fact_cache(&self) -> Result<MFI, StorageError> {
        Ok(MFI(0))
    }
    fn commit_heads(&mut self, h: HeadSet, f: MFI) -> Result<(), StorageError> {
        log(COMMIT_HEADS, h.len() as u8);
        self.last_commit_tag = f.0;
        self.committed_head = h.as_slice().first().copied();
        if self.commit_heads_fails {
            Err(any_serr())
        } else {
            // trait contract: the stamp changes on every commit
            self.offset = self.offset.wrapping_add(1);
            Ok(())
        }
    }
    fn write(&mut self, _: MPersp) -> Result<MSeg, StorageError> {
        log(WRITE, 0);
        if self.write_fails {
            Err(any_serr())
        } else {
            // a segment holding one or more commands: first max cut <= last max cut
            let at = any_loc();
            let first: u64 = kani::any();
            kani::assume(first <= at.max_cut.get());
            let seg = MSeg::holding(fresh_id(), at, kani::any(), kani::any(), first, at.max_cut.get() - first + 1);
            self.written = Some((seg.head, at.segment, at.max_cut));
            Ok(seg)
        }
    }
    fn write_facts(&mut self, _: MPersp) -> Result<MFI, StorageError> {
        log(WRITE_FACTS, 0);
        Ok(MFI(0))
    }
}

pub struct MSP {
    pub storage: MStorage,
    pub missing: bool,
    pub new_storage_fails: bool,
}
impl MSP {
    pub fn any() -> Self {
        Self { storage: MStorage::any(), missing: false, new_storage_fails: kani::any() }
    }
}
impl StorageProvider for MSP {
    type Perspective = MPersp;
    type Segment = MSeg;
    type Storage = MStorage;
    fn new_perspective(&mut self, _: PolicyId) -> MPersp {
        MPersp::ok()
    }
    fn new_storage(&mut self, _: MPersp) -> Result<(GraphId, &mut MStorage), StorageError> {
        log(NEW_STORAGE, 0);
        if self.new_storage_fails { Err(any_serr()) } else { Ok((GraphId::default(), &mut self.storage)) }
    }
    fn get_storage(&mut self, _: GraphId) -> Result<&mut MStorage, StorageError> {
        if self.missing { Err(StorageError::NoSuchStorage) } else { Ok(&mut self.storage) }
    }
    fn remove_storage(&mut self, _: GraphId) -> Result<(), StorageError> {
        Ok(())
    }
    fn list_graph_ids(&mut self) -> Result<impl Iterator<Item = Result<GraphId, StorageError>>, StorageError> {
        Ok(core::iter::empty())
    }
}

// ------------------------------------------------------------------- policy
pub struct MPolicy {
    pub rule_ok: bool,
    pub action_ok: bool,
    pub merge_ok: bool,
}
impl Policy for MPolicy {
    type Action<'a> = ();
    type Effect = ();
    type Command<'a> = MCmd;
    fn serial(&self) -> u32 {
        0
    }
    fn call_rule(
        &self,
        c: &impl Command,
        _f: &mut impl FactPerspective,
        _s: &mut impl Sink<()>,
        p: CommandPlacement,
    ) -> Result<(), PolicyError> {
        let k = match p {
            CommandPlacement::OnGraphAtOrigin => CALL_RULE_ORIGIN,
            CommandPlacement::OnGraphInBraid => CALL_RULE_BRAID,
            CommandPlacement::OffGraph => CALL_RULE_OFFGRAPH,
        };
        log(k, id_byte(c.id()));
        if self.rule_ok { Ok(()) } else { Err(any_perr()) }
    }
    fn call_action(
        &self,
        _a: (),
        _f: &mut impl Perspective,
        _s: &mut impl Sink<()>,
        p: ActionPlacement,
    ) -> Result<(), PolicyError> {
        log(CALL_ACTION, matches!(p, ActionPlacement::OnGraph) as u8);
        if self.action_ok { Ok(()) } else { Err(any_perr()) }
    }
    fn merge<'a>(&self, _t: &'a mut [u8], ids: MergeIds) -> Result<MCmd, PolicyError> {
        let (l, r): (Address, Address) = ids.into();
        log(MERGE, id_byte(l.id).wrapping_mul(16).wrapping_add(id_byte(r.id)));
        if self.merge_ok {
            // deterministic function of the merge ids (like the real merge id derivation)
            let id = id_of(100u8.wrapping_add(id_byte(l.id).wrapping_mul(7)).wrapping_add(id_byte(r.id)));
            let mc = core::cmp::max(l.max_cut, r.max_cut);
            let _ = mc;
            Ok(MCmd { id, parent: Prior::Merge(l, r), has_policy: false, prio: Priority::Merge })
        } else {
            Err(any_perr())
        }
    }
}
pub struct MPS {
    pub policy: MPolicy,
    pub get_fails: bool,
    pub add_fails: bool,
}
impl MPS {
    pub fn new(rule_ok: bool, action_ok: bool) -> Self {
        Self { policy: MPolicy { rule_ok, action_ok, merge_ok: true }, get_fails: false, add_fails: false }
    }
}
impl PolicyStore for MPS {
    type Policy = MPolicy;
    type Effect = ();
    fn add_policy(&mut self, _: &[u8]) -> Result<PolicyId, PolicyError> {
        log(ADD_POLICY, 0);
        if self.add_fails { Err(PolicyError::InternalError) } else { Ok(PolicyId::new(0)) }
    }
    fn get_policy(&self, _: PolicyId) -> Result<&MPolicy, PolicyError> {
        if self.get_fails { Err(PolicyError::InternalError) } else { Ok(&self.policy) }
    }
}

// --------------------------------------------------------------------- sink
pub struct MSink;
impl Sink<()> for MSink {
    fn begin(&mut self) {
        log(BEGIN, 0);
    }
    fn consume(&mut self, _: ()) {
        log(CONSUME, 0);
    }
    fn rollback(&mut self) {
        log(ROLLBACK, 0);
    }
    fn commit(&mut self) {
        log(COMMIT, 0);
    }
}

pub struct NoSpill;
impl Spill for NoSpill {
    fn write_at(&mut self, _: usize, _: &[u8]) -> Result<(), StorageError> {
        Ok(())
    }
    fn read_at(&mut self, _: usize, _: &mut [u8]) -> Result<(), StorageError> {
        Ok(())
    }
}

// ------------------------------------------------------------ graph storage
/// A small family of real graph SHAPES for the default `Storage::{is_ancestor, get_location_from}`
/// searches (which this type does NOT override):
///   seg 0 = init command            max cut 0
///   seg 1 = X, lx commands          max cuts 1 ..= lx,           prior (0,0)
///   seg 2 = B, lb commands          max cuts fork+1 ..= fork+lb, prior (1,fork)   — a branch off the MIDDLE of X
/// with lx, lb, fork symbolic and B carrying a symbolic choice of the valid skip entries
/// (first locations of segments on its own ancestry: (0,0) and (1,1)).
pub struct GStorage {
    pub lx: u64,
    pub lb: u64,
    pub fork: u64,
    pub skip_init: bool,
    pub skip_x: bool,
    pub heads: HeadSet,
    /// optional second branch: seg 3 = C, lc commands, max cuts fork2+1 ..= fork2+lc, prior (1,fork2); lc = 0: absent
    pub lc: u64,
    pub fork2: u64,
}
impl GStorage {
    /// trunk X plus two branches B and C hanging off it
    pub fn shape2(lx: u64, fork: u64, lb: u64, fork2: u64, lc: u64) -> Self {
        Self { lx, lb, fork, skip_init: false, skip_x: false, heads: HeadSet::default(), lc, fork2 }
    }
    pub fn any() -> Self {
        let g = Self { lx: kani::any(), lb: kani::any(), fork: kani::any(), skip_init: kani::any(), skip_x: kani::any(), heads: HeadSet::default(), lc: 0, fork2: 0 };
        kani::assume(g.lx >= 1 && g.lx <= 40 && g.lb >= 1 && g.lb <= 40 && g.fork >= 1 && g.fork <= g.lx);
        g
    }
    /// concrete lengths, symbolic skip entries
    pub fn shape(lx: u64, fork: u64, lb: u64) -> Self {
        Self { lx, lb, fork, skip_init: kani::any(), skip_x: kani::any(), heads: HeadSet::default(), lc: 0, fork2: 0 }
    }
    /// is (seg, mc) a command of the graph?
    pub fn valid(&self, l: Location) -> bool {
        let mc = l.max_cut.get();
        match l.segment.get() {
            0 => mc == 0,
            1 => mc >= 1 && mc <= self.lx,
            2 => mc > self.fork && mc <= self.fork + self.lb,
            3 => mc > self.fork2 && mc <= self.fork2 + self.lc,
            _ => false,
        }
    }
    /// reference: a is a PROPER ancestor of b (by the definition of the shape)
    pub fn proper_ancestor(&self, a: Location, b: Location) -> bool {
        let (sa, ma, sb, mb) = (a.segment.get(), a.max_cut.get(), b.segment.get(), b.max_cut.get());
        if sa == sb {
            return ma < mb;
        }
        match (sa, sb) {
            (0, _) => true,
            (1, 2) => ma <= self.fork,
            (1, 3) => ma <= self.fork2,
            _ => false,
        }
    }
    fn seg(&self, i: u64) -> MSeg {
        let mut s = match i {
            0 => MSeg::holding(id_of(0), loc(0, 0), 0, false, 0, 1),
            1 => MSeg::holding(id_of(self.lx as u8), loc(1, self.lx), 0, false, 1, self.lx),
            3 => MSeg::holding(id_of((self.fork2 + self.lc) as u8), loc(3, self.fork2 + self.lc), 0, false, self.fork2 + 1, self.lc),
            _ => MSeg::holding(id_of((self.fork + self.lb) as u8), loc(2, self.fork + self.lb), 0, false, self.fork + 1, self.lb),
        };
        match i {
            0 => {}
            1 => s.prior = Prior::Single(loc(0, 0)),
            3 => s.prior = Prior::Single(loc(1, self.fork2)),
            _ => {
                s.prior = Prior::Single(loc(1, self.fork));
                // skip list sorted by max cut ascending
                if self.skip_init {
                    s.skips[s.nskips] = loc(0, 0);
                    s.nskips += 1;
                }
                if self.skip_x {
                    s.skips[s.nskips] = loc(1, 1);
                    s.nskips += 1;
                }
            }
        }
        s
    }
}
impl Storage for GStorage {
    type Perspective = MPersp;
    type FactPerspective = MPersp;
    type Segment = MSeg;
    type FactIndex = MFI;
    fn get_linear_perspective(&self, _: Location) -> Result<MPersp, StorageError> {
        Err(StorageError::IoError)
    }
    fn get_fact_perspective(&self, _: Location) -> Result<MPersp, StorageError> {
        Err(StorageError::IoError)
    }
    fn new_merge_perspective(&self, _: Location, _: Location, _: Location, _: PolicyId, _: MFI) -> Result<MPersp, StorageError> {
        Err(StorageError::IoError)
    }
    fn get_segment(&self, l: Location) -> Result<MSeg, StorageError> {
        if l.segment.get() > 3 || (l.segment.get() == 3 && self.lc == 0) {
            return Err(StorageError::SegmentOutOfBounds(l));
        }
        Ok(self.seg(l.segment.get()))
    }
    fn get_heads(&self) -> Result<&HeadSet, StorageError> {
        Ok(&self.heads)
    }
    fn heads_offset(&self) -> Result<HeadSetOffset, StorageError> {
        Ok(HeadSetOffset::new(0))
    }
    fn fact_cache(&self) -> Result<MFI, StorageError> {
        Ok(MFI(0))
    }
    fn commit_heads(&mut self, _: HeadSet, _: MFI) -> Result<(), StorageError> {
        Err(StorageError::IoError)
    }
    fn write(&mut self, _: MPersp) -> Result<MSeg, StorageError> {
        Err(StorageError::IoError)
    }
    fn write_facts(&mut self, _: MPersp) -> Result<MFI, StorageError> {
        Err(StorageError::IoError)
    }
}
