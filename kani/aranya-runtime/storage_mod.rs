//! KI harnesses on `crates/aranya-runtime/src/storage/mod.rs`
//! (TraversalQueue — C21; Location order — C21/C17; is_ancestor early exits — C11).
//!
//! These check the same contracts as the Verus unit `c21_traversal_queue`, but
//! on the compiled real code (MIR), for queues of a concrete length with fully
//! symbolic contents. They are the counterexample-producing / rewrite-robust
//! companion of the unbounded Verus proof and are labelled BOUNDED.
extern crate alloc;
use alloc::vec::Vec;

use super::*;

fn any_loc() -> Location {
    // 4 segments are enough to exercise every equal / distinct pattern among
    // <= 5 entries plus the argument; max cuts are fully symbolic.
    let seg: u8 = kani::any();
    kani::assume(seg < 4);
    Location::new(SegmentIndex::new(seg as u64), MaxCut::new(kani::any::<u64>()))
}

fn queue_of<const LEN: usize>(uniq: bool) -> TraversalQueue {
    let mut entries = Vec::with_capacity(LEN + 1);
    let arr: [Location; LEN] = core::array::from_fn(|_| any_loc());
    entries.extend_from_slice(&arr);
    let partition: usize = kani::any();
    kani::assume(partition <= LEN);
    let q = TraversalQueue { entries, partition };
    if uniq {
        kani::assume(distinct_segments(&q));
    }
    q
}

fn distinct_segments(q: &TraversalQueue) -> bool {
    let n = q.entries.len();
    let mut i = 0;
    while i < n {
        let mut j = i + 1;
        while j < n {
            if q.entries[i].segment == q.entries[j].segment {
                return false;
            }
            j += 1;
        }
        i += 1;
    }
    true
}

/// occurrences of `v` in entries[lo..hi)
fn count(q: &TraversalQueue, lo: usize, hi: usize, v: Location) -> usize {
    let mut n = 0;
    let mut i = lo;
    while i < hi {
        if q.entries[i] == v {
            n += 1;
        }
        i += 1;
    }
    n
}
fn cu(q: &TraversalQueue, v: Location) -> usize {
    count(q, 0, q.partition, v)
}
fn cc(q: &TraversalQueue, v: Location) -> usize {
    count(q, q.partition, q.entries.len(), v)
}
fn is_max(q: &TraversalQueue, x: Location) -> bool {
    let mut i = 0;
    while i < q.entries.len() {
        if q.entries[i] > x {
            return false;
        }
        i += 1;
    }
    true
}
fn find(q: &TraversalQueue, seg: SegmentIndex) -> Option<(MaxCut, bool)> {
    let mut i = 0;
    while i < q.entries.len() {
        if q.entries[i].segment == seg {
            return Some((q.entries[i].max_cut, i >= q.partition));
        }
        i += 1;
    }
    None
}
fn snapshot(q: &TraversalQueue) -> TraversalQueue {
    let mut entries = Vec::with_capacity(q.entries.len());
    entries.extend_from_slice(&q.entries);
    TraversalQueue { entries, partition: q.partition }
}

/// The derived `Ord` on the real `Location` is lexicographic (max_cut, segment)
/// over the native u64 values — the fact the Verus unit's `loc_le` relies on.
#[kani::proof]
fn c21_location_order() {
    let (a_mc, a_sg, b_mc, b_sg): (u64, u64, u64, u64) = kani::any();
    let a = Location::new(SegmentIndex::new(a_sg), MaxCut::new(a_mc));
    let b = Location::new(SegmentIndex::new(b_sg), MaxCut::new(b_mc));
    assert!((a <= b) == (a_mc < b_mc || (a_mc == b_mc && a_sg <= b_sg)));
    assert!((a == b) == (a_mc == b_mc && a_sg == b_sg));
    assert!(a.cmp(&b) == (a_mc, a_sg).cmp(&(b_mc, b_sg)));
    assert!((MaxCut::new(a_mc) > MaxCut::new(b_mc)) == (a_mc > b_mc));
    assert!(MaxCut::new(a_mc).checked_add(1).map(|m| m.get()) == a_mc.checked_add(1));
    assert!(a.same_segment(b) == (a_sg == b_sg));
}

fn check_push_covered<const LEN: usize>() {
    let mut q = queue_of::<LEN>(true);
    let loc = any_loc();
    let covered: bool = kani::any();
    let before = find(&q, loc.segment);
    let old = snapshot(&q);
    let probe = any_loc();
    let r = q.push_covered(loc, covered);
    assert!(r.is_ok());
    assert!(q.partition <= q.entries.len());
    assert!(distinct_segments(&q));
    let after = find(&q, loc.segment);
    match before {
        None => {
            assert!(after == Some((loc.max_cut, covered)));
            assert!(q.entries.len() == LEN + 1);
        }
        Some((mc, cov)) => {
            assert!(q.entries.len() == LEN);
            if loc.max_cut > mc {
                assert!(after == Some((loc.max_cut, covered)));
            } else if loc.max_cut == mc {
                assert!(after == Some((mc, cov || covered)));
            } else {
                assert!(after == Some((mc, cov)));
            }
        }
    }
    // frame: every other segment's entry and flag unchanged
    if probe.segment != loc.segment {
        assert!(cu(&q, probe) == cu(&old, probe));
        assert!(cc(&q, probe) == cc(&old, probe));
    }
    kani::cover!(before.is_some() && loc.max_cut > before.unwrap().0);
    core::mem::forget(r);
}

fn check_pop_covered<const LEN: usize>() {
    let mut q = queue_of::<LEN>(false);
    let old = snapshot(&q);
    let probe = any_loc();
    let r = q.pop_covered();
    match r {
        Ok(None) => assert!(LEN == 0),
        Ok(Some((x, cov))) => {
            assert!(LEN > 0);
            assert!(is_max(&old, x));
            assert!(q.partition <= q.entries.len());
            assert!(q.entries.len() == LEN - 1);
            let du = if !cov && probe == x { 1 } else { 0 };
            let dc = if cov && probe == x { 1 } else { 0 };
            assert!(cu(&q, probe) + du == cu(&old, probe));
            assert!(cc(&q, probe) + dc == cc(&old, probe));
            kani::cover!(cov);
            kani::cover!(!cov);
        }
        Err(_) => panic!("Bug reachable"),
    }
}

fn check_pop_duplicates<const LEN: usize>() {
    let mut q = queue_of::<LEN>(false);
    let old = snapshot(&q);
    let probe = any_loc();
    let r = q.pop_duplicates();
    match r {
        Ok(None) => assert!(LEN == 0),
        Ok(Some((x, k))) => {
            assert!(is_max(&old, x));
            assert!(k == cu(&old, x) + cc(&old, x) && k >= 1);
            assert!(q.partition <= q.entries.len());
            assert!(q.entries.len() + k == LEN);
            if probe == x {
                assert!(cu(&q, probe) == 0 && cc(&q, probe) == 0);
            } else {
                assert!(cu(&q, probe) == cu(&old, probe));
                assert!(cc(&q, probe) == cc(&old, probe));
            }
            kani::cover!(k >= 2);
        }
        Err(_) => panic!("Bug reachable"),
    }
}

fn check_cover_up_to<const LEN: usize>() {
    let mut q = queue_of::<LEN>(true);
    let old = snapshot(&q);
    let seg = any_loc().segment;
    let cov_mc = MaxCut::new(kani::any());
    let longest = MaxCut::new(kani::any());
    let probe = any_loc();
    let before = find(&q, seg);
    let r = q.cover_up_to(seg, cov_mc, longest);
    assert!(q.partition <= q.entries.len());
    assert!(q.entries.len() == LEN);
    match before {
        None | Some((_, true)) => {
            assert!(r.is_ok());
            assert!(cu(&q, probe) == cu(&old, probe) && cc(&q, probe) == cc(&old, probe));
        }
        Some((mc, false)) => {
            if cov_mc >= longest {
                assert!(r.is_ok());
                assert!(find(&q, seg) == Some((mc, true)));
            } else if cov_mc >= mc {
                assert!(r.is_ok() == (cov_mc.get() < u64::MAX));
                if r.is_ok() {
                    assert!(find(&q, seg) == Some((MaxCut::new(cov_mc.get() + 1), false)));
                }
            } else {
                assert!(r.is_ok());
                assert!(find(&q, seg) == Some((mc, false)));
            }
            if probe.segment != seg && r.is_ok() {
                assert!(cu(&q, probe) == cu(&old, probe) && cc(&q, probe) == cc(&old, probe));
            }
        }
    }
    core::mem::forget(r);
}

struct Log<const N: usize> {
    items: [Location; N],
    n: usize,
}

fn check_drain_above<const LEN: usize>() {
    let mut q = queue_of::<LEN>(false);
    let old = snapshot(&q);
    let t = MaxCut::new(kani::any());
    let probe = any_loc();
    let z = Location::new(SegmentIndex::new(0), MaxCut::new(0));
    let mut log = Log::<LEN> { items: [z; LEN], n: 0 };
    let r = q.drain_above(t, |l| {
        log.items[log.n] = l;
        log.n += 1;
    });
    assert!(r.is_ok());
    assert!(q.partition <= q.entries.len());
    let mut got = 0;
    let mut i = 0;
    while i < log.n {
        if log.items[i] == probe {
            got += 1;
        }
        i += 1;
    }
    if probe.max_cut > t {
        assert!(cu(&q, probe) == 0 && cc(&q, probe) == 0);
        assert!(got == cu(&old, probe));
    } else {
        assert!(cu(&q, probe) == cu(&old, probe) && cc(&q, probe) == cc(&old, probe));
        assert!(got == 0);
    }
    kani::cover!(log.n > 0 && q.entries.len() > 0);
    core::mem::forget(r);
}

fn check_drain_all<const LEN: usize>() {
    let mut q = queue_of::<LEN>(false);
    let old = snapshot(&q);
    let z = Location::new(SegmentIndex::new(0), MaxCut::new(0));
    let mut log = Log::<LEN> { items: [z; LEN], n: 0 };
    q.drain_all(|l| {
        log.items[log.n] = l;
        log.n += 1;
    });
    assert!(q.entries.is_empty() && q.partition == 0 && q.all_covered());
    assert!(log.n == old.partition);
    let mut i = 0;
    while i < log.n {
        assert!(log.items[i] == old.entries[i]);
        i += 1;
    }
}

fn check_push_duplicate<const LEN: usize>() {
    let mut q = queue_of::<LEN>(false);
    let old = snapshot(&q);
    let loc = any_loc();
    let probe = any_loc();
    let r = q.push_duplicate(loc);
    assert!(r.is_ok());
    assert!(q.partition == old.partition + 1 && q.entries.len() == LEN + 1);
    let d = if probe == loc { 1 } else { 0 };
    assert!(cu(&q, probe) == cu(&old, probe) + d);
    assert!(cc(&q, probe) == cc(&old, probe));
    core::mem::forget(r);
}

fn check_peek<const LEN: usize>() {
    let q = queue_of::<LEN>(false);
    match q.peek() {
        None => assert!(LEN == 0),
        Some(x) => {
            assert!(is_max(&q, *x));
            assert!(cu(&q, *x) + cc(&q, *x) >= 1);
        }
    }
}

macro_rules! tq {
    ($name:ident, $f:ident, $len:expr, $unw:expr) => {
        #[kani::proof]
        #[kani::unwind($unw)]
        fn $name() {
            $f::<$len>();
        }
    };
}
tq!(c21_push_covered_len3, check_push_covered, 3, 7);
tq!(c21_pop_covered_len3, check_pop_covered, 3, 7);
tq!(c21_pop_duplicates_len3, check_pop_duplicates, 3, 7);
tq!(c21_cover_up_to_len3, check_cover_up_to, 3, 7);
tq!(c21_drain_above_len3, check_drain_above, 3, 7);
tq!(c21_drain_all_len3, check_drain_all, 3, 7);
tq!(c21_push_duplicate_len3, check_push_duplicate, 3, 7);
tq!(c21_peek_len3, check_peek, 3, 7);
tq!(c21_pop_covered_len1, check_pop_covered, 1, 5);
tq!(c21_push_covered_len4, check_push_covered, 4, 8);
tq!(c21_pop_covered_len4, check_pop_covered, 4, 8);
tq!(c21_pop_duplicates_len4, check_pop_duplicates, 4, 8);
tq!(c21_cover_up_to_len4, check_cover_up_to, 4, 8);
tq!(c21_drain_above_len4, check_drain_above, 4, 8);
tq!(c21_drain_above_len5, check_drain_above, 5, 9);
