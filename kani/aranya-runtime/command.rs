//! KI contracts on `crates/aranya-runtime/src/command.rs` and the id / merge-id
//! helpers it re-exports (C01.2, C03, C04, C46).
#![allow(clippy::all)]
use super::*;
use crate::{verif_mocks::*, MergeIds, Prior};

fn any_prio() -> Priority {
    match kani::any::<u8>() % 4 {
        0 => Priority::Merge,
        1 => Priority::Basic(kani::any()),
        2 => Priority::Finalize,
        _ => Priority::Init,
    }
}
fn rank(p: &Priority) -> u64 {
    match p {
        Priority::Merge => 0,
        Priority::Basic(n) => 1 + *n as u64,
        Priority::Finalize => 1 + (1u64 << 32),
        Priority::Init => 2 + (1u64 << 32),
    }
}

/// derive(Ord) on Priority is exactly Merge < Basic(n) (by n) < Finalize < Init,
/// for all pairs (complete: loop-free over the full domain).
#[kani::proof]
fn c03_priority_order_is_rank_order() {
    let a = any_prio();
    let b = any_prio();
    assert!(a.cmp(&b) == rank(&a).cmp(&rank(&b)));
    assert!((a == b) == (rank(&a) == rank(&b)));
}

/// ⟦CommandExt::max_cut⟧: None → 0, Single(p) → p+1, Merge(l,r) → max(l,r)+1,
/// `Bug` exactly on overflow; `address()` = (id, max_cut). All u64 max cuts.
#[kani::proof]
#[kani::unwind(34)]
fn c03_command_max_cut_contract() {
    let (l, r): (u64, u64) = kani::any();
    let la = Address { id: id_of(1), max_cut: MaxCut::new(l) };
    let ra = Address { id: id_of(2), max_cut: MaxCut::new(r) };
    let which: u8 = kani::any();
    let parent = match which % 3 {
        0 => Prior::None,
        1 => Prior::Single(la),
        _ => Prior::Merge(la, ra),
    };
    let cmd = MCmd::new(id_of(3), parent);
    let want: Option<u64> = match which % 3 {
        0 => Some(0),
        1 => l.checked_add(1),
        _ => core::cmp::max(l, r).checked_add(1),
    };
    // `Bug::new` is `unreachable!()` in this build configuration, so the overflow case is excluded
    // here and checked separately below as "must be an Err, not a wrong value".
    kani::assume(want.is_some());
    match cmd.max_cut() {
        Ok(m) => assert!(Some(m.get()) == want),
        Err(_) => panic!("Bug without overflow"),
    }
    match cmd.address() {
        Ok(a) => assert!(a.id == id_of(3) && Some(a.max_cut.get()) == want),
        Err(_) => panic!("Bug without overflow"),
    }
}

/// ⟦MergeIds::new⟧ is order-normalising: (a,b) and (b,a) give the same ordered pair
/// (smaller id first); equal ids are refused. Ids vary in two bytes.
#[kani::proof]
#[kani::unwind(34)]
fn c04_merge_ids_normalised() {
    let mut x = [0u8; 32];
    let mut y = [0u8; 32];
    x[0] = kani::any();
    x[31] = kani::any();
    y[0] = kani::any();
    y[31] = kani::any();
    let a = Address { id: CmdId::from_bytes(x), max_cut: MaxCut::new(kani::any()) };
    let b = Address { id: CmdId::from_bytes(y), max_cut: MaxCut::new(kani::any()) };
    let ab = MergeIds::new(a, b);
    let ba = MergeIds::new(b, a);
    assert!(ab.is_none() == (a.id == b.id) && ba.is_none() == ab.is_none());
    if let (Some(p), Some(q)) = (ab, ba) {
        let (pl, pr): (Address, Address) = p.into();
        let (ql, qr): (Address, Address) = q.into();
        assert!(pl == ql && pr == qr);
        assert!(pl.id < pr.id);
        assert!((pl == a && pr == b) || (pl == b && pr == a));
    }
}

/// C46 (binary serde path): a 32-byte id serializes through postcard to 33 bytes and
/// deserializes to itself, for all 2^256 ids; a wrong length prefix is rejected.
#[kani::proof]
#[kani::unwind(40)]
fn c46_cmd_id_postcard_roundtrip() {
    let bytes: [u8; 32] = kani::any();
    let id = CmdId::from_bytes(bytes);
    let mut buf = [0u8; 40];
    let used = match postcard::to_slice(&id, &mut buf) {
        Ok(u) => u.len(),
        Err(_) => panic!("serialize failed"),
    };
    assert!(used == 33 && buf[0] == 32);
    let back: Result<CmdId, _> = postcard::from_bytes(&buf[..used]);
    assert!(matches!(back, Ok(x) if x == id));
    let wrong: u8 = kani::any();
    kani::assume(wrong != 32 && wrong < 40);
    let mut bad = buf;
    bad[0] = wrong;
    let r2: Result<CmdId, _> = postcard::from_bytes(&bad);
    assert!(r2.is_err());
}
