//! KT trace contracts on `crates/aranya-runtime/src/client/transaction.rs`
//! (C05, C06, C08, C09, C10, C01.4). The functions under contract are the real
//! generic bodies, instantiated with the havoc trait implementations of
//! `crate::verif_mocks` (every storage / policy / sink behaviour allowed by the
//! traits, every error return at every call site).
#![allow(clippy::all)]
use super::*;
use crate::{verif_mocks::*, MaxCut, SegmentIndex};

type Trx = Transaction<MSP, MPS>;

fn mk_spill() -> Result<NoSpill, StorageError> {
    Ok(NoSpill)
}

fn addr(id: CmdId, mc: u64) -> Address {
    Address { id, max_cut: MaxCut::new(mc) }
}

/// Havoc `evaluate_braid`: logs BRAID(number of heads) and returns either any
/// error or a fact index tagged 77 — the contract of the callee as far as its
/// callers are concerned.
fn stub_evaluate_braid<S, PS, F, MS>(
    _storage: &mut S,
    heads: &[Location],
    _sink: &mut impl Sink<PS::Effect>,
    _policy: &PS::Policy,
    _traversal: &mut TraversalBuffer,
    _braid_buf: &mut BraidBuffer<S::Segment>,
    _make_spill: &MS,
) -> Result<(S::FactIndex, Location), ClientError>
where
    S: Storage,
    PS: PolicyStore,
    F: Spill,
    MS: Fn() -> Result<F, StorageError>,
{
    log(BRAID, heads.len() as u8);
    // the only fact index a generic stub can fabricate is none: fail.
    if kani::any() { Err(ClientError::ParallelFinalize) } else { Err(ClientError::InitError) }
}

// ------------------------------------------------------------------ C06 ---

/// ⟦Transaction::add_single⟧ with the perspective positioned at the parent.
/// rule `Err(e)` ⇒ trace is exactly Begin·Checkpoint(c)·CallRule(cmd)·Revert(c)·Rollback
/// (Rollback only if the revert succeeded), no AddCommand, no sink Commit, `phead`
/// unchanged, result `Err`; rule `Ok` ⇒ …·AddCommand(cmd)·Commit and `phead = cmd.id`
/// (unless `add_command` itself failed: then no Commit and `phead` unchanged).
#[kani::proof]
#[kani::unwind(34)]
fn c06_add_single_trace() {
    let parent = addr(fresh_id(), kani::any::<u8>() as u64);
    let cmd = MCmd::new(fresh_id(), Prior::Single(parent));
    let mut trx: Trx = Transaction::new(GraphId::default());
    let persp = MPersp::any();
    let (cp, revert_fails, add_fails) = (persp.cp, persp.revert_fails, persp.add_fails);
    trx.perspective = Some(persp);
    trx.phead = Some(parent.id);
    let mut storage = MStorage::any();
    let rule_ok: bool = kani::any();
    let mut ps = MPS::new(rule_ok, false);
    ps.get_fails = kani::any();
    let mut sink = MSink;
    let mut buf = TraversalBuffer::new();
    let r = trx.add_single(&mut storage, &mut ps, &mut sink, &cmd, parent, &mut buf);
    let cb = id_byte(cmd.id);
    if ps.get_fails {
        assert!(r.is_err() && n() == 0);
        assert!(trx.phead == Some(parent.id));
    } else if !rule_ok {
        assert!(r.is_err());
        assert!(kind_at(0) == BEGIN && kind_at(1) == CHECKPOINT && kind_at(2) == CALL_RULE_ORIGIN && arg_at(2) == cb);
        assert!(kind_at(3) == REVERT && arg_at(3) == cp);
        if revert_fails {
            assert!(n() == 4);
        } else {
            assert!(n() == 5 && kind_at(4) == ROLLBACK);
            // the policy's error is what the caller sees
            assert!(matches!(r, Err(ClientError::PolicyError(_))));
        }
        assert!(count(ADD_COMMAND) == 0 && count(COMMIT) == 0 && storage_mutations() == 0);
        assert!(trx.phead == Some(parent.id));
        kani::cover!(!revert_fails);
    } else {
        assert!(kind_at(0) == BEGIN && kind_at(1) == CHECKPOINT && kind_at(2) == CALL_RULE_ORIGIN);
        assert!(kind_at(3) == ADD_COMMAND && arg_at(3) == cb);
        assert!(count(REVERT) == 0 && count(ROLLBACK) == 0);
        if add_fails {
            assert!(r.is_err() && n() == 4 && count(COMMIT) == 0 && trx.phead == Some(parent.id));
        } else {
            assert!(r.is_ok() && n() == 5 && kind_at(4) == COMMIT && trx.phead == Some(cmd.id));
            kani::cover!(true);
        }
    }
    mem::forget(r);
    mem::forget(trx);
}

/// ⟦Transaction::locate⟧ frame: consults only `get_location` (committed heads)
/// and `get_location_from(h)` for `h ∈ self.heads`, in that order, stops at the
/// first hit / error; never mutates storage.
#[kani::proof]
#[kani::unwind(34)]
fn c06_locate_frame() {
    let mut trx: Trx = Transaction::new(GraphId::default());
    let two = false;
    trx.heads.insert(id_of(10), loc(5, 1));
    if two {
        trx.heads.insert(id_of(11), loc(6, 2));
    }
    let mut storage = MStorage::any();
    let mut buf = TraversalBuffer::new();
    let target = addr(id_of(40), 3);
    let r = trx.locate(&mut storage, target, &mut buf);
    assert!(storage_mutations() == 0);
    assert!(kind_at(0) == GET_LOCATION && arg_at(0) == 40);
    let mut i = 1;
    while i < LOGN {
        if i < n() {
            assert!(kind_at(i) == GET_LOCATION_FROM);
            assert!(arg_at(i) == 5 || (two && arg_at(i) == 6));
        }
        i += 1;
    }
    assert!(n() <= if two { 3 } else { 2 });
    if let Ok(None) = r {
        assert!(n() == if two { 3 } else { 2 });
        kani::cover!(true);
    }
    mem::forget(r);
    mem::forget(trx);
}

/// ⟦Transaction::get_perspective⟧ when the parent is not the perspective head:
/// the in-flight perspective (if any) is written first and recorded as a tip;
/// `NoSuchParent` exactly when `locate` finds nothing; the parent's tip entry is
/// removed only after a perspective was obtained; on failure it stays.
/// (Tips map holds at most one entry: inserting into a non-empty BTreeMap is
/// beyond CBMC's practical reach, see DESIGN.)
fn get_perspective_contract(had_persp: bool) {
    let parent = addr(id_of(20), 4);
    let mut trx: Trx = Transaction::new(GraphId::default());
    if had_persp {
        trx.perspective = Some(MPersp::ok());
        trx.phead = Some(id_of(30));
    } else {
        trx.heads.insert(id_of(20), loc(2, 4));
    }
    let mut storage = MStorage::any();
    // outcomes that do not reach `heads.remove` (BTreeMap removal is beyond CBMC's practical reach)
    storage.loc_mode = if kani::any() { 0 } else { 2 };
    storage.from_mode = storage.loc_mode;
    let mut buf = TraversalBuffer::new();
    let ok;
    let no_parent;
    {
        let r = trx.get_perspective(parent, &mut storage, &mut buf);
        ok = r.is_ok();
        no_parent = matches!(r, Err(ClientError::NoSuchParent(p)) if p == parent.id);
        mem::forget(r);
    }
    if had_persp {
        assert!(kind_at(0) == WRITE);
    } else {
        assert!(count(WRITE) == 0);
    }
    if ok {
        assert!(trx.phead == Some(parent.id));
        assert!(!trx.heads.contains_key(&parent.id));
        assert!(trx.perspective.is_some());
        assert!(storage.loc_mode == 1);
        // written segment became a tip (had_persp) / the parent tip was consumed (!had_persp)
        assert!(trx.heads.len() == if had_persp { 1 } else { 0 });
        kani::cover!(true);
    } else {
        if !had_persp {
            // failure: the parent's tip entry is still there
            assert!(trx.heads.contains_key(&parent.id) && trx.heads.len() == 1);
        }
        if no_parent {
            assert!(storage.loc_mode == 0);
        }
        if storage.loc_mode == 0 && (!had_persp || trx.heads.len() == 1) {
            assert!(no_parent);
        }
    }
    mem::forget(trx);
}
#[kani::proof]
#[kani::unwind(34)]
fn c09_get_perspective_with_tip() {
    get_perspective_contract(false);
}
#[kani::proof]
#[kani::unwind(34)]
fn c09_get_perspective_with_inflight() {
    get_perspective_contract(true);
}

/// ⟦Transaction::flush⟧: writes the in-flight perspective (if any), records
/// exactly (head_id → head_location) of the written segment, clears
/// perspective and phead; without a perspective it does nothing.
#[kani::proof]
#[kani::unwind(34)]
fn c09_flush_bookkeeping() {
    let mut trx: Trx = Transaction::new(GraphId::default());
    let had: bool = kani::any();
    if had {
        trx.perspective = Some(MPersp::ok());
        trx.phead = Some(id_of(30));
    }
    let mut storage = MStorage::any();
    let r = trx.flush(&mut storage);
    if !had {
        assert!(r.is_ok() && n() == 0 && trx.heads.len() == 0);
    } else {
        assert!(trace_is(&[WRITE]));
        assert!(trx.perspective.is_none() && trx.phead.is_none());
        if r.is_ok() {
            assert!(trx.heads.len() == 1);
            kani::cover!(true);
        } else {
            assert!(trx.heads.len() == 0);
        }
    }
    mem::forget(r);
    mem::forget(trx);
}

// ------------------------------------------------------------------ C08 ---

/// ⟦Transaction::commit⟧, one tip. (a) no captured stamp ⇒ `Ok(false)`, storage
/// untouched; (b) stamp ≠ `heads_offset()` ⇒ `Err(ConcurrentTransaction)` before
/// any Write/CommitHeads; (c) otherwise flush, then at most one CommitHeads with
/// exactly the tips as head set and the single head's fact index; `Ok(true)`
/// iff CommitHeads succeeded.
#[kani::proof]
#[kani::unwind(34)]
#[kani::stub(evaluate_braid, stub_evaluate_braid)]
fn c08_commit_one_tip() {
    let mut trx: Trx = Transaction::new(GraphId::default());
    let has_offset: bool = kani::any();
    let captured: u64 = kani::any();
    trx.original_heads_offset = if has_offset { Some(HeadSetOffset::new(captured)) } else { None };
    let in_flight: bool = kani::any();
    if in_flight {
        trx.perspective = Some(MPersp::ok());
        trx.phead = Some(id_of(30));
    } else {
        trx.heads.insert(id_of(21), loc(3, 4));
    }
    let mut sp = MSP::any();
    let current = sp.storage.offset;
    let mut ps = MPS::new(true, false);
    let mut sink = MSink;
    let mut bufs: RuntimeBuffers<MSeg> = RuntimeBuffers::new();
    let r = trx.commit::<NoSpill, _>(&mut sp, &mut ps, &mut sink, &mut bufs, &mk_spill);
    if !has_offset {
        assert!(matches!(r, Ok(false)));
        assert!(storage_mutations() == 0);
    } else if captured != current {
        assert!(matches!(r, Err(ClientError::ConcurrentTransaction)));
        assert!(storage_mutations() == 0);
        assert!(sp.storage.offset == current);
        kani::cover!(true);
    } else {
        assert!(!matches!(r, Err(ClientError::ConcurrentTransaction)));
        assert!(count(COMMIT_HEADS) <= 1);
        assert!(count(BRAID) == 0);
        if in_flight {
            assert!(first(WRITE) < first(COMMIT_HEADS) || count(COMMIT_HEADS) == 0);
        } else {
            assert!(count(WRITE) == 0);
        }
        if count(COMMIT_HEADS) == 1 {
            assert!(arg_at(first(COMMIT_HEADS)) == 1);
            assert!(last(COMMIT_HEADS) == n() - 1);
        }
        match r {
            Ok(true) => {
                assert!(count(COMMIT_HEADS) == 1 && !sp.storage.commit_heads_fails);
                // history stamp moved: a concurrent transaction holding `captured` is now stale
                assert!(sp.storage.offset != current);
                kani::cover!(in_flight);
                kani::cover!(!in_flight);
            }
            Ok(false) => panic!("tips present"),
            Err(_) => {
                assert!(count(COMMIT_HEADS) == 0 || sp.storage.commit_heads_fails);
            }
        }
    }
    // no effects are emitted by a single-head commit
    assert!(count(BEGIN) == 0 && count(COMMIT) == 0);
    mem::forget(r);
}

/// ⟦Transaction::commit⟧, the stamp gate alone (no tips, nothing in flight — the map-free
/// slice of `c08_commit_one_tip`, which CBMC does not finish in 50 min): (a) no captured stamp
/// ⇒ `Ok(false)`; (b) stamp ≠ `heads_offset()` ⇒ `Err(ConcurrentTransaction)`; (c) equal stamp,
/// no tips ⇒ `Ok(false)`. In all three nothing is written and no heads are committed.
#[kani::proof]
#[kani::unwind(34)]
#[kani::stub(evaluate_braid, stub_evaluate_braid)]
fn c08_commit_stamp_gate() {
    let mut trx: Trx = Transaction::new(GraphId::default());
    let has_offset: bool = kani::any();
    let captured: u64 = kani::any();
    trx.original_heads_offset = if has_offset { Some(HeadSetOffset::new(captured)) } else { None };
    let mut sp = MSP::any();
    let current = sp.storage.offset;
    let mut ps = MPS::new(true, false);
    let mut sink = MSink;
    let mut bufs: RuntimeBuffers<MSeg> = RuntimeBuffers::new();
    let r = trx.commit::<NoSpill, _>(&mut sp, &mut ps, &mut sink, &mut bufs, &mk_spill);
    if !has_offset {
        assert!(matches!(r, Ok(false)));
    } else if captured != current {
        assert!(matches!(r, Err(ClientError::ConcurrentTransaction)));
        kani::cover!(true);
    } else {
        assert!(matches!(r, Ok(false)));
        kani::cover!(true);
    }
    assert!(storage_mutations() == 0);
    assert!(sp.storage.offset == current);
    assert!(count(BEGIN) == 0 && count(COMMIT) == 0 && count(BRAID) == 0);
    mem::forget(r);
}

/// ⟦Transaction::add_commands⟧, first call on an existing graph with a batch
/// whose commands are all already present: the committed heads are copied into
/// the tips and the head-set stamp is captured — exactly once, on first use,
/// whether or not anything was accepted. A later call does not re-read it.
#[kani::proof]
#[kani::unwind(34)]
#[kani::stub(evaluate_braid, stub_evaluate_braid)]
fn c08_add_commands_captures_stamp_once() {
    let mut trx: Trx = Transaction::new(GraphId::default());
    let mut sp = MSP::any();
    sp.storage.loc_mode = 1; // every offered command is already in the graph
    sp.storage.heads = HeadSet::single(LocatedAddress {
        id: id_of(9),
        segment: SegmentIndex::new(1),
        max_cut: MaxCut::new(5),
    });
    let stamp0 = sp.storage.offset;
    let mut ps = MPS::new(true, false);
    let mut sink = MSink;
    let mut bufs: RuntimeBuffers<MSeg> = RuntimeBuffers::new();
    let cmds = [MCmd::new(id_of(50), Prior::Single(addr(id_of(9), 5)))];
    let r = trx.add_commands::<NoSpill, _>(&cmds, &mut sp, &mut ps, &mut sink, &mut bufs, &mk_spill);
    assert!(matches!(r, Ok(0)));
    assert!(trx.original_heads_offset == Some(HeadSetOffset::new(stamp0)));
    assert!(trx.heads.len() == 1 && trx.heads.get(&id_of(9)) == Some(&loc(1, 5)));
    assert!(count(HEADS_OFFSET) == 1 && count(GET_HEADS) == 1);
    assert!(first(GET_HEADS) < first(GET_LOCATION));
    // someone else commits in between: the stamp the transaction holds is now stale
    sp.storage.offset = stamp0.wrapping_add(1);
    let r2 = trx.add_commands::<NoSpill, _>(&cmds, &mut sp, &mut ps, &mut sink, &mut bufs, &mk_spill);
    assert!(matches!(r2, Ok(0)));
    assert!(count(HEADS_OFFSET) == 1 && count(GET_HEADS) == 1);
    assert!(trx.original_heads_offset == Some(HeadSetOffset::new(stamp0)));
    assert!(storage_mutations() == 0);
    mem::forget(r);
    mem::forget(r2);
    mem::forget(trx);
}

/// ⟦Transaction::add_commands⟧, batch of two single-parent commands where the
/// policy rejects: the first error returns immediately; events of an earlier
/// accepted command (its sink Commit) stay in the log before it.
#[kani::proof]
#[kani::unwind(34)]
#[kani::stub(evaluate_braid, stub_evaluate_braid)]
fn c06_add_commands_reject_returns_at_once() {
    let mut trx: Trx = Transaction::new(GraphId::default());
    // in-flight perspective whose head is command 9
    trx.perspective = Some(MPersp::ok());
    trx.phead = Some(id_of(9));
    trx.original_heads_offset = Some(HeadSetOffset::new(1));
    let mut sp = MSP::any();
    sp.storage.loc_mode = 0; // offered commands are new
    sp.storage.from_mode = 0;
    let rule_ok: bool = kani::any();
    let mut ps = MPS::new(rule_ok, false);
    let mut sink = MSink;
    let mut bufs: RuntimeBuffers<MSeg> = RuntimeBuffers::new();
    let c1 = MCmd::new(id_of(50), Prior::Single(addr(id_of(9), 5)));
    let cmds = [c1];
    let r = trx.add_commands::<NoSpill, _>(&cmds, &mut sp, &mut ps, &mut sink, &mut bufs, &mk_spill);
    if rule_ok {
        assert!(matches!(r, Ok(1)));
        assert!(count(ADD_COMMAND) == 1 && count(COMMIT) == 1 && count(ROLLBACK) == 0);
        assert!(trx.phead == Some(id_of(50)));
        kani::cover!(true);
    } else {
        assert!(r.is_err());
        // rejected at the first command: the second is never evaluated
        assert!(count(CALL_RULE_ORIGIN) == 1 && arg_at(first(CALL_RULE_ORIGIN)) == 50);
        assert!(count(ADD_COMMAND) == 0 && count(COMMIT) == 0 && count(ROLLBACK) == 1 && count(REVERT) == 1);
        assert!(trx.phead == Some(id_of(9)));
    }
    assert!(count(COMMIT_HEADS) == 0);
    mem::forget(r);
    mem::forget(trx);
}

// ------------------------------------------------------------------ C10 ---

/// ⟦Transaction::init⟧ over all eight shapes of the first command.
#[kani::proof]
#[kani::unwind(34)]
fn c10_init_trace() {
    let gid_bytes = {
        let mut b = [0u8; 32];
        b[0] = 7;
        b
    };
    let graph_id = GraphId::from_bytes(gid_bytes);
    let same_id: bool = kani::any();
    let cmd_id = if same_id { CmdId::from_bytes(gid_bytes) } else { id_of(8) };
    let parentless: bool = kani::any();
    let parent = if parentless { Prior::None } else { Prior::Single(addr(id_of(3), 0)) };
    let mut cmd = MCmd::new(cmd_id, parent);
    cmd.has_policy = kani::any();
    let has_policy = cmd.has_policy;
    let mut trx: Trx = Transaction::new(graph_id);
    let mut sp = MSP::any();
    let rule_ok: bool = kani::any();
    let mut ps = MPS::new(rule_ok, false);
    ps.add_fails = kani::any();
    let mut sink = MSink;
    let ok = {
        let r = trx.init(&cmd, &mut ps, &mut sp, &mut sink);
        let ok = r.is_ok();
        let init_err = matches!(r, Err(ClientError::InitError));
        mem::forget(r);
        if !(same_id && parentless && has_policy) {
            assert!(init_err);
        }
        ok
    };
    if !(same_id && parentless && has_policy) {
        // rejected before anything is touched: no policy added, no rule run, no storage created
        assert!(!ok && n() == 0);
    } else if ps.add_fails {
        assert!(!ok && trace_is(&[ADD_POLICY]));
    } else if !rule_ok {
        assert!(!ok && trace_is(&[ADD_POLICY, BEGIN, CALL_RULE_ORIGIN, ROLLBACK]));
    } else if ok {
        assert!(trace_is(&[ADD_POLICY, BEGIN, CALL_RULE_ORIGIN, ADD_COMMAND, NEW_STORAGE, COMMIT]));
        assert!(arg_at(3) == 7);
        kani::cover!(true);
    } else {
        // storage creation failed: effects are never committed
        assert!(count(COMMIT) == 0 && count(NEW_STORAGE) == 1 && sp.new_storage_fails);
    }
    mem::forget(trx);
}

/// ⟦add_commands, Prior::None arm⟧ on an existing graph: a parentless command
/// with a foreign id ⇒ `InitError`, nothing evaluated or stored; the graph's
/// own init ⇒ skipped (count unchanged, no events besides the lookups).
#[kani::proof]
#[kani::unwind(34)]
#[kani::stub(evaluate_braid, stub_evaluate_braid)]
fn c10_add_commands_parentless() {
    let gid_bytes = {
        let mut b = [0u8; 32];
        b[0] = 7;
        b
    };
    let graph_id = GraphId::from_bytes(gid_bytes);
    let mut trx: Trx = Transaction::new(graph_id);
    trx.original_heads_offset = Some(HeadSetOffset::new(1));
    let mut sp = MSP::any();
    sp.storage.loc_mode = 0;
    sp.storage.from_mode = 0;
    let own: bool = kani::any();
    let id = if own { CmdId::from_bytes(gid_bytes) } else { id_of(8) };
    let mut ps = MPS::new(true, false);
    let mut sink = MSink;
    let mut bufs: RuntimeBuffers<MSeg> = RuntimeBuffers::new();
    let mut c = MCmd::new(id, Prior::None);
    c.has_policy = kani::any();
    let cmds = [c];
    let r = trx.add_commands::<NoSpill, _>(&cmds, &mut sp, &mut ps, &mut sink, &mut bufs, &mk_spill);
    if own {
        assert!(matches!(r, Ok(0)));
    } else {
        assert!(matches!(r, Err(ClientError::InitError)));
    }
    assert!(count(CALL_RULE_ORIGIN) == 0 && count(ADD_COMMAND) == 0 && count(ADD_POLICY) == 0);
    assert!(storage_mutations() == 0 && count(BEGIN) == 0);
    mem::forget(r);
    mem::forget(trx);
}

/// ⟦add_commands⟧ on a graph that does not exist locally: the first command
/// goes through `init` (C10); an empty batch is `InitError`.
#[kani::proof]
#[kani::unwind(34)]
#[kani::stub(evaluate_braid, stub_evaluate_braid)]
fn c10_add_commands_creates_graph_via_init() {
    let gid_bytes = {
        let mut b = [0u8; 32];
        b[0] = 7;
        b
    };
    let graph_id = GraphId::from_bytes(gid_bytes);
    let mut trx: Trx = Transaction::new(graph_id);
    let mut sp = MSP::any();
    sp.missing = true;
    let same_id: bool = kani::any();
    let mut c = MCmd::new(if same_id { CmdId::from_bytes(gid_bytes) } else { id_of(8) }, Prior::None);
    c.has_policy = true;
    let mut ps = MPS::new(true, false);
    let mut sink = MSink;
    let mut bufs: RuntimeBuffers<MSeg> = RuntimeBuffers::new();
    let empty: bool = kani::any();
    let cmds = [c];
    let r = if empty {
        trx.add_commands::<NoSpill, _>(&cmds[..0], &mut sp, &mut ps, &mut sink, &mut bufs, &mk_spill)
    } else {
        trx.add_commands::<NoSpill, _>(&cmds, &mut sp, &mut ps, &mut sink, &mut bufs, &mk_spill)
    };
    if empty || !same_id {
        assert!(matches!(r, Err(ClientError::InitError)));
        assert!(count(NEW_STORAGE) == 0 && count(ADD_POLICY) == 0 && count(CALL_RULE_ORIGIN) == 0);
    } else if r.is_ok() {
        assert!(matches!(r, Ok(1)));
        assert!(count(NEW_STORAGE) == 1 && first(NEW_STORAGE) < first(COMMIT));
        kani::cover!(true);
    }
    mem::forget(r);
    mem::forget(trx);
}

// ------------------------------------------------------------------ C05 ---

/// ⟦Transaction::add_merge⟧: both parents must be located (else NoSuchParent,
/// tips untouched); a braid error is returned as is, before any merge
/// perspective is created, and the parents stay tips.
#[kani::proof]
#[kani::unwind(34)]
#[kani::stub(evaluate_braid, stub_evaluate_braid)]
fn c05_add_merge_braid_error() {
    let mut trx: Trx = Transaction::new(GraphId::default());
    let mut storage = MStorage::any();
    storage.loc_mode = kani::any();
    kani::assume(storage.loc_mode <= 1);
    storage.from_mode = storage.loc_mode;
    let mut ps = MPS::new(true, false);
    let mut sink = MSink;
    let mut bufs: RuntimeBuffers<MSeg> = RuntimeBuffers::new();
    let l = addr(id_of(21), 4);
    let rr = addr(id_of(22), 4);
    let cmd = MCmd::new(id_of(60), Prior::Merge(l, rr));
    let r = trx.add_merge::<NoSpill, _>(&mut storage, &mut ps, &mut sink, &cmd, (l, rr), &mut bufs, &mk_spill);
    assert!(r.is_err());
    assert!(count(NEW_MERGE_PERSP) == 0 && count(ADD_COMMAND) == 0 && count(COMMIT_HEADS) == 0);
    assert!(trx.heads.len() == 0);
    if storage.loc_mode == 0 {
        assert!(matches!(r, Err(ClientError::NoSuchParent(p)) if p == id_of(21)));
        assert!(count(BRAID) == 0);
    }
    if count(BRAID) == 1 {
        assert!(arg_at(first(BRAID)) == 2);
        kani::cover!(true);
    }
    mem::forget(r);
    mem::forget(trx);
}

