//! KI contracts on `crates/aranya-runtime/src/client/convergence_map.rs` (C02: spill codecs).
#![allow(clippy::all)]
use super::*;
use crate::SegmentIndex;

/// ⟦Entry::to_bytes / from_bytes⟧ are inverse for every (segment, max_cut, count) — complete.
#[kani::proof]
fn c02_entry_codec_roundtrip() {
    let e = Entry {
        location: Location::new(SegmentIndex::new(kani::any()), MaxCut::new(kani::any())),
        count: kani::any(),
    };
    let b = e.to_bytes();
    let back = Entry::from_bytes(&b);
    assert!(back.location == e.location && back.count == e.count);
    let raw: [u8; ENTRY_BYTES] = kani::any();
    assert!(Entry::from_bytes(&raw).to_bytes() == raw);
}

/// ⟦Block::to_bytes / load_from_bytes⟧ round trip for a block of N entries: same entries in the
/// same order, min/max max-cut bounds recomputed correctly.
fn block_roundtrip<const N: usize>() {
    let mut blk = Block::new();
    let mut es = [Entry { location: Location::new(SegmentIndex::new(0), MaxCut::new(0)), count: 0 }; N];
    let mut i = 0;
    while i < N {
        es[i] = Entry {
            location: Location::new(SegmentIndex::new(kani::any()), MaxCut::new(kani::any())),
            count: kani::any(),
        };
        blk.insert(es[i]);
        i += 1;
    }
    let bytes = match blk.to_bytes() {
        Ok(b) => b,
        Err(_) => panic!("Bug reachable"),
    };
    let back = match Block::load_from_bytes(&bytes, N) {
        Ok(b) => b,
        Err(_) => panic!("Bug reachable"),
    };
    assert!(back.entries.len() == N);
    let mut i = 0;
    while i < N {
        assert!(back.entries[i].location == es[i].location && back.entries[i].count == es[i].count);
        assert!(back.min_max_cut <= es[i].location.max_cut && es[i].location.max_cut <= back.max_max_cut);
        assert!(back.find(es[i].location).is_some());
        i += 1;
    }
    assert!(back.min_max_cut == blk.min_max_cut && back.max_max_cut == blk.max_max_cut);
    core::mem::forget(blk);
    core::mem::forget(back);
}
#[kani::proof]
#[kani::unwind(5)]
fn c02_block_codec_roundtrip_n2() {
    block_roundtrip::<2>();
}
#[kani::proof]
#[kani::unwind(6)]
fn c02_block_codec_roundtrip_n3() {
    block_roundtrip::<3>();
}
