//! C32 — validators, constructors and representation-independence of
//! `Text` / `Identifier` / `Repr` (crates/aranya-policy-text).
//! Loaded by the hook line at the end of `src/ident.rs`.
#![allow(clippy::all)]
use core::str::FromStr;

use super::*;
use crate::repr::Repr;

fn spec_ident(b: &[u8]) -> bool {
    if b.is_empty() {
        return false;
    }
    let mut i = 0;
    while i < b.len() {
        let c = b[i];
        let alpha = (c >= b'a' && c <= b'z') || (c >= b'A' && c <= b'Z');
        let ok = if i == 0 { alpha } else { alpha || (c >= b'0' && c <= b'9') || c == b'_' };
        if !ok {
            return false;
        }
        i += 1;
    }
    true
}
fn has_nul(b: &[u8]) -> bool {
    let mut j = 0;
    while j < b.len() {
        if b[j] == 0 {
            return true;
        }
        j += 1;
    }
    false
}
fn ascii<const N: usize>() -> [u8; N] {
    let a: [u8; N] = kani::any();
    let mut i = 0;
    while i < N {
        kani::assume(a[i] < 128);
        i += 1;
    }
    a
}

/// ⟦Identifier::validate⟧ / ⟦Text::validate⟧ against their specifications, all ASCII strings of length LEN.
fn validate_contract<const LEN: usize>() {
    let arr: [u8; LEN] = ascii();
    let s = unsafe { core::str::from_utf8_unchecked(&arr) };
    let r = Identifier::validate(s);
    assert!(r.is_ok() == spec_ident(&arr));
    let t = Text::validate(s);
    assert!(t.is_ok() == !has_nul(&arr));
    if r.is_ok() {
        assert!(t.is_ok());
    }
    core::mem::forget(r);
    core::mem::forget(t);
}
#[kani::proof]
#[kani::unwind(8)]
fn c32_validate_len0() {
    validate_contract::<0>();
}
#[kani::proof]
#[kani::unwind(8)]
fn c32_validate_len1() {
    validate_contract::<1>();
}
#[kani::proof]
#[kani::unwind(8)]
fn c32_validate_len4() {
    validate_contract::<4>();
}
#[kani::proof]
#[kani::unwind(10)]
fn c32_validate_len6() {
    validate_contract::<6>();
}

/// Every fallible constructor establishes the invariant: `Ok(v)` ⇒ `v.as_str()` is the
/// input and satisfies the validator's specification.
fn ctor_contract<const LEN: usize>() {
    let arr: [u8; LEN] = ascii();
    let s = unsafe { core::str::from_utf8_unchecked(&arr) };
    match Text::from_str(s) {
        Ok(t) => {
            assert!(!has_nul(&arr));
            assert!(t.as_str().as_bytes() == &arr[..]);
            // Text -> Identifier keeps the invariant of the target type
            match Identifier::try_from(t) {
                Ok(i) => assert!(spec_ident(&arr) && i.as_str().as_bytes() == &arr[..]),
                Err(_) => assert!(!spec_ident(&arr)),
            }
        }
        Err(_) => assert!(has_nul(&arr)),
    }
    match Identifier::from_str(s) {
        Ok(i) => {
            assert!(spec_ident(&arr));
            assert!(i.as_str().as_bytes() == &arr[..]);
        }
        Err(_) => assert!(!spec_ident(&arr)),
    }
}
#[kani::proof]
#[kani::unwind(8)]
fn c32_ctor_len3() {
    ctor_contract::<3>();
}

/// ⟦Repr::from_str(s).as_str() = s⟧ for a string of exactly LEN bytes (the inline/heap
/// switch is at MAX_INLINE = 22), plus clone / drop of the heap representation
/// (CBMC pointer checks cover the `unsafe` in `as_str` and `ArcStr`, sequentially).
fn repr_roundtrip<const LEN: usize>() {
    let arr: [u8; LEN] = ascii();
    let s = unsafe { core::str::from_utf8_unchecked(&arr) };
    let r = Repr::from_str(s);
    assert!(matches!(r, Repr::Heap(_)) == (LEN > 22));
    let back = r.as_str().as_bytes();
    assert!(back.len() == LEN);
    let mut k = 0;
    while k < LEN {
        assert!(back[k] == arr[k]);
        k += 1;
    }
    let c = r.clone();
    drop(r);
    assert!(c.as_str().len() == LEN);
    if LEN > 0 {
        assert!(c.as_str().as_bytes()[LEN - 1] == arr[LEN - 1]);
    }
    drop(c);
}
#[kani::proof]
#[kani::unwind(30)]
fn c32_repr_roundtrip_len00() {
    repr_roundtrip::<0>();
}
#[kani::proof]
#[kani::unwind(30)]
fn c32_repr_roundtrip_len22() {
    repr_roundtrip::<22>();
}
#[kani::proof]
#[kani::unwind(30)]
fn c32_repr_roundtrip_len23() {
    repr_roundtrip::<23>();
}

/// Equality and ordering depend only on the content, not on the representation:
/// the same / different strings held as Static, Inline and Heap compare as their `str`s do.
#[kani::proof]
#[kani::unwind(30)]
fn c32_repr_eq_ord_by_content() {
    const A: &str = "abcdefghijklmnopqrstuvwxyz"; // 26 bytes: heap when built with from_str
    let stat = Repr::from_static(A);
    let heap = Repr::from_str(A);
    assert!(matches!(heap, Repr::Heap(_)) && matches!(stat, Repr::Static(_)));
    assert!(stat == heap && stat.cmp(&heap) == core::cmp::Ordering::Equal);
    // short symbolic strings: Static vs Inline
    let x: [u8; 3] = ascii();
    let y: [u8; 3] = ascii();
    let (sx, sy) = unsafe { (core::str::from_utf8_unchecked(&x), core::str::from_utf8_unchecked(&y)) };
    let ix = Repr::from_str(sx);
    let iy = Repr::from_str(sy);
    assert!((ix == iy) == (x == y));
    assert!(ix.cmp(&iy) == x.cmp(&y));
    let e1 = Repr::empty();
    let e2 = Repr::from_str("");
    assert!(e1 == e2 && matches!(e2, Repr::Inline { .. }));
    drop(heap);
}

/// Representation dimension of the constructors: a `Text` held in the STATIC representation
/// (literals, `Text::new()`) converts to an `Identifier` exactly when its content is an identifier —
/// the same answer as for the same content held inline.
#[kani::proof]
#[kani::unwind(12)]
fn c32_static_text_to_identifier() {
    const CASES: [&str; 7] = ["", "9lives", "_x", "a b", "a1_B", "Z", "a-b"];
    let mut i = 0;
    while i < CASES.len() {
        let s = CASES[i];
        // SAFETY: none of the literals contains a NUL byte.
        let stat = unsafe { Text::__from_literal(s) };
        assert!(matches!(stat.0, Repr::Static(_)));
        let want = spec_ident(s.as_bytes());
        let got_static = Identifier::try_from(stat).is_ok();
        let got_inline = match Text::from_str(s) {
            Ok(t) => Identifier::try_from(t).is_ok(),
            Err(_) => panic!("valid text rejected"),
        };
        assert!(got_static == want && got_inline == want);
        i += 1;
    }
    match Identifier::try_from(Text::new()) {
        Ok(_) => panic!("empty identifier"),
        Err(_) => {}
    }
}
