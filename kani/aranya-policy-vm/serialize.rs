//! C26 — `serialize_value` / `deserialize_value` (crates/aranya-policy-vm/src/serialize.rs)
//! for the scalar and one-level kinds. Strings, bytes, nested structs and
//! `deserialize_struct` (BTreeMap of fields) are not covered (see the property spec).
#![allow(clippy::all)]
extern crate alloc;
use alloc::{boxed::Box, vec::Vec};

use aranya_policy_module::{ResultTypeKind, TypeKind};

use super::*;

fn ctx<'a>(sd: &'a StructDefs, ed: &'a EnumDefs, bytes: &'a [u8]) -> DeserializeCtx<'a> {
    DeserializeCtx { struct_defs: sd, enum_defs: ed, bytes }
}

/// Arbitrary bytes as an Int: never panics; `Ok` consumes a non-empty prefix; an empty
/// input is `UnexpectedEnd`. Input: any ≤ 11 bytes.
#[kani::proof]
#[kani::unwind(13)]
fn c26_deser_int_any_bytes() {
    let sd = StructDefs::new();
    let ed = EnumDefs::new();
    let buf: [u8; 11] = kani::any();
    let n: usize = kani::any();
    kani::assume(n <= 11);
    let mut c = ctx(&sd, &ed, &buf[..n]);
    let r = c.deserialize_value(&TypeKind::Int);
    match &r {
        Ok(Value::Int(_)) => assert!(c.bytes.len() < n),
        Ok(_) => panic!("wrong kind"),
        Err(e) => {
            if n == 0 {
                assert!(matches!(e, DeserializeError::UnexpectedEnd));
            }
        }
    }
    core::mem::forget(r);
}

/// serialize ∘ deserialize = id for every i64; the whole encoding is consumed.
#[kani::proof]
#[kani::unwind(13)]
fn c26_roundtrip_int() {
    let sd = StructDefs::new();
    let ed = EnumDefs::new();
    let x: i64 = kani::any();
    let mut s = SerializeCtx { struct_defs: &sd, out: Vec::with_capacity(16) };
    let v = Value::Int(x);
    let r = s.serialize_value(&v);
    assert!(r.is_ok());
    let out = core::mem::take(&mut s.out);
    assert!(out.len() >= 1 && out.len() <= 10);
    let mut c = ctx(&sd, &ed, &out);
    let d = c.deserialize_value(&TypeKind::Int);
    assert!(matches!(d, Ok(Value::Int(y)) if y == x));
    assert!(c.bytes.is_empty());
    core::mem::forget(d);
    core::mem::forget(v);
    core::mem::forget(out);
    core::mem::forget(s);
}

/// Bool: round trip; any byte other than 0/1 is rejected.
#[kani::proof]
#[kani::unwind(13)]
fn c26_bool_roundtrip_and_reject() {
    let sd = StructDefs::new();
    let ed = EnumDefs::new();
    let b: u8 = kani::any();
    let buf = [b];
    let mut c = ctx(&sd, &ed, &buf);
    let r = c.deserialize_value(&TypeKind::Bool);
    match &r {
        Ok(Value::Bool(x)) => assert!(b <= 1 && *x == (b == 1)),
        Ok(_) => panic!("wrong kind"),
        Err(_) => assert!(b > 1),
    }
    core::mem::forget(r);
}

/// Option tags: 0 → None, 1 → Some(inner), anything else → BadInput; truncated → UnexpectedEnd.
#[kani::proof]
#[kani::unwind(13)]
fn c26_option_tags() {
    let sd = StructDefs::new();
    let ed = EnumDefs::new();
    let buf: [u8; 3] = kani::any();
    let n: usize = kani::any();
    kani::assume(n <= 3);
    let mut c = ctx(&sd, &ed, &buf[..n]);
    let k = TypeKind::Optional(Box::new(TypeKind::Bool));
    let r = c.deserialize_value(&k);
    if n == 0 {
        assert!(matches!(r, Err(DeserializeError::UnexpectedEnd)));
    } else if buf[0] > 1 {
        assert!(matches!(r, Err(DeserializeError::BadInput)));
    } else if buf[0] == 0 {
        assert!(matches!(r, Ok(Value::Option(None))));
        assert!(c.bytes.len() == n - 1);
    } else if n == 1 {
        assert!(matches!(r, Err(DeserializeError::UnexpectedEnd)));
    } else {
        match &r {
            Ok(Value::Option(Some(inner))) => assert!(buf[1] <= 1 && matches!(**inner, Value::Bool(x) if x == (buf[1] == 1))),
            Ok(_) => panic!("wrong shape"),
            Err(_) => assert!(buf[1] > 1),
        }
    }
    core::mem::forget(r);
    core::mem::forget(k);
}

/// Result tags: 0 → Ok(inner), 1 → Err(inner), anything else → BadInput.
#[kani::proof]
#[kani::unwind(13)]
fn c26_result_tags() {
    let sd = StructDefs::new();
    let ed = EnumDefs::new();
    let buf: [u8; 2] = kani::any();
    let mut c = ctx(&sd, &ed, &buf);
    let k = TypeKind::Result(Box::new(ResultTypeKind { ok: TypeKind::Bool, err: TypeKind::Unit }));
    let r = c.deserialize_value(&k);
    if buf[0] > 1 {
        assert!(matches!(r, Err(DeserializeError::BadInput)));
    } else if buf[0] == 1 {
        assert!(matches!(&r, Ok(Value::Result(Err(e))) if matches!(**e, Value::Unit)));
        assert!(c.bytes.len() == 1);
    } else {
        match &r {
            Ok(Value::Result(Ok(inner))) => assert!(buf[1] <= 1 && matches!(**inner, Value::Bool(x) if x == (buf[1] == 1))),
            Ok(_) => panic!("wrong shape"),
            Err(_) => assert!(buf[1] > 1),
        }
    }
    core::mem::forget(r);
    core::mem::forget(k);
}

/// Id: the length byte must be 32 and 32 bytes must follow; the id is exactly those bytes.
#[kani::proof]
#[kani::unwind(40)]
fn c26_id_length_and_roundtrip() {
    let sd = StructDefs::new();
    let ed = EnumDefs::new();
    let buf: [u8; 34] = kani::any();
    let n: usize = kani::any();
    kani::assume(n <= 34);
    let mut c = ctx(&sd, &ed, &buf[..n]);
    let r = c.deserialize_value(&TypeKind::Id);
    if n == 0 {
        assert!(matches!(r, Err(DeserializeError::UnexpectedEnd)));
    } else if buf[0] != 32 {
        assert!(matches!(r, Err(DeserializeError::BadInput)));
    } else if n < 33 {
        assert!(matches!(r, Err(DeserializeError::UnexpectedEnd)));
    } else {
        match &r {
            Ok(Value::Id(id)) => {
                assert!(id.as_bytes() == &buf[1..33]);
                assert!(c.bytes.len() == n - 33);
                // and it serializes back to the same 33 bytes
                let mut s = SerializeCtx { struct_defs: &sd, out: Vec::with_capacity(40) };
                let v = Value::Id(*id);
                assert!(s.serialize_value(&v).is_ok());
                assert!(s.out[..] == buf[..33]);
                core::mem::forget(v);
                core::mem::forget(s);
            }
            _ => panic!("valid id rejected"),
        }
    }
    core::mem::forget(r);
}

/// Unit consumes nothing; Never is always rejected.
#[kani::proof]
#[kani::unwind(13)]
fn c26_unit_and_never() {
    let sd = StructDefs::new();
    let ed = EnumDefs::new();
    let buf: [u8; 2] = kani::any();
    let mut c = ctx(&sd, &ed, &buf);
    let r = c.deserialize_value(&TypeKind::Unit);
    assert!(matches!(r, Ok(Value::Unit)) && c.bytes.len() == 2);
    let r2 = c.deserialize_value(&TypeKind::Never);
    assert!(matches!(r2, Err(DeserializeError::BadInput)));
    core::mem::forget(r);
    core::mem::forget(r2);
}

/// Enum values: only values listed in the definition are accepted, whatever the bytes
/// (definition with the two variants A = 0, B = 1; any input of ≤ 11 bytes).
#[kani::proof]
#[kani::unwind(13)]
fn c26_enum_membership() {
    use aranya_policy_module::EnumDef;
    let sd = StructDefs::new();
    let mut ed = EnumDefs::new();
    let mut variants = Vec::with_capacity(2);
    variants.push((crate::ident!("A"), 0i64));
    variants.push((crate::ident!("B"), 1i64));
    ed.insert(EnumDef { name: crate::ident!("E"), variants });
    let buf: [u8; 11] = kani::any();
    let n: usize = kani::any();
    kani::assume(n <= 11);
    let mut c = ctx(&sd, &ed, &buf[..n]);
    let k = TypeKind::Enum(crate::ident!("E"));
    let r = c.deserialize_value(&k);
    match &r {
        Ok(Value::Enum(_, x)) => assert!(*x == 0 || *x == 1),
        Ok(_) => panic!("wrong kind"),
        Err(_) => {}
    }
    // the two valid one-byte encodings (zigzag 0 and 1) are accepted
    if n == 1 && (buf[0] == 0 || buf[0] == 2) {
        assert!(r.is_ok());
    }
    kani::cover!(r.is_ok());
    core::mem::forget(r);
    core::mem::forget(k);
    core::mem::forget(ed);
}
