//! C25 — `RunState::step` never unwinds (per opcode, minimal run state).
//! Loaded by the hook line at the end of `crates/aranya-policy-vm/src/machine.rs`.
extern crate alloc;
use alloc::{string::String, vec};

use aranya_crypto::policy::CmdId;

use super::*;
use crate::*;

struct NoIo;
impl<S: Stack> MachineIO<S> for NoIo {
    type QueryIterator = core::iter::Empty<Result<(FactKeyList, FactValueList), MachineIOError>>;
    fn fact_insert(
        &mut self,
        _n: Identifier,
        _k: impl IntoIterator<Item = FactKey>,
        _v: impl IntoIterator<Item = FactValue>,
    ) -> Result<(), MachineIOError> {
        Err(MachineIOError::Internal)
    }
    fn fact_delete(&mut self, _n: Identifier, _k: impl IntoIterator<Item = FactKey>) -> Result<(), MachineIOError> {
        Err(MachineIOError::Internal)
    }
    fn fact_query(
        &self,
        _n: Identifier,
        _k: impl IntoIterator<Item = FactKey>,
    ) -> Result<Self::QueryIterator, MachineIOError> {
        Err(MachineIOError::Internal)
    }
    fn effect(&mut self, _n: Identifier, _f: impl IntoIterator<Item = KVPair>, _c: CmdId, _r: bool) {}
    fn call(&self, _m: usize, _p: usize, _s: &mut S, _c: &CommandContext) -> Result<(), MachineError> {
        Err(MachineError::new(MachineErrorType::Unknown(String::new())))
    }
}

fn nofmt(_args: fmt::Arguments<'_>) -> String {
    String::new()
}

/// One `step` of a one-instruction program on an empty stack: returns
/// (never unwinds). `Ok`/`Err` both acceptable; results are forgotten to keep
/// drop glue of `Value` out of the formula.
fn step_once(i: Instruction) -> bool {
    let machine = Machine::new(vec![i]);
    let mut io = NoIo;
    let ctx = CommandContext::Action(ActionContext {
        name: ident!("a"),
        head_id: CmdId::default(),
    });
    let mut rs = machine.create_run_state(&mut io, ctx);
    let r = rs.step();
    let ok = r.is_ok();
    core::mem::forget(r);
    core::mem::forget(rs);
    core::mem::forget(machine);
    ok
}

macro_rules! op {
    ($name:ident, $ins:expr, $ok:expr) => {
        #[kani::proof]
        #[kani::unwind(4)]
        #[kani::stub(alloc::fmt::format, nofmt)]
        fn $name() {
            let ok = step_once($ins);
            let want: Option<bool> = $ok;
            if let Some(w) = want {
                assert!(ok == w);
            }
        }
    };
}
// the two variants that were `todo!()`
op!(c25_step_next, Instruction::Next, Some(false));
op!(c25_step_last, Instruction::Last, Some(false));
// opcodes that fail on an empty stack / without context: must be an error, not a panic
op!(c25_step_pop_empty, Instruction::Pop, Some(true));
op!(c25_step_dup_empty, Instruction::Dup, Some(false));
op!(c25_step_restoresp_empty, Instruction::RestoreSP, Some(false));
op!(c25_step_end_noblock, Instruction::End, None);
op!(c25_step_block, Instruction::Block, None);
op!(c25_step_add_empty, Instruction::Add, Some(false));
op!(c25_step_not_empty, Instruction::Not, Some(false));
op!(c25_step_return_nocall, Instruction::Return, Some(true));
op!(c25_step_exit_normal, Instruction::Exit(ExitReason::Normal), None);
op!(c25_step_jump_sym, Instruction::Jump(Target::Resolved(kani::any())), Some(true));
op!(c25_step_branch_empty, Instruction::Branch(Target::Resolved(kani::any())), Some(false));
op!(c25_step_call_sym, Instruction::Call(Target::Resolved(kani::any())), Some(true));

// operand-carrying opcodes with hostile operands (a hand-built or corrupted module controls them)
// more instruction kinds on the minimal state (empty stack, pc 0): each must return Ok or Err, never unwind
// (Gt/Lt/Eq and the fact/struct/effect opcodes — Publish, Create, Delete, Update, Emit, Query, FactCount, QueryStart —
//  exceeded 150 s of CBMC each on this state: the typed pop of a Fact/Struct value drags the whole Value drop glue in)
op!(c25_step_sub_empty, Instruction::Sub, Some(false));
op!(c25_step_satadd_empty, Instruction::SaturatingAdd, Some(false));
op!(c25_step_satsub_empty, Instruction::SaturatingSub, Some(false));
op!(c25_step_savesp, Instruction::SaveSP, None);
op!(c25_step_extcall_sym, Instruction::ExtCall(kani::any(), kani::any()), None);
op!(c25_step_recall_sym, Instruction::Recall(Target::Resolved(kani::any())), None);
op!(c25_step_serialize_empty, Instruction::Serialize, None);
op!(c25_step_deserialize_empty, Instruction::Deserialize, None);
op!(c25_step_mstructset_huge, Instruction::MStructSet(core::num::NonZeroUsize::MAX), Some(false));
op!(c25_step_mstructget_huge, Instruction::MStructGet(core::num::NonZeroUsize::MAX), Some(false));

/// RestoreSP when the saved stack pointer (bytecode-controlled: SaveSP / Call / Recall push onto the
/// same control stack) exceeds the current stack length: an error, never a panic.
#[kani::proof]
#[kani::unwind(4)]
#[kani::stub(alloc::fmt::format, nofmt)]
fn c25_step_restoresp_saved_beyond_stack() {
    let machine = Machine::new(vec![Instruction::RestoreSP]);
    let mut io = NoIo;
    let ctx = CommandContext::Action(ActionContext { name: ident!("a"), head_id: CmdId::default() });
    let mut rs = machine.create_run_state(&mut io, ctx);
    let saved: usize = kani::any();
    kani::assume(saved >= 1 && saved < usize::MAX);
    rs.call_state.push(saved);
    let r = rs.step();
    let ok = r.is_ok();
    core::mem::forget(r);
    core::mem::forget(rs);
    core::mem::forget(machine);
    assert!(!ok);
}
