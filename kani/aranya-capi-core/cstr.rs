//! C47 — contracts for `CStrWriter::{new, write, finish}` and `write_c_str`.
//!
//! Loaded by the hook line at the end of `crates/aranya-capi-core/src/cstr.rs`
//! (`#[cfg(kani)] #[path = ...] mod verif_kani;`). The `requires/ensures`
//! attributes on `CStrWriter::write` in the repository call `write_pre` /
//! `write_post` below, so the contract text lives here and is attached in place.
use super::*;

/// Largest buffer the contracts are proved for (the only bound; index
/// arithmetic is over all of `usize`).
pub(super) const CAP: usize = 16;
/// Largest fragment length.
pub(super) const M: usize = 6;

/// Ghost snapshot of a writer: reported length + buffer contents.
#[derive(Clone, Copy)]
pub(super) struct Snap {
    pub nw: usize,
    pub len: usize,
    pub bytes: [c_char; CAP],
}

pub(super) fn snap(w: &CStrWriter<'_>) -> Snap {
    let mut bytes = [0 as c_char; CAP];
    let len = w.dst.len();
    let mut i = 0;
    while i < CAP {
        if i < len {
            // SAFETY: harnesses initialise the whole buffer.
            bytes[i] = unsafe { w.dst[i].assume_init() };
        }
        i += 1;
    }
    Snap { nw: *w.nw, len, bytes }
}

/// Precondition of `write`: only the proof bound.
pub(super) fn write_pre(w: &CStrWriter<'_>, s: &str) -> bool {
    w.dst.len() <= CAP && s.len() <= M
}

/// Postcondition of `write`, over the whole buffer (frame included):
/// * `nw' = nw ⊕ |s|` (saturating);
/// * the fragment is copied to `dst[nw .. nw+|s|)` iff that range lies inside
///   `dst[.. cap-1)`; every other byte is unchanged;
/// * the slice itself (pointer, length) is unchanged.
pub(super) fn write_post(old: Snap, w: &CStrWriter<'_>, s: &str) -> bool {
    let new = snap(w);
    let src = s.as_bytes();
    let end = old.nw.saturating_add(src.len());
    let fits = old.len >= 1 && old.nw.checked_add(src.len()).is_some() && end <= old.len - 1;
    let mut ok = new.nw == end && new.len == old.len;
    let mut i = 0;
    while i < CAP {
        if i < old.len {
            if fits && old.nw <= i && i < end {
                ok = ok && new.bytes[i] == src[i - old.nw] as c_char;
            } else {
                ok = ok && new.bytes[i] == old.bytes[i];
            }
        }
        i += 1;
    }
    ok
}

fn sym_buf() -> [MaybeUninit<c_char>; CAP] {
    let raw: [c_char; CAP] = kani::any();
    let mut arr = [MaybeUninit::new(0 as c_char); CAP];
    let mut i = 0;
    while i < CAP {
        arr[i] = MaybeUninit::new(raw[i]);
        i += 1;
    }
    arr
}

fn sym_frag(buf: &[u8; M]) -> &str {
    let n: usize = kani::any();
    kani::assume(n <= M);
    // SAFETY: harness-only; bytes are restricted to ASCII by the caller.
    unsafe { core::str::from_utf8_unchecked(&buf[..n]) }
}

fn ascii<const N: usize>() -> [u8; N] {
    let a: [u8; N] = kani::any();
    let mut i = 0;
    while i < N {
        kani::assume(a[i] < 0x80);
        i += 1;
    }
    a
}

/// ⟦CStrWriter::write⟧ — modular proof of the in-place contract.
#[kani::proof_for_contract(CStrWriter::write)]
#[kani::unwind(18)]
fn c47_write_contract() {
    let mut arr = sym_buf();
    let cap: usize = kani::any();
    kani::assume(cap <= CAP);
    let mut nw: usize = kani::any();
    let fb: [u8; M] = ascii();
    let s = sym_frag(&fb);
    let mut w = CStrWriter { dst: &mut arr[..cap], nw: &mut nw };
    w.write(s);
}

/// ⟦CStrWriter::new⟧ establishes the invariant with L = 0.
#[kani::proof]
#[kani::unwind(18)]
fn c47_new_establishes() {
    let mut arr = sym_buf();
    let before = arr.map(|b| unsafe { b.assume_init() });
    let cap: usize = kani::any();
    kani::assume(cap <= CAP);
    let mut nw: usize = kani::any();
    let w = CStrWriter::new(&mut arr[..cap], &mut nw);
    assert!(*w.nw == 0 && w.dst.len() == cap);
    let after = arr.map(|b| unsafe { b.assume_init() });
    assert!(before == after);
}

/// ⟦CStrWriter::finish⟧: NUL at min(nw, cap) if that index exists, nothing
/// else changes, `nw' = nw ⊕ 1`, `Ok ⇔ nw' ≤ cap`.
#[kani::proof]
#[kani::unwind(18)]
fn c47_finish_contract() {
    let mut arr = sym_buf();
    let before = arr.map(|b| unsafe { b.assume_init() });
    let cap: usize = kani::any();
    kani::assume(cap <= CAP);
    let mut nw: usize = kani::any();
    let nw0 = nw;
    let r = CStrWriter { dst: &mut arr[..cap], nw: &mut nw }.finish();
    let after = arr.map(|b| unsafe { b.assume_init() });
    assert!(nw == nw0.saturating_add(1));
    assert!(r.is_ok() == (nw0 < cap));
    let mut i = 0;
    while i < CAP {
        if i < cap && i == nw0 {
            assert!(after[i] == 0);
        } else {
            assert!(after[i] == before[i]);
        }
        i += 1;
    }
    kani::cover!(r.is_ok());
    kani::cover!(r.is_err() && nw0 == usize::MAX);
}

/// A `Display` value that emits three fragments through `Formatter::write_str`.
struct Three<'a>(&'a str, &'a str, &'a str);
impl fmt::Display for Three<'_> {
    fn fmt(&self, f: &mut fmt::Formatter<'_>) -> fmt::Result {
        f.write_str(self.0)?;
        f.write_str(self.1)?;
        f.write_str(self.2)
    }
}

fn check_write_c_str_post(
    before: &[c_char; CAP],
    after: &[c_char; CAP],
    cap: usize,
    text: &[u8],
    nw: usize,
    r: Result<(), WriteCStrError>,
) {
    let total = text.len();
    // both outcomes: the size needed, including the terminator.
    assert!(nw == total + 1);
    match r {
        Ok(()) => {
            assert!(total + 1 <= cap);
            let mut i = 0;
            while i < CAP {
                if i < total {
                    assert!(after[i] == text[i] as c_char);
                } else if i == total {
                    assert!(after[i] == 0);
                } else {
                    assert!(after[i] == before[i]);
                }
                i += 1;
            }
        }
        Err(WriteCStrError::BufferTooSmall) => {
            assert!(total + 1 > cap);
            // never outside the caller's slice: guard bytes untouched.
            let mut i = 0;
            while i < CAP {
                if i >= cap {
                    assert!(after[i] == before[i]);
                }
                i += 1;
            }
        }
        Err(WriteCStrError::Bug(_)) => panic!("Bug reachable"),
    }
}

/// ⟦write_c_str⟧ composed from the *contract* of `write` (modular step):
/// `write` is replaced by its verified contract.
#[kani::proof]
#[kani::stub_verified(CStrWriter::write)]
#[kani::unwind(20)]
fn c47_write_c_str_modular() {
    let mut arr = sym_buf();
    let before = arr.map(|b| unsafe { b.assume_init() });
    let cap: usize = kani::any();
    kani::assume(cap <= CAP);
    let (a, b, c): ([u8; M], [u8; M], [u8; M]) = (ascii(), ascii(), ascii());
    let (sa, sb, sc) = (sym_frag(&a), sym_frag(&b), sym_frag(&c));
    let mut nw: usize = kani::any();
    let r = write_c_str(&mut arr[..cap], &Three(sa, sb, sc), &mut nw);
    let after = arr.map(|b| unsafe { b.assume_init() });
    let mut text = [0u8; 3 * M];
    let mut n = 0;
    for part in [sa, sb, sc] {
        for &ch in part.as_bytes() {
            text[n] = ch;
            n += 1;
        }
    }
    check_write_c_str_post(&before, &after, cap, &text[..n], nw, r);
    kani::cover!(n + 1 <= cap && n > 0);
    kani::cover!(n + 1 > cap && sa.len() + 1 <= cap);
}

/// ⟦write_c_str⟧ against the real `write` body (non-modular cross-check; also
/// the harness whose counterexamples replay without stubs).
#[kani::proof]
#[kani::unwind(20)]
fn c47_write_c_str_whole() {
    let mut arr = sym_buf();
    let before = arr.map(|b| unsafe { b.assume_init() });
    let cap: usize = kani::any();
    kani::assume(cap <= CAP);
    let (a, b, c): ([u8; M], [u8; M], [u8; M]) = (ascii(), ascii(), ascii());
    let (sa, sb, sc) = (sym_frag(&a), sym_frag(&b), sym_frag(&c));
    let mut nw: usize = kani::any();
    let r = write_c_str(&mut arr[..cap], &Three(sa, sb, sc), &mut nw);
    let after = arr.map(|b| unsafe { b.assume_init() });
    let mut text = [0u8; 3 * M];
    let mut n = 0;
    for part in [sa, sb, sc] {
        for &ch in part.as_bytes() {
            text[n] = ch;
            n += 1;
        }
    }
    check_write_c_str_post(&before, &after, cap, &text[..n], nw, r);
    kani::cover!(n + 1 <= cap && n > 0);
    kani::cover!(n + 1 > cap && sa.len() + 1 <= cap);
}
