#!/bin/bash
# k1.sh <crate> <features|-> <full harness path> [timeout_s]   — run one Kani harness, print a short summary
crate=$1; feat=$2; h=$3; to=${4:-300}
cd /repo
F=(); [ "$feat" != "-" ] && F=(--features "$feat")
start=$(date +%s)
CARGO_NET_OFFLINE=true prlimit --as=34000000000 cargo kani -p $crate "${F[@]}" -Z function-contracts -Z stubbing -Z unstable-options --harness "$h" --exact --output-format terse --harness-timeout ${to}s --target-dir /verif/build/kani-target 2>&1 | grep -E "^error|failed|Failed Checks|File:|VERIFICATION:|Verification Time|cover properties|memory|timed out|Stub:|panicked" | cut -c1-220
echo "[$h] wall $(( $(date +%s) - start ))s"
