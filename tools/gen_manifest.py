#!/usr/bin/env python3
"""Regenerate /verif/MANIFEST.json from props/*.py and tools/not_applicable.json; validate against the schema."""
import importlib, json, os, subprocess, sys
sys.path.insert(0, '/verif')
from lib import core
ids = sorted(f[:-3] for f in os.listdir('/verif/props') if f.startswith('C') and f.endswith('.py'))
na = json.load(open('/verif/tools/not_applicable.json'))
checks = []
for pid in ids:
    spec = importlib.import_module('props.' + pid)
    m = spec.MANIFEST
    engines = sorted({u.engine for u in spec.UNITS})
    c = {
        'property_id': pid,
        'quick_cmd': f'./check {pid} --tier quick',
        'thorough_cmd': f'./check {pid} --tier thorough',
        'evidence_file': f'/verif/evidence/{pid}.json',
        'replay_cmd_template': './check replay {path}',
        'engine': '+'.join(engines),
        'level_claimed': {'category': spec.LEVEL, 'text': m['text'], 'design_ref': m.get('design_ref', f'DESIGN.md §4 {pid}')},
        'level_note': m['note'],
        'technique': m['technique'],
    }
    checks.append(c)
claimed = {c['property_id'] for c in checks}
hooks = subprocess.run(['git', '-C', '/repo', 'log', '--format=%h %s', '--grep=^verif hook'], stdout=subprocess.PIPE, text=True).stdout.strip().splitlines()
man = {
    'version': 1,
    'setup_cmd': './check setup',
    'hooks': {
        'guard': 'cfg(kani)',
        'enable': 'cargo kani (sets --cfg kani); every hook is `#[cfg(kani)] #[path = "/verif/kani/<crate>/<file>.rs"] mod verif_kani;` or a `#[cfg_attr(kani, kani::…)]` contract attribute',
        'baseline_off_cmd': 'cd /repo && cargo nextest run --workspace --no-fail-fast --offline --test-threads 8 || cargo test --workspace --no-fail-fast --offline',
        'source_commits': [h.split()[0] for h in hooks],
        'add_only': True,
    },
    'engines': [
        {'name': 'kani', 'path': '/verif/kani', 'kind_free_text': 'Kani 0.68 / CBMC 6.11 contract harnesses and in-place function contracts on the real crates (KI), trace contracts over havoc trait implementations (KT)',
         'serves_properties': [c['property_id'] for c in checks if 'kani' in c['engine']]},
        {'name': 'verus', 'path': '/verif/verus', 'kind_free_text': 'Verus 0.2026.09.13 on functions extracted mechanically from /repo on every run (VX)',
         'serves_properties': [c['property_id'] for c in checks if 'verus' in c['engine']]},
    ],
    'checks': checks,
    'notes': 'Exit codes: 0 held; 1 VIOLATION line; 2 undecided (lost anchor / tool limit / timeout — never an alarm). See DESIGN.md.',
    'not_applicable': [x for x in na if x['property_id'] not in claimed],
}
json.dump(man, open('/verif/MANIFEST.json', 'w'), indent=1)
try:
    import jsonschema
except ImportError:
    sys.path.insert(0, [p for p in __import__("glob").glob("/opt/veriftools/pyvenv/lib/python3*/site-packages")][0]); import jsonschema
jsonschema.validate(man, json.load(open('/root/.vp/MANIFEST.schema.json')))
allp = [json.loads(l)['id'] for l in open('/verif/properties.jsonl')]
missing = [p for p in allp if p not in claimed and p not in {x['property_id'] for x in man['not_applicable']}]
print('claimed', len(claimed), 'n/a', len(man['not_applicable']), 'unaccounted', missing)
