#!/bin/bash
# try_seed.sh <seed id> <property id>...  — apply a seeded change, run checks, revert
s=$1; shift
cd /repo && git apply /verif/seeded/$s/patch.diff || { echo "patch does not apply"; exit 2; }
cd /verif
mkdir -p /tmp/evsave; for p in "$@"; do cp evidence/$p.json /tmp/evsave/$p.json 2>/dev/null; done
for p in "$@"; do VERIF_NO_PLAYBACK=1 ./check $p 2>&1 | grep -E "VIOLATION|UNDECIDED|OK:|violation|undecided" | cut -c1-400; echo "rc[$p]=${PIPESTATUS[0]}"; done
cd /repo && git checkout -- . && git status --short | head -3
cd /verif; for p in "$@"; do cp /tmp/evsave/$p.json evidence/$p.json 2>/dev/null; done
