"""VX: build a single-file Verus input from functions extracted mechanically from /repo.

A unit is described by FnSpec objects. For each one the function text is taken
verbatim from the working tree, then only these things happen to it:
  * `rewrites`  — the fixed, named rewrite rules (DESIGN §2.2 table); each must match
                  the stated number of times or the anchor is lost (undecided);
  * the return type is given a name (`-> T` becomes `-> (r: T)`);
  * `contract`  — requires/ensures/decreases text spliced between signature and body;
  * `inserts`   — ghost-only text (proof blocks, `let ghost`, loop invariants) placed
                  after/before an anchor that must occur exactly once.
Inserted text is checked to be ghost-only. The output lists what was dropped.
"""
import difflib
import hashlib
import os
import re

from . import rsx
from .core import REPO

# Vacuity probe (thorough tier): when True every extracted function gets `proof { assert(false); }` as its first
# statement; each of them must FAIL, else the function's precondition (or the admitted axioms in scope) is contradictory.
PROBE = False

_GHOST_OK = re.compile(r'^\s*(proof\s*\{|let ghost |invariant|invariant_except_break|ensures|decreases|assert|//|$)')


class FnSpec:
    def __init__(self, file, name, impl=None, mod=None, contract='', ret='r', rewrites=(), inserts=(),
                 sig_rewrites=(), attrs='', block=None):
        # block = (header_regex, synthetic_signature, tail): instead of a whole fn, extract the `{ .. }` block that
        # follows the unique match of header_regex inside fn `name` (e.g. one match arm) and wrap it as a function
        # with the given signature; `tail` (e.g. `Ok(())`) is appended as the wrapper's result expression.
        self.block = block
        self.file, self.name, self.impl, self.mod = file, name, impl, mod
        self.contract, self.ret = contract, ret
        self.rewrites, self.inserts, self.sig_rewrites = list(rewrites), list(inserts), list(sig_rewrites)
        self.attrs = attrs


def _name_return(sig, ret):
    # find top-level `->`
    depth = 0
    i = 0
    pos = None
    while i < len(sig) - 1:
        c = sig[i]
        if c in '(<[':
            depth += 1
        elif c in ')]':
            depth -= 1
        elif c == '>' and sig[i - 1] != '-':
            depth -= 1
        if sig[i:i + 2] == '->' and depth == 0:
            pos = i
            break
        i += 1
    if pos is None:
        return sig
    head, ty = sig[:pos], sig[pos + 2:].strip()
    where = ''
    m = re.search(r'\bwhere\b', ty)
    if m:
        ty, where = ty[:m.start()].strip(), ' ' + ty[m.start():]
    return f'{head}-> ({ret}: {ty}){where}'


def build_fn(spec, dropped, located):
    path = os.path.join(REPO, spec.file)
    src = open(path).read()
    ex = rsx.extract_fn(src, spec.name, spec.impl, spec.file, spec.mod)
    located.append({'fn': (spec.impl + ' :: ' if spec.impl else '') + spec.name, 'file': spec.file,
                    'lines': [ex.line0, ex.line1],
                    'sha256': hashlib.sha256(ex.raw.encode()).hexdigest()[:16]})
    sig, body = ex.sig, ex.body
    if spec.block:
        header_re, synth_sig, tail = spec.block
        _, ob, cb = rsx.find_block(ex.body, header_re)
        inner = ex.body[ob:cb + 1]
        k = inner.rstrip().rfind('}')
        body = inner[:k] + '\n' + tail + '\n' + inner[k:]
        sig = synth_sig
        dropped.append(f'{spec.name}: only the block after /{header_re}/ is extracted and wrapped as `{synth_sig.strip()}` with result `{tail}`; '
                       'the rest of the function is not part of the verified text')
    for old, new, count, rule in spec.sig_rewrites:
        sig = rsx.replace_exact(sig, old, new, count, f'{spec.name} signature {rule}')
        dropped.append(f'{spec.name}: signature rewrite {rule}: `{old}` -> `{new}`')
    for old, new, count, rule in spec.rewrites:
        if count is None:
            # optional rule: applies where the construct occurs (capability patch for an idiom that may or may not be present)
            n = rsx.count_exact(body, old)
            if n == 0:
                continue
            count = n
        body = rsx.replace_exact(body, old, new, count, f'{spec.name} {rule}')
        dropped.append(f'{spec.name}: rewrite {rule} x{count}: `{rsx.norm(old)[:80]}` -> `{new[:80]}`')
    for where, anchor, text in spec.inserts:
        first = text.strip().split('\n', 1)[0]
        if not _GHOST_OK.match(first):
            raise rsx.LostAnchor(f'{spec.name}: inserted text is not ghost-only: {first[:60]!r}')
        if where.endswith('?'):
            # optional insert: only where the anchor occurs
            if rsx.count_exact(body, anchor) == 0:
                continue
            where = where[:-1]
        if where == 'after':
            body = rsx.insert_after(body, anchor, text, f'{spec.name}: {anchor[:50]}')
        elif where == 'before':
            body = rsx.insert_before(body, anchor, text, f'{spec.name}: {anchor[:50]}')
        elif where == 'end':
            # before the final closing brace of the body (only valid when the body ends in a statement)
            k = body.rstrip().rfind('}')
            body = body[:k] + text + '\n' + body[k:]
        else:
            raise ValueError(where)
    if PROBE:
        k = body.index('{')
        body = body[:k + 1] + ' proof { assert(false); } ' + body[k + 1:]
    if spec.ret:
        sig = _name_return(sig, spec.ret)
    sig = re.sub(r'^pub\((crate|super)\)\s+', 'pub ', sig)
    text = (spec.attrs + '\n' if spec.attrs else '') + sig + '\n' + spec.contract.rstrip() + '\n' + body + '\n'
    return text, ex


def build_unit(prelude, blocks, postlude=''):
    """blocks: list of (header or None, [FnSpec...]); header e.g. 'impl TraversalQueue'."""
    dropped, located = [], []
    out = [prelude]
    raws = []
    for header, specs in blocks:
        if header:
            out.append(header + ' {')
        for s in specs:
            t, ex = build_fn(s, dropped, located)
            out.append(t)
            raws.append((s, ex, t))
        if header:
            out.append('}')
    out.append(postlude)
    out.append('\n} // verus!\nfn main() {}\n')
    text = '\n'.join(out)
    dropped.append('attributes and doc comments preceding each fn are not part of the extracted text')
    return text, located, dropped, raws


def write_diff(raws, path):
    """Unified diff: repository text vs verified text, per function."""
    chunks = []
    for s, ex, t in raws:
        a = ex.raw.splitlines(keepends=True)
        b = t.splitlines(keepends=True)
        chunks += list(difflib.unified_diff(a, b, f'repo:{s.file}::{s.name}', f'verified::{s.name}', n=1))
    open(path, 'w').write(''.join(chunks))
