"""Mechanical extraction of Rust items from /repo source text.

Nothing here understands Rust beyond tokens: comments, string/char literals and
lifetimes are skipped so that brace matching is exact. An anchor that is not
found exactly once raises LostAnchor (the driver turns that into exit 2 =
undecided, never an alarm).
"""
import re


class LostAnchor(Exception):
    pass


def _skip_ws_comment(s, i):
    n = len(s)
    while i < n:
        c = s[i]
        if c.isspace():
            i += 1
        elif s.startswith('//', i):
            j = s.find('\n', i)
            i = n if j < 0 else j + 1
        elif s.startswith('/*', i):
            depth = 1
            i += 2
            while i < n and depth:
                if s.startswith('/*', i):
                    depth += 1
                    i += 2
                elif s.startswith('*/', i):
                    depth -= 1
                    i += 2
                else:
                    i += 1
        else:
            break
    return i


def _skip_string(s, i):
    """s[i] starts a string/char/raw-string/lifetime; return index after it."""
    n = len(s)
    c = s[i]
    if c == '"':
        i += 1
        while i < n:
            if s[i] == '\\':
                i += 2
            elif s[i] == '"':
                return i + 1
            else:
                i += 1
        return n
    if c == 'r' or c == 'b':
        m = re.match(r'b?r(#*)"', s[i:])
        if m:
            close = '"' + m.group(1)
            j = s.find(close, i + len(m.group(0)))
            return n if j < 0 else j + len(close)
        if s.startswith('b"', i):
            return _skip_string(s, i + 1)
        if s.startswith("b'", i):
            return _skip_string(s, i + 1)
        return i + 1
    if c == "'":
        # char literal or lifetime
        m = re.match(r"'(\\.[^']*|[^\\'])'", s[i:])
        if m:
            return i + len(m.group(0))
        m = re.match(r"'[A-Za-z_][A-Za-z0-9_]*", s[i:])
        if m:
            return i + len(m.group(0))
        return i + 1
    return i + 1


def tokens(s, start=0, end=None):
    """Yield (pos, kind, text): kind in {'ident','punct','lit'}; comments skipped."""
    n = len(s) if end is None else end
    i = start
    while True:
        i = _skip_ws_comment(s, i)
        if i >= n:
            return
        c = s[i]
        if c == '"' or c == "'":
            j = _skip_string(s, i)
            yield (i, 'lit', s[i:j])
            i = j
        elif (c in 'rb') and re.match(r'(b?r#*"|b"|b\')', s[i:]):
            j = _skip_string(s, i)
            yield (i, 'lit', s[i:j])
            i = j
        elif c.isalpha() or c == '_':
            m = re.match(r'[A-Za-z_][A-Za-z0-9_]*', s[i:])
            j = i + len(m.group(0))
            yield (i, 'ident', s[i:j])
            i = j
        elif c.isdigit():
            m = re.match(r'[0-9][A-Za-z0-9_.]*', s[i:])
            j = i + len(m.group(0))
            # do not swallow `..` range operators or method calls on literals
            txt = m.group(0)
            k = txt.find('..')
            if k >= 0:
                j = i + k
            yield (i, 'lit', s[i:j])
            i = j
        else:
            yield (i, 'punct', c)
            i += 1


def match_brace(s, open_pos):
    """s[open_pos] is one of ([{ ; return index of the matching closer."""
    pairs = {'(': ')', '[': ']', '{': '}'}
    want = []
    for pos, kind, t in tokens(s, open_pos):
        if kind != 'punct':
            continue
        if t in pairs:
            want.append(pairs[t])
        elif t in ')]}':
            if not want or want[-1] != t:
                raise LostAnchor(f'unbalanced {t!r} at {pos}')
            want.pop()
            if not want:
                return pos
    raise LostAnchor('unterminated block')


def norm(text):
    """Whitespace-insensitive normal form used for anchors (comments removed)."""
    return ' '.join(t for _, _, t in tokens(text))


def find_blocks(src, header_re, start=0, end=None):
    """All items whose header matches header_re followed by a `{ ... }` block."""
    end = len(src) if end is None else end
    hits = []
    for m in re.finditer(header_re, src[start:end]):
        pos = start + m.start()
        line_start = src.rfind('\n', 0, pos) + 1
        if '//' in src[line_start:pos]:
            continue
        j = start + m.end()
        depth = 0
        ob = None
        for p, kind, t in tokens(src, j, end):
            if kind == 'punct':
                if t in '([':
                    depth += 1
                elif t in ')]':
                    depth -= 1
                elif t == '{' and depth == 0:
                    ob = p
                    break
                elif t == ';' and depth == 0:
                    break
        if ob is None:
            continue
        hits.append((pos, ob, match_brace(src, ob)))
    return hits


def find_block(src, header_re, start=0, end=None):
    """Find the unique item whose header matches header_re (regex over the raw
    text, comments not considered) followed by a `{ ... }` block.
    Returns (hdr_start, open_brace, close_brace)."""
    end = len(src) if end is None else end
    hits = []
    for m in re.finditer(header_re, src[start:end]):
        pos = start + m.start()
        # reject matches inside comments / strings: re-tokenise the line prefix
        line_start = src.rfind('\n', 0, pos) + 1
        prefix = src[line_start:pos]
        if '//' in prefix:
            continue
        j = start + m.end()
        # advance to the opening brace of the item (skipping where-clauses etc.)
        depth = 0
        ob = None
        for p, kind, t in tokens(src, j, end):
            if kind == 'punct':
                if t in '([':
                    depth += 1
                elif t in ')]':
                    depth -= 1
                elif t == '{' and depth == 0:
                    ob = p
                    break
                elif t == ';' and depth == 0:
                    break
        if ob is None:
            continue
        hits.append((pos, ob, match_brace(src, ob)))
    if len(hits) != 1:
        raise LostAnchor(f'header /{header_re}/ matched {len(hits)} times (need exactly 1)')
    return hits[0]


class Extracted:
    def __init__(self, file, name, sig, body, line0, line1, raw):
        self.file, self.name, self.sig, self.body = file, name, sig, body
        self.line0, self.line1, self.raw = line0, line1, raw


def extract_fn(src, name, impl_re=None, file='?', mod_re=None):
    """Return Extracted for `fn name` (optionally inside the unique block whose
    header matches impl_re, itself optionally inside the block matching mod_re).
    sig = text from visibility/`fn` up to (not including) the body's `{`;
    body = text of the body including both braces."""
    lo, hi = 0, len(src)
    if mod_re:
        _, ob, cb = find_block(src, mod_re, lo, hi)
        lo, hi = ob + 1, cb
    if impl_re:
        # several impl blocks may share a header (e.g. `impl<R> Foo<R>` twice): take the one
        # (exactly one) that holds `fn name`
        blocks = find_blocks(src, impl_re, lo, hi)
        hdr0 = r'\bfn\s+' + re.escape(name) + r'\b'
        holding = [(ob, cb) for _, ob, cb in blocks if re.search(hdr0, strip_comments(src[ob:cb]))]
        if len(holding) != 1:
            raise LostAnchor(f'header /{impl_re}/ holding fn {name}: {len(holding)} blocks of {len(blocks)} (need exactly 1)')
        ob, cb = holding[0]
        lo, hi = ob + 1, cb
    hdr = r'(?:pub(?:\([a-z:A-Z_ ]+\))?\s+)?(?:const\s+)?(?:unsafe\s+)?fn\s+' + re.escape(name) + r'\b'
    # only functions at nesting depth 0 of [lo,hi)
    cands = []
    for m in re.finditer(hdr, src[lo:hi]):
        pos = lo + m.start()
        line_start = src.rfind('\n', 0, pos) + 1
        if '//' in src[line_start:pos]:
            continue
        depth = 0
        for p, kind, t in tokens(src, lo, pos):
            if kind == 'punct':
                if t == '{':
                    depth += 1
                elif t == '}':
                    depth -= 1
        if depth == 0:
            cands.append(pos)
    if len(cands) != 1:
        raise LostAnchor(f'fn {name} found {len(cands)} times in {file} (impl /{impl_re}/)')
    pos = cands[0]
    depth = 0
    ob = None
    for p, kind, t in tokens(src, pos, hi):
        if kind == 'punct':
            if t in '([':
                depth += 1
            elif t in ')]':
                depth -= 1
            elif t == '{' and depth == 0:
                ob = p
                break
            elif t == ';' and depth == 0:
                break
    if ob is None:
        raise LostAnchor(f'fn {name} has no body in {file}')
    cb = match_brace(src, ob)
    sig = src[pos:ob].rstrip()
    body = src[ob:cb + 1]
    line0 = src.count('\n', 0, pos) + 1
    line1 = src.count('\n', 0, cb) + 1
    return Extracted(file, name, sig, body, line0, line1, src[pos:cb + 1])


def replace_exact(text, old, new, count=1, what=''):
    """Replace `old` (matched modulo whitespace) exactly `count` times."""
    pat = r'\s*'.join(re.escape(t) for _, _, t in tokens(old))
    found = len(re.findall(pat, text))
    if found != count:
        raise LostAnchor(f'{what or old[:40]!r}: expected {count} occurrence(s), found {found}')
    return re.sub(pat, lambda m: new, text)


def count_exact(text, old):
    pat = r'\s*'.join(re.escape(t) for _, _, t in tokens(old))
    return len(re.findall(pat, text))


def insert_after(text, anchor, ins, what=''):
    pat = r'\s*'.join(re.escape(t) for _, _, t in tokens(anchor))
    ms = list(re.finditer(pat, text))
    if len(ms) != 1:
        raise LostAnchor(f'anchor {what or anchor[:50]!r}: found {len(ms)} times (need 1)')
    e = ms[0].end()
    return text[:e] + '\n' + ins + '\n' + text[e:]


def insert_before(text, anchor, ins, what=''):
    pat = r'\s*'.join(re.escape(t) for _, _, t in tokens(anchor))
    ms = list(re.finditer(pat, text))
    if len(ms) != 1:
        raise LostAnchor(f'anchor {what or anchor[:50]!r}: found {len(ms)} times (need 1)')
    b = ms[0].start()
    return text[:b] + ins + '\n' + text[b:]


def strip_comments(text):
    out = []
    i = 0
    n = len(text)
    while i < n:
        if text.startswith('//', i):
            j = text.find('\n', i)
            i = n if j < 0 else j
        elif text.startswith('/*', i):
            j = text.find('*/', i)
            i = n if j < 0 else j + 2
        elif text[i] == '"' or (text[i] == "'" and re.match(r"'(\\.[^']*|[^\\'])'", text[i:])):
            j = _skip_string(text, i)
            out.append(text[i:j])
            i = j
        else:
            out.append(text[i])
            i += 1
    return ''.join(out)
