"""Driver core: unit definitions, Kani / Verus runners, verdicts, evidence."""
import hashlib
import json
import os
import re
import resource
import shutil
import subprocess
import sys
import time

from . import rsx

VERIF = '/verif'
REPO = os.environ.get('VERIF_REPO', '/repo')
BUILD = os.path.join(VERIF, 'build')
KANI_TARGET = os.path.join(BUILD, 'kani-target')
VERUS_DIR = os.path.join(BUILD, 'verus')
EVID = os.path.join(VERIF, 'evidence')
REPLAYS = os.path.join(VERIF, 'replays')
FINDINGS = os.path.join(VERIF, 'KNOWN_FINDINGS.txt')
AS_CAP = int(os.environ.get('VERIF_AS_CAP_GB', '28')) << 30

PASS, VIOL, UNDEC = 'pass', 'violation', 'undecided'


# --------------------------------------------------------------------------
# unit definitions
# --------------------------------------------------------------------------
class Fn:
    """A function of /repo that a unit puts under contract."""

    def __init__(self, file, name, impl=None, mod=None):
        self.file, self.name, self.impl, self.mod = file, name, impl, mod

    def locate(self):
        path = os.path.join(REPO, self.file)
        src = open(path).read()
        ex = rsx.extract_fn(src, self.name, self.impl, self.file, self.mod)
        return {
            'fn': (self.impl + ' :: ' if self.impl else '') + self.name,
            'file': self.file,
            'lines': [ex.line0, ex.line1],
            'sha256': hashlib.sha256(ex.raw.encode()).hexdigest()[:16],
        }


class Kani:
    engine = 'kani'

    def __init__(self, harness, crate, fns=(), features=None, kind='complete', bound='none',
                 tiers=('quick', 'thorough'), cap_s=600, covers=None, stubs=(), contract='',
                 bin=None, playback=True, extra=()):
        self.harness, self.crate, self.fns = harness, crate, list(fns)
        self.features, self.kind, self.bound = features, kind, bound
        self.tiers, self.cap_s, self.covers, self.stubs = tiers, cap_s, covers, list(stubs)
        self.contract, self.bin, self.playback, self.extra = contract, bin, playback, list(extra)
        self.name = harness

    def group_key(self):
        return (self.crate, self.features or '', self.bin or '', tuple(self.extra))


class Verus:
    engine = 'verus'

    def __init__(self, name, build, tiers=('quick', 'thorough'), min_verified=1, rlimit=None,
                 contract=''):
        # build() -> (file_text, [Fn or located dict...], dropped_notes[list[str]])
        self.name, self.build, self.tiers = name, build, tiers
        self.min_verified, self.rlimit, self.contract = min_verified, rlimit, contract
        self.kind, self.bound = 'complete', 'none'


class Result:
    def __init__(self, unit):
        self.unit = unit
        self.verdict = UNDEC
        self.obligations = 0
        self.discharged = 0
        self.solver_s = 0.0
        self.wall_s = 0.0
        self.covers = (0, 0)
        self.failed = []      # list of dicts {desc, loc, category}
        self.reason = ''
        self.samples = []
        self.fns = []
        self.backend = ''
        self.raw_tail = ''
        self.extra = {}


# --------------------------------------------------------------------------
# Kani
# --------------------------------------------------------------------------
def _limit():
    try:
        resource.setrlimit(resource.RLIMIT_AS, (AS_CAP, AS_CAP))
    except Exception:
        pass


def kani_env():
    env = dict(os.environ)
    env['CARGO_NET_OFFLINE'] = 'true'
    env.pop('RUSTUP_TOOLCHAIN', None)
    env.pop('RUSTFLAGS', None)
    return env


def kani_cmd(group_key, harnesses, cap_s, jobs, json_path, extra_flags=()):
    crate, features, bin_, extra = group_key
    cmd = ['cargo', 'kani', '-p', crate]
    if features:
        cmd += ['--features', features]
    if bin_:
        cmd += ['--bin', bin_]
    cmd += ['-Z', 'function-contracts', '-Z', 'stubbing', '-Z', 'unstable-options']
    for h in harnesses:
        cmd += ['--harness', h]
    cmd += ['--exact', '-j', str(jobs), '--output-format', 'terse',
            '--harness-timeout', f'{int(cap_s)}s', '--target-dir', KANI_TARGET]
    if json_path:
        cmd += ['--export-json', json_path]
    cmd += list(extra) + list(extra_flags)
    return cmd


_UNDEC_DESC = re.compile(r'unwinding assertion|is not currently supported|not supported|'
                         r'unsupported|recursion unwinding|reachable unsupported', re.I)


def run_kani_group(group_key, units, jobs=4):
    os.makedirs(BUILD, exist_ok=True)
    tag = hashlib.sha1(('|'.join(u.harness for u in units)).encode()).hexdigest()[:10]
    json_path = os.path.join(BUILD, f'kani-{group_key[0]}-{tag}.json')
    if os.path.exists(json_path):
        os.remove(json_path)
    cap = max(u.cap_s for u in units)
    cmd = kani_cmd(group_key, [u.harness for u in units], cap, min(jobs, len(units)), json_path)
    t0 = time.time()
    overall = cap * ((len(units) + jobs - 1) // jobs) + 900
    try:
        p = subprocess.run(cmd, cwd=REPO, env=kani_env(), stdout=subprocess.PIPE,
                           stderr=subprocess.STDOUT, text=True, timeout=overall,
                           preexec_fn=_limit)
        out = p.stdout
    except subprocess.TimeoutExpired as e:
        out = (e.stdout or '') if isinstance(e.stdout, str) else (e.stdout or b'').decode('utf8', 'replace')
        out += '\n[driver] overall timeout'
    wall = time.time() - t0
    log_path = os.path.join(BUILD, f'kani-{group_key[0]}-{tag}.log')
    open(log_path, 'w').write(' '.join(cmd) + '\n' + out)

    results = {u.harness: Result(u) for u in units}
    for r in results.values():
        r.backend = 'CBMC 6.11 + CaDiCaL (via Kani 0.68)'
        r.extra['cmd'] = ' '.join(cmd)
        r.extra['log'] = log_path
    data = None
    if os.path.exists(json_path):
        try:
            data = json.load(open(json_path))
        except Exception:
            data = None
    # textual facts: stub lines, timeouts
    stub_lines = re.findall(r'- (?:Verified stub|Stub): (.*)', out)
    if data is None:
        reason = 'kani produced no result file'
        m = re.search(r'error(\[E\d+\])?: .*', out)
        if m:
            reason = 'build/compile error under cfg(kani): ' + m.group(0)[:300]
        if not m and len(units) > 1:
            # kani-driver died (e.g. CBMC crashed in one harness and the parallel output parser
            # panicked): fall back to one process per harness so the others are still decided.
            from concurrent.futures import ThreadPoolExecutor
            with ThreadPoolExecutor(max_workers=jobs) as ex:
                parts = list(ex.map(lambda u: run_kani_group(group_key, [u], jobs=1), units))
            return [r for part in parts for r in part]
        if 'out of memory' in out or 'CBMC failed' in out:
            reason = 'CBMC failed / ran out of memory (tool limit)'
        for r in results.values():
            r.reason = reason
            r.raw_tail = out[-3000:]
            r.wall_s = wall
        return list(results.values())
    stats = {c['harness_id']: (c.get('cbmc_stats') or {}) for c in data.get('cbmc', [])}
    pdet = {c['harness_id']: (c.get('property_details') or {}) for c in data.get('property_details', [])}
    for res in data.get('verification_results', {}).get('results', []):
        hid = res['harness_id']
        r = results.get(hid)
        if r is None:
            continue
        u = r.unit
        r.wall_s = res.get('duration_ms', 0) / 1000.0
        st = stats.get(hid) or {}
        r.solver_s = round((st.get('runtime_decision_procedure_s') or 0.0) + (st.get('runtime_symex_s') or 0.0), 3)
        pd = pdet.get(hid) or {}
        checks = res.get('checks', [])
        covers = [c for c in checks if c.get('category') == 'cover' or c.get('status') in ('SATISFIED', 'UNSATISFIABLE', 'Satisfied', 'Unsatisfiable')]
        normal = [c for c in checks if c not in covers]
        r.obligations = len(normal)
        ok_status = ('SUCCESS', 'Success', 'UNREACHABLE', 'Unreachable')
        bad = [c for c in normal if c.get('status') not in ok_status]
        r.discharged = len(normal) - len(bad)
        sat = pd.get('satisfied') or 0
        unsat = pd.get('unsatisfiable') or 0
        r.covers = (sat, sat + unsat)
        r.samples = [{'check': c.get('id'), 'description': c.get('description'),
                      'function': c.get('function'),
                      'location': '%s:%s' % (c.get('location', {}).get('file', '?'), c.get('location', {}).get('line', '?')),
                      'status': c.get('status')}
                     for c in sorted(normal, key=lambda c: 0 if (str(c.get('location', {}).get('file', '')).startswith('/verif/kani') and c.get('category') == 'assertion') else 1)
                     if str(c.get('location', {}).get('file', '')).startswith(('crates/', '/verif/kani'))][:3]
        r.extra['repo_obligations'] = sum(1 for c in normal if str(c.get('location', {}).get('file', '')).startswith('crates/'))
        status = res.get('status')
        if status in ('Success', 'SUCCESS') and not bad:
            if r.obligations == 0:
                r.verdict, r.reason = UNDEC, 'vacuous: zero obligations generated'
            elif unsat > 0 or (u.covers is not None and sat < u.covers):
                r.verdict, r.reason = UNDEC, f'vacuity guard: {sat} of {max(sat + unsat, u.covers or 0)} cover points reached'
            else:
                missing = [s for s in u.stubs if not any(s in l for l in stub_lines)]
                if missing:
                    r.verdict, r.reason = UNDEC, f'expected stub not applied: {missing}'
                else:
                    r.verdict = PASS
        else:
            r.failed = [{'desc': c.get('description'), 'category': c.get('category'),
                         'function': c.get('function'),
                         'loc': '%s:%s:%s' % (c.get('location', {}).get('file', '?'), c.get('location', {}).get('line', '?'), c.get('location', {}).get('column', '?')),
                         'status': c.get('status')} for c in bad]
            sem = [f for f in r.failed if f['status'] in ('FAILURE', 'Failure', 'FAILED')
                   and not _UNDEC_DESC.search((f['desc'] or '') + ' ' + (f['category'] or ''))]
            if sem:
                r.verdict = VIOL
                r.failed = sem + [f for f in r.failed if f not in sem]
                r.reason = 'failed obligation(s): ' + '; '.join(f"{f['desc']} @ {f['loc']}" for f in sem[:3])
            else:
                r.verdict = UNDEC
                r.reason = f'status={status}; ' + ('; '.join(f"{f['status']}: {f['desc']}" for f in r.failed[:3]) or 'no failed check listed (timeout / out of memory / tool error)')
    for r in results.values():
        if r.verdict == UNDEC and not r.reason:
            # harness missing from the result list
            m = re.search(r'(CBMC timed out|timed out|out of memory|Killed|error: .*)', out)
            r.reason = 'harness did not report a result' + (': ' + m.group(1) if m else '')
            r.wall_s = wall
        r.raw_tail = out[-2500:]
    return list(results.values())


def kani_playback_print(u):
    """Re-run one failing harness asking Kani for a concrete playback test."""
    if not u.playback:
        return None
    cmd = kani_cmd(u.group_key(), [u.harness], u.cap_s, 1, None,
                   ['-Z', 'concrete-playback', '--concrete-playback=print'])
    # playback needs regular output
    i = cmd.index('terse')
    cmd[i] = 'regular'
    try:
        p = subprocess.run(cmd, cwd=REPO, env=kani_env(), stdout=subprocess.PIPE,
                           stderr=subprocess.STDOUT, text=True, timeout=u.cap_s + 600,
                           preexec_fn=_limit)
    except subprocess.TimeoutExpired:
        return None
    m = re.search(r'```\n(.*?#\[test\].*?)```', p.stdout, re.S)
    if m:
        return m.group(1)
    m = re.search(r'(/// Test generated for harness.*?\n}\n)', p.stdout, re.S)
    return m.group(1) if m else None


# --------------------------------------------------------------------------
# Verus
# --------------------------------------------------------------------------
_SEMANTIC = re.compile(r'postcondition not satisfied|precondition not satisfied|assertion failed|'
                       r'invariant not satisfied|possible arithmetic (under|over)flow|'
                       r'possible division by zero|decreases not satisfied|'
                       r'loop invariant not preserved|unreachable|possible bit shift', re.I)


def _verus_vacuity_probe(u, r, d, env):
    """Thorough tier: re-extract with `assert(false)` at the top of every extracted function; every one of them must
    fail. A probe that verifies means a contradictory precondition / axiom set: the unit is reported undecided."""
    from . import vx
    try:
        vx.PROBE = True
        text, fns, _ = u.build()
    except Exception as e:  # noqa: BLE001
        r.extra['vacuity_probe'] = f'not run: {e}'
        return
    finally:
        vx.PROBE = False
    path = os.path.join(d, u.name + '_probe.rs')
    open(path, 'w').write(text)
    n = len(fns)
    try:
        p = subprocess.run(['verus', path, '--output-json', '--multiple-errors', str(4 * n + 8)], cwd=d,
                           stdout=subprocess.PIPE, stderr=subprocess.PIPE, text=True, timeout=900, env=env)
        data = json.loads(p.stdout[p.stdout.index('{'):])
    except Exception as e:  # noqa: BLE001
        r.extra['vacuity_probe'] = f'not run: {e}'
        return
    failed_asserts = len(re.findall(r'(?m)^error: assertion failed', p.stderr))
    r.extra['vacuity_probe'] = f'{failed_asserts} of {n} entry probes refuted (all must be)'
    if failed_asserts < n:
        r.verdict, r.reason = UNDEC, (f'vacuity probe: only {failed_asserts} of {n} `assert(false)` entry probes were refuted — '
                                      'a precondition or the admitted axioms are contradictory')


def run_verus(u, tier='quick'):
    r = Result(u)
    r.backend = 'Z3 (via Verus 0.2026.09.13)'
    t0 = time.time()
    d = os.path.join(VERUS_DIR, u.name)
    os.makedirs(d, exist_ok=True)
    path = os.path.join(d, u.name + '.rs')
    try:
        text, fns, dropped = u.build()
    except rsx.LostAnchor as e:
        r.verdict, r.reason = UNDEC, f'lost anchor while extracting: {e}'
        r.wall_s = time.time() - t0
        return r
    open(path, 'w').write(text)
    r.fns = fns
    r.extra['dropped'] = dropped
    r.extra['verified_text'] = path
    cmd = ['verus', path, '--output-json', '--time', '--multiple-errors', '4']
    if u.rlimit:
        cmd += ['--rlimit', str(u.rlimit)]
    r.extra['cmd'] = ' '.join(cmd)
    env = dict(os.environ)
    try:
        p = subprocess.run(cmd, cwd=d, stdout=subprocess.PIPE, stderr=subprocess.PIPE, text=True,
                           timeout=900, env=env)
    except subprocess.TimeoutExpired:
        r.verdict, r.reason = UNDEC, 'verus timeout (900 s)'
        r.wall_s = time.time() - t0
        return r
    r.wall_s = time.time() - t0
    out, err = p.stdout, p.stderr
    open(os.path.join(d, 'verus.stderr'), 'w').write(err)
    try:
        i = out.index('{')
        data = json.loads(out[i:])
    except Exception:
        r.verdict, r.reason = UNDEC, 'verus produced no JSON: ' + (err[-400:] or out[-400:])
        r.raw_tail = err[-2500:]
        return r
    vr = data.get('verification-results', {})
    tm = data.get('times-ms', {})
    r.solver_s = round(tm.get('smt', {}).get('total', 0) / 1000.0, 3)
    r.extra['verus_total_ms'] = tm.get('total')
    verified, errors = vr.get('verified', 0), vr.get('errors', 0)
    r.obligations, r.discharged = verified + errors, verified
    fb = []
    for mt in tm.get('smt', {}).get('smt-run-module-times', []):
        fb += mt.get('function-breakdown', [])
    r.samples = [{'function': f['function'], 'mode': f.get('mode:'), 'ok': f.get('success'),
                  'smt_us': f.get('time-micros')} for f in fb if f.get('mode:') != 'spec'][:6]
    r.raw_tail = err[-3000:]
    blocks = [b for b in re.split(r'(?m)^(?=error)', err) if b.startswith('error')]
    blocks = [b for b in blocks if not b.startswith('error: aborting due to')]
    if vr.get('success') and errors == 0 and not vr.get('encountered-error'):
        if verified < u.min_verified:
            r.verdict, r.reason = UNDEC, f'vacuity guard: only {verified} functions verified (< {u.min_verified})'
        else:
            r.verdict = PASS
            if tier == 'thorough':
                _verus_vacuity_probe(u, r, d, env)
        return r
    sem = [b for b in blocks if _SEMANTIC.search(b.split('\n', 1)[0])]
    other = [b for b in blocks if b not in sem]
    if sem and not other and not vr.get('encountered-vir-error'):
        # Any complete Verus run is a proof; a failed run may be solver instability (the queries of one
        # file share a Z3 context).  Before reporting, retry with every function in a fresh prover and
        # with another seed: the obligation is a violation only if no configuration proves it.
        for n, extra in enumerate((['-V', 'spinoff-all'],
                                   ['-V', 'spinoff-all', '--smt-option', 'smt.random_seed=7']), 1):
            try:
                p2 = subprocess.run(cmd + extra, cwd=d, stdout=subprocess.PIPE, stderr=subprocess.PIPE,
                                    text=True, timeout=900, env=env)
                d2 = json.loads(p2.stdout[p2.stdout.index('{'):])
            except Exception:
                continue
            v2 = d2.get('verification-results', {})
            if (v2.get('success') and v2.get('errors', 0) == 0 and not v2.get('encountered-error')
                    and v2.get('verified', 0) >= u.min_verified):
                r.verdict = PASS
                r.obligations = r.discharged = v2.get('verified', 0)
                r.solver_s = round(d2.get('times-ms', {}).get('smt', {}).get('total', 0) / 1000.0, 3)
                r.extra['retry'] = f'first run failed ({len(sem)} obligation(s)); proved on retry {n}: ' + ' '.join(extra)
                r.extra['cmd'] = ' '.join(cmd + extra)
                return r
        r.verdict = VIOL
        for b in sem:
            head = b.split('\n', 1)[0]
            m = re.search(r'--> (\S+)', b)
            r.failed.append({'desc': head.replace('error: ', ''), 'loc': m.group(1) if m else '?',
                             'category': 'verus', 'status': 'FAILED', 'detail': b[:1200]})
        r.reason = 'failed obligation(s): ' + '; '.join(f"{f['desc']} @ {f['loc']}" for f in r.failed[:3])
    else:
        r.verdict = UNDEC
        first = (other or blocks or [err[-300:]])[0]
        r.reason = 'verus did not decide (unsupported construct / rlimit / tool error): ' + first.strip()[:400]
    return r


# --------------------------------------------------------------------------
# trusted-base scan
# --------------------------------------------------------------------------
_SCAN = re.compile(r'\b(assume_specification|external_body|external_type_specification|admit\s*\(|'
                   r'kani::assume|kani::stub\b|kani::stub_verified|assume\s*\()')


def scan_assumptions(paths):
    found = {}
    for p in paths:
        if not os.path.exists(p):
            continue
        for ln, line in enumerate(open(p, errors='replace'), 1):
            s = line.strip()
            if s.startswith('//'):
                continue
            for m in _SCAN.finditer(line):
                key = m.group(1).strip(' (')
                found.setdefault(key, []).append(f'{os.path.relpath(p, VERIF)}:{ln}')
    return found


# --------------------------------------------------------------------------
# findings
# --------------------------------------------------------------------------
def load_findings():
    out = []
    if not os.path.exists(FINDINGS):
        return out
    for line in open(FINDINGS):
        line = line.strip()
        if not line.startswith('finding:'):
            continue
        kv = dict(re.findall(r'(\w+)=("[^"]*"|\S+)', line))
        out.append({k: v.strip('"') for k, v in kv.items()} | {'line': line})
    return out


def match_finding(findings, pid, r):
    for f in findings:
        if f.get('property') != pid or f.get('unit') != r.unit.name:
            continue
        needle = f.get('check', '')
        if all(needle in ((x.get('desc') or '') + ' ' + (x.get('loc') or '')) for x in r.failed
               if x.get('status') in ('FAILURE', 'Failure', 'FAILED')):
            return f
    return None


# --------------------------------------------------------------------------
# property runner
# --------------------------------------------------------------------------
def sha_file(p):
    try:
        return hashlib.sha256(open(p, 'rb').read()).hexdigest()[:16]
    except Exception:
        return None


def run_property(spec, tier, seed=0, jobs=4):
    t0 = time.time()
    pid = spec.PROPERTY
    units = [u for u in spec.UNITS if tier in u.tiers]
    kani_units = [u for u in units if u.engine == 'kani']
    verus_units = [u for u in units if u.engine == 'verus']
    results = []
    for u in verus_units:
        results.append(run_verus(u, tier))
    groups = {}
    for u in kani_units:
        groups.setdefault(u.group_key(), []).append(u)
    for key, us in groups.items():
        results += run_kani_group(key, us, jobs=jobs)
    # function spans for kani units
    for r in results:
        if r.unit.engine == 'kani':
            for f in r.unit.fns:
                try:
                    r.fns.append(f.locate())
                except Exception as e:
                    r.fns.append({'fn': f.name, 'file': f.file, 'anchor': f'not located: {e}'})

    findings = load_findings()
    viol = [r for r in results if r.verdict == VIOL]
    undec = [r for r in results if r.verdict == UNDEC]
    known, new_viol = [], []
    for r in viol:
        f = match_finding(findings, pid, r)
        (known if f else new_viol).append((r, f))

    os.makedirs(EVID, exist_ok=True)
    os.makedirs(REPLAYS, exist_ok=True)
    replay_paths = []
    for r, _ in new_viol:
        rp = os.path.join(REPLAYS, f'{pid}-{re.sub(r"[^A-Za-z0-9_]+", "_", r.unit.name)}.json')
        test = None
        if r.unit.engine == 'kani' and os.environ.get('VERIF_NO_PLAYBACK') != '1':
            test = kani_playback_print(r.unit)
        witness = None
        if r.unit.engine == 'verus' and getattr(spec, 'WITNESS_CMD', None):
            # fixed witness inputs run against the real code: a concrete failing input if one of them fails
            try:
                wp = subprocess.run(spec.WITNESS_CMD, stdout=subprocess.PIPE, stderr=subprocess.STDOUT, text=True, timeout=1800)
                if wp.returncode == 1:
                    witness = wp.stdout[-2000:]
                    test = 'witness: ' + ' '.join(spec.WITNESS_CMD)
            except Exception:
                pass
        json.dump({
            'property': pid, 'engine': r.unit.engine, 'unit': r.unit.name,
            'crate': getattr(r.unit, 'crate', None), 'features': getattr(r.unit, 'features', None),
            'failed_obligations': r.failed, 'reason': r.reason,
            'concrete_playback_test': test,
            'witness_output': witness,
            'witness_cmd': getattr(spec, 'WITNESS_CMD', None),
            'stubs': getattr(r.unit, 'stubs', []),
            'verifier_output_tail': r.raw_tail,
            'cmd': r.extra.get('cmd'),
            'how_to_replay': f'/verif/check replay {rp}',
            'repo_head': git_head(),
        }, open(rp, 'w'), indent=1)
        replay_paths.append((r, rp, test))

    # ---- evidence ----
    n_obl = sum(r.obligations for r in results)
    n_dis = sum(r.discharged for r in results if r.verdict == PASS) + \
        sum(r.discharged for r in results if r.verdict != PASS)
    harness_files = set()
    for u in units:
        for pth in getattr(spec, 'HARNESS_FILES', []):
            harness_files.add(os.path.join(VERIF, pth))
    scan = scan_assumptions(sorted(harness_files))
    ulist = []
    for r in results:
        u = r.unit
        ulist.append({
            'unit': u.name, 'engine': u.engine, 'verdict': r.verdict, 'kind': u.kind,
            'bound': u.bound, 'contract': getattr(u, 'contract', ''),
            'functions_under_contract': r.fns,
            'obligations': r.obligations, 'discharged': r.discharged, 'backend': r.backend,
            'solver_s': r.solver_s, 'wall_s': round(r.wall_s, 2),
            'cover_points': {'satisfied': r.covers[0], 'total': r.covers[1]},
            'reason': r.reason, 'dropped_by_extraction': r.extra.get('dropped'),
            'verified_text': r.extra.get('verified_text'),
            'stubs_expected': getattr(u, 'stubs', []),
            'obligations_located_in_repo_source': r.extra.get('repo_obligations'),
        })
    samples = []
    for r in results:
        for s in r.samples[:2]:
            samples.append({'unit': r.unit.name, **s})
    if not samples:
        samples = [{'unit': r.unit.name, 'obligations': r.obligations} for r in results][:3] or ['none']
    bounded = [u.name + ': ' + u.bound for u in units if u.kind == 'bounded']
    assumptions = list(getattr(spec, 'ASSUMPTIONS', []))
    for k, v in scan.items():
        assumptions.append(f'{k} x{len(v)} in harness/prelude sources: ' + ', '.join(v[:8]) + (' …' if len(v) > 8 else ''))
    if bounded:
        assumptions.append('BOUNDED units (not counted as proved beyond the bound): ' + '; '.join(bounded))
    ev = {
        'property_id': pid, 'tier': tier, 'seed': seed, 'level': spec.LEVEL,
        'coverage': {
            'obligations': n_obl, 'discharged': n_dis,
            'checker_cmd': '; '.join(sorted({r.extra.get('cmd', '') for r in results}))[:4000],
            'trusted_base': list(getattr(spec, 'TRUSTED', [])) + [
                'Kani 0.68 / CBMC 6.11 / CaDiCaL; Verus 0.2026.09.13 / Z3; rustc MIR as lowered by Kani',
                'heap allocation never fails; atomics sequential; no threads (Kani model)'],
            'explanation': getattr(spec, 'EXPLANATION', ''),
            'evaluations': len(results),
            'distinct_nontrivial': sum(1 for r in results if r.obligations > 0),
            'rule': 'one evaluation = one contract unit (a Kani harness over symbolic inputs or a Verus-verified '
                    'extracted function set); non-trivial = it generated at least one obligation from /repo code',
            'samples': samples,
            'units': ulist,
            'functions_under_contract': sorted({f.get('file', '?') + ' :: ' + f.get('fn', '?') for r in results for f in r.fns}),
            'bounded_units': bounded,
            'undecided_units': [r.unit.name + ': ' + r.reason for r in undec],
            'known_findings_reported': [f['line'] for _, f in known],
            'repo_head': git_head(), 'repo_dirty_files': git_dirty(),
        },
        'assumptions': assumptions,
        'wall_s': round(time.time() - t0, 2),
        'violations': len(new_viol),
    }
    json.dump(ev, open(os.path.join(EVID, pid + '.json'), 'w'), indent=1)

    # ---- report ----
    for r in results:
        print(f'[{pid}] {r.unit.engine:5} {r.unit.name}: {r.verdict} '
              f'({r.discharged}/{r.obligations} obligations, covers {r.covers[0]}/{r.covers[1]}, '
              f'{r.wall_s:.1f}s){" — " + r.reason if r.reason else ""}')
    for r, f in known:
        print(f'KNOWN-FINDING: property={pid} {f.get("what", f["line"])}')
    if new_viol:
        # prefer a replay that carries a concrete input
        replay_paths.sort(key=lambda x: 0 if x[2] else 1)
        for r, rp, test in replay_paths:
            tail = '' if test else ' no-failing-input-found'
            print(f'[{pid}] violated obligation in {r.unit.name}: {r.reason}')
            print(f'VIOLATION property={pid} replay={rp}{tail}')
        return 1
    if undec:
        print(f'UNDECIDED property={pid}: ' + '; '.join(r.unit.name + ' — ' + r.reason[:200] for r in undec))
        return 2
    print(f'[{pid}] OK: {n_dis}/{n_obl} obligations discharged in {len(results)} units, {time.time() - t0:.0f}s')
    return 0


def git_head():
    try:
        return subprocess.run(['git', '-C', REPO, 'rev-parse', '--short', 'HEAD'], stdout=subprocess.PIPE,
                              text=True).stdout.strip()
    except Exception:
        return '?'


def git_dirty():
    try:
        o = subprocess.run(['git', '-C', REPO, 'status', '--porcelain', '--untracked-files=no'],
                           stdout=subprocess.PIPE, text=True).stdout.strip().splitlines()
        return [l.strip() for l in o][:20]
    except Exception:
        return []
